// vharness_buf.hpp — C07 whole-run comparison: the same grammar and bytes through several input
// classes, with the observation control of vharness.hpp.  `run_on` is `vh::run_case` templated on
// the input object; `compare_case` runs the reference (memory_input, eager) first and then each
// variant, and prints one line per case:
//
//   CASE <cid> | <name> <code> <hash> <nevents> <prefix> <R line> | <name> ...
//
// code: S = ran to an R line, O = std::overflow_error escaped parse(), X = setup failed.
// hash = FNV-1a of the complete event trace; prefix (only for O) = 1 if the events logged before the
// first unwinding event are a prefix of the reference trace.
// With `vhb::g_full` the complete traces are printed as well (replay).
#ifndef VERIF_VHARNESS_BUF_HPP
#define VERIF_VHARNESS_BUF_HPP

#include <algorithm>
#include <cstdint>
#include <cstdio>
#include <cstring>
#include <fstream>
#include <stdexcept>
#include <string>
#include <vector>

#include "vharness.hpp"

#include <tao/pegtl/buffer_input.hpp>
#include <tao/pegtl/cstream_input.hpp>
#include <tao/pegtl/istream_input.hpp>
#include <tao/pegtl/internal/cstring_reader.hpp>
#include <tao/pegtl/discard_input.hpp>
#include <tao/pegtl/discard_input_on_failure.hpp>
#include <tao/pegtl/discard_input_on_success.hpp>

namespace vhb
{
   namespace pegtl = tao::pegtl;

   inline bool g_full = false;

   struct reader_state
   {
      const char* data = nullptr;
      std::size_t n = 0;
      std::size_t fed = 0;
      std::vector< std::size_t > sched;
      std::size_t idx = 0;
      std::size_t calls = 0;
      std::size_t short_reads = 0;
   };

   // min( length, max( scheduled, 1 ), remaining ); the full request once the schedule is used up;
   // a schedule given as cyclic repeats forever.
   struct script_reader
   {
      explicit script_reader( reader_state* s ) noexcept
         : st( s )
      {}

      std::size_t operator()( char* buffer, const std::size_t length )
      {
         std::size_t want = length;
         if( st->idx < st->sched.size() ) {
            want = ( std::max )( st->sched[ st->idx ], std::size_t( 1 ) );
         }
         ++st->idx;
         ++st->calls;
         const std::size_t r = ( std::min )( ( std::min )( length, want ), st->n - st->fed );
         if( r != 0 ) {
            std::memcpy( buffer, st->data + st->fed, r );
         }
         if( r < length && r < st->n - st->fed ) {
            ++st->short_reads;
         }
         st->fed += r;
         return r;
      }

      reader_state* st;
   };

   struct outcome
   {
      char code = 'X';
      std::string trace;   // all events
      std::string rline;   // "R <0|1|2> byte line col [exception]" / "OVF byte line col"
   };

   inline std::uint64_t fnv( const std::string& s )
   {
      std::uint64_t h = 1469598103934665603ULL;
      for( const unsigned char c : s ) {
         h ^= c;
         h *= 1099511628211ULL;
      }
      return h;
   }

   inline std::size_t count_lines( const std::string& s )
   {
      return static_cast< std::size_t >( std::count( s.begin(), s.end(), '\n' ) );
   }

   // One parse() call on an already constructed input.
   template< typename Tag,
             typename Root,
             template< typename... >
             class Action,
             template< typename... >
             class Control,
             pegtl::apply_mode A,
             pegtl::rewind_mode M,
             typename In >
   void run_on( In& in, outcome& o )
   {
      vh::names_ptr() = &vh::names_for< Tag >();
      vh::g_out.clear();
      vh::g_steps = 0;
      std::string r;
      char b[ 128 ];
      try {
         const bool ok = pegtl::parse< Root, Action, Control, A, M >( in );
         o.code = 'S';
         o.trace.swap( vh::g_out );
         vh::g_out.clear();
         r = ok ? "R 1" : "R 0";
      }
      catch( const std::overflow_error& ) {
         o.code = 'O';
         o.trace.swap( vh::g_out );
         vh::g_out.clear();
         r = "OVF";
      }
      catch( ... ) {
         o.code = 'S';
         o.trace.swap( vh::g_out );
         vh::g_out.clear();
         vh::describe_exception( std::current_exception() );
         r = "R 2";
      }
      const auto p = in.position();
      std::snprintf( b, sizeof b, " %zu %zu %zu d%zu", p.byte, p.line, p.column, in.private_depth );
      o.rline = r + b;
      if( !vh::g_out.empty() ) {
         o.rline += ' ';
         o.rline += vh::g_out;
         vh::g_out.clear();
      }
      for( auto& c : o.rline ) {
         if( c == '|' || c == '\n' ) {
            c = '/';
         }
      }
   }

   // The events logged before unwinding started.
   inline std::string before_unwind( const std::string& t )
   {
      std::size_t pos = 0;
      while( pos < t.size() ) {
         const std::size_t e = t.find( '\n', pos );
         const std::size_t len = ( e == std::string::npos ) ? t.size() - pos : e - pos;
         const char* l = t.data() + pos;
         bool uw = ( len >= 3 && l[ 0 ] == 'u' && l[ 1 ] == 'w' && l[ 2 ] == ' ' );
         if( !uw && len >= 2 && l[ 0 ] == 'X' && l[ 1 ] == ' ' ) {
            // "X <id> <code> ..."
            std::size_t i = 2;
            while( i < len && l[ i ] != ' ' ) {
               ++i;
            }
            uw = ( i + 1 < len && l[ i + 1 ] == '2' );
         }
         if( uw ) {
            return t.substr( 0, pos );
         }
         if( e == std::string::npos ) {
            break;
         }
         pos = e + 1;
      }
      return t;
   }

   struct reporter
   {
      std::string line;
      const outcome* ref = nullptr;

      void begin( const char* cid )
      {
         line = "CASE ";
         line += cid;
      }

      void add( const std::string& name, const outcome& o, const std::string& extra = std::string() )
      {
         int prefix = 0;
         if( o.code == 'O' && ref != nullptr ) {
            const std::string pre = before_unwind( o.trace );
            prefix = ( ref->trace.compare( 0, pre.size(), pre ) == 0 ) ? 1 : 0;
         }
         char b[ 96 ];
         std::snprintf( b, sizeof b, " %c %016llx %zu %d ", o.code, static_cast< unsigned long long >( fnv( o.trace ) ), count_lines( o.trace ), prefix );
         line += " | ";
         line += name;
         line += b;
         line += o.rline;
         if( !extra.empty() ) {
            line += " # ";
            line += extra;
         }
         if( g_full ) {
            std::printf( "TRACE %s\n%sENDTRACE\n", name.c_str(), o.trace.c_str() );
         }
      }

      void end()
      {
         line += '\n';
         std::fwrite( line.data(), 1, line.size(), stdout );
      }
   };

   struct buf_variant
   {
      std::size_t maximum = 0;
      std::size_t chunk = 0;
      std::vector< std::size_t > sched;
      std::string name;
   };

   // "m<maximum>c<chunk>s<count.count...>" (s- = always the full request)
   inline bool parse_variant( const std::string& tok, buf_variant& v )
   {
      v = buf_variant();
      v.name = tok;
      if( tok.empty() || tok[ 0 ] != 'm' ) {
         return false;
      }
      const std::size_t c = tok.find( 'c' );
      const std::size_t s = tok.find( 's' );
      if( c == std::string::npos || s == std::string::npos || s < c ) {
         return false;
      }
      v.maximum = std::strtoull( tok.c_str() + 1, nullptr, 10 );
      v.chunk = std::strtoull( tok.c_str() + c + 1, nullptr, 10 );
      std::size_t p = s + 1;
      while( p < tok.size() && tok[ p ] != '-' ) {
         char* e = nullptr;
         v.sched.push_back( std::strtoull( tok.c_str() + p, &e, 10 ) );
         p = static_cast< std::size_t >( e - tok.c_str() );
         if( p < tok.size() && tok[ p ] == '.' ) {
            ++p;
         }
      }
      return true;
   }

   template< typename Tag, typename Root, template< typename... > class Action, template< typename... > class Control, pegtl::apply_mode A, pegtl::rewind_mode M, typename Eol, std::size_t Chunk >
   void run_buffer( const char* heap, std::size_t n, const buf_variant& v, outcome& o, std::string& extra )
   {
      reader_state rs;
      rs.data = heap;
      rs.n = n;
      rs.sched = v.sched;
      {
         pegtl::buffer_input< script_reader, Eol, std::string, Chunk > in( "src", v.maximum, &rs );
         run_on< Tag, Root, Action, Control, A, M >( in, o );
      }
      char b[ 96 ];
      std::snprintf( b, sizeof b, "calls=%zu short=%zu fed=%zu", rs.calls, rs.short_reads, rs.fed );
      extra = b;
   }

   // memory_input eager (reference), memory_input lazy, string_input, buffer_input variants.
   template< typename Tag, typename Root, template< typename... > class Action, template< typename... > class Control, pegtl::apply_mode A, pegtl::rewind_mode M, typename Eol >
   void compare_case( const char* cid, const std::string& bytes, const std::vector< buf_variant >& variants )
   {
      const std::size_t n = bytes.size();
      char* heap = new char[ n ];
      if( n != 0 ) {
         std::memcpy( heap, bytes.data(), n );
      }
      reporter rep;
      rep.begin( cid );
      outcome ref;
      {
         pegtl::memory_input< pegtl::tracking_mode::eager, Eol, std::string > in( heap, heap + n, "src" );
         run_on< Tag, Root, Action, Control, A, M >( in, ref );
      }
      rep.add( "mem_eager", ref );
      rep.ref = &ref;
      {
         outcome o;
         pegtl::memory_input< pegtl::tracking_mode::lazy, Eol, std::string > in( heap, heap + n, "src" );
         run_on< Tag, Root, Action, Control, A, M >( in, o );
         rep.add( "mem_lazy", o );
      }
      {
         outcome o;
         pegtl::string_input< pegtl::tracking_mode::eager, Eol, std::string > in( std::string( heap, n ), "src" );
         run_on< Tag, Root, Action, Control, A, M >( in, o );
         rep.add( "string", o );
      }
      for( const auto& v : variants ) {
         outcome o;
         std::string extra;
         switch( v.chunk ) {
            case 1:
               run_buffer< Tag, Root, Action, Control, A, M, Eol, 1 >( heap, n, v, o, extra );
               break;
#if !defined( VHB_FEWER_CHUNKS )
            case 2:
               run_buffer< Tag, Root, Action, Control, A, M, Eol, 2 >( heap, n, v, o, extra );
               break;
            case 8:
               run_buffer< Tag, Root, Action, Control, A, M, Eol, 8 >( heap, n, v, o, extra );
               break;
#endif
            case 3:
               run_buffer< Tag, Root, Action, Control, A, M, Eol, 3 >( heap, n, v, o, extra );
               break;
            case 64:
               run_buffer< Tag, Root, Action, Control, A, M, Eol, 64 >( heap, n, v, o, extra );
               break;
            default:
               extra = "unsupported-chunk";
         }
         rep.add( v.name, o, extra );
      }
      rep.end();
      delete[] heap;
   }

   // The file at `path` (written by the check with exactly `bytes`) through read_input, mmap_input,
   // file_input, cstream_input and istream_input (maximum `big` and `small`), and the bytes as argv[ 1 ]
   // through argv_input when they contain no NUL; reference: memory_input over the bytes.
   template< typename Tag, typename Root, template< typename... > class Action, template< typename... > class Control, pegtl::apply_mode A, pegtl::rewind_mode M, typename Eol >
   void compare_files( const char* cid, const std::string& bytes, const std::string& path, std::size_t big, std::size_t small )
   {
      const std::size_t n = bytes.size();
      char* heap = new char[ n ];
      if( n != 0 ) {
         std::memcpy( heap, bytes.data(), n );
      }
      reporter rep;
      rep.begin( cid );
      outcome ref;
      {
         pegtl::memory_input< pegtl::tracking_mode::eager, Eol, std::string > in( heap, heap + n, "src" );
         run_on< Tag, Root, Action, Control, A, M >( in, ref );
      }
      rep.add( "mem_eager", ref );
      rep.ref = &ref;
      const auto guarded = [ & ]( const char* name, auto&& body ) {
         outcome o;
         std::string extra;
         try {
            body( o );
         }
         catch( const std::exception& e ) {
            o.code = 'X';
            o.rline = std::string( "SETUP " ) + e.what();
            for( auto& c : o.rline ) {
               if( c == '|' || c == '\n' ) {
                  c = '/';
               }
            }
         }
         rep.add( name, o, extra );
      };
      guarded( "read", [ & ]( outcome& o ) {
         pegtl::read_input< pegtl::tracking_mode::eager, Eol > in( path );
         run_on< Tag, Root, Action, Control, A, M >( in, o );
      } );
      if( n <= 5000 ) {  // lazy position() is a scan from begin(): quadratic with one observation per event
         guarded( "read_lazy", [ & ]( outcome& o ) {
            pegtl::read_input< pegtl::tracking_mode::lazy, Eol > in( path );
            run_on< Tag, Root, Action, Control, A, M >( in, o );
         } );
      }
#if defined( _POSIX_MAPPED_FILES )
      guarded( "mmap", [ & ]( outcome& o ) {
         pegtl::mmap_input< pegtl::tracking_mode::eager, Eol > in( path );
         run_on< Tag, Root, Action, Control, A, M >( in, o );
      } );
#endif
      guarded( "file", [ & ]( outcome& o ) {
         pegtl::file_input< pegtl::tracking_mode::eager, Eol > in( path );
         run_on< Tag, Root, Action, Control, A, M >( in, o );
      } );
      if( n <= 5000 ) {  // every class forwards the tracking mode to its base on its own
#if defined( _POSIX_MAPPED_FILES )
         guarded( "mmap_lazy", [ & ]( outcome& o ) {
            pegtl::mmap_input< pegtl::tracking_mode::lazy, Eol > in( path );
            run_on< Tag, Root, Action, Control, A, M >( in, o );
         } );
#endif
         guarded( "file_lazy", [ & ]( outcome& o ) {
            pegtl::file_input< pegtl::tracking_mode::lazy, Eol > in( path );
            run_on< Tag, Root, Action, Control, A, M >( in, o );
         } );
         guarded( "string_lazy", [ & ]( outcome& o ) {
            pegtl::string_input< pegtl::tracking_mode::lazy, Eol > in( std::string( heap, n ), "src" );
            run_on< Tag, Root, Action, Control, A, M >( in, o );
         } );
      }
      for( const std::size_t mx : { big, small } ) {
         const std::string sfx = ( mx == big ) ? "_big" : "_small";
         guarded( ( "cstream" + sfx ).c_str(), [ & ]( outcome& o ) {
            std::FILE* f = std::fopen( path.c_str(), "rb" );
            if( f == nullptr ) {
               throw std::runtime_error( "fopen failed" );
            }
            {
               pegtl::cstream_input< Eol, 64 > in( f, mx, path );
               run_on< Tag, Root, Action, Control, A, M >( in, o );
            }
            std::fclose( f );
         } );
         guarded( ( "cstream3" + sfx ).c_str(), [ & ]( outcome& o ) {
            std::FILE* f = std::fopen( path.c_str(), "rb" );
            if( f == nullptr ) {
               throw std::runtime_error( "fopen failed" );
            }
            std::setvbuf( f, nullptr, _IONBF, 0 );
            {
               pegtl::cstream_input< Eol, 3 > in( f, mx, path );
               run_on< Tag, Root, Action, Control, A, M >( in, o );
            }
            std::fclose( f );
         } );
         guarded( ( "istream" + sfx ).c_str(), [ & ]( outcome& o ) {
            std::ifstream f( path, std::ios::binary );
            if( !f ) {
               throw std::runtime_error( "ifstream failed" );
            }
            pegtl::istream_input< Eol, 64 > in( f, mx, path );
            run_on< Tag, Root, Action, Control, A, M >( in, o );
         } );
         guarded( ( "istream3" + sfx ).c_str(), [ & ]( outcome& o ) {
            std::ifstream f( path, std::ios::binary );
            if( !f ) {
               throw std::runtime_error( "ifstream failed" );
            }
            pegtl::istream_input< Eol, 3 > in( f, mx, path );
            run_on< Tag, Root, Action, Control, A, M >( in, o );
         } );
      }
      if( bytes.find( '\0' ) == std::string::npos ) {
         guarded( "argv", [ & ]( outcome& o ) {
            char* arg = new char[ n + 1 ];
            if( n != 0 ) {
               std::memcpy( arg, heap, n );
            }
            arg[ n ] = 0;
            char prog[] = "prog";
            char* argv[] = { prog, arg, nullptr };
            {
               pegtl::argv_input< pegtl::tracking_mode::eager, Eol > in( argv, 1 );
               run_on< Tag, Root, Action, Control, A, M >( in, o );
            }
            delete[] arg;
         } );
         if( n <= 5000 ) {
            guarded( "argv_lazy", [ & ]( outcome& o ) {
               char* arg = new char[ n + 1 ];
               if( n != 0 ) {
                  std::memcpy( arg, heap, n );
               }
               arg[ n ] = 0;
               char prog[] = "prog";
               char* argv[] = { prog, arg, nullptr };
               {
                  pegtl::argv_input< pegtl::tracking_mode::lazy, Eol > in( argv, 1 );
                  run_on< Tag, Root, Action, Control, A, M >( in, o );
               }
               delete[] arg;
            } );
         }
         guarded( "cstring_big", [ & ]( outcome& o ) {
            char* arg = new char[ n + 1 ];
            if( n != 0 ) {
               std::memcpy( arg, heap, n );
            }
            arg[ n ] = 0;
            {
               pegtl::buffer_input< pegtl::internal::cstring_reader, Eol, std::string, 8 > in( "cstring", big, static_cast< const char* >( arg ) );
               run_on< Tag, Root, Action, Control, A, M >( in, o );
            }
            delete[] arg;
         } );
      }
      rep.end();
      delete[] heap;
   }

}  // namespace vhb

#endif
