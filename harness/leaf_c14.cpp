// leaf_c14.cpp — observation driver for property C14 over the real grammar of
// tao/pegtl/contrib/json.hpp:  parse< seq< json::text, eof > >( memory_input ).
// Same line protocol as /verif/lean/DrvC14.lean:
//
//   A <hex>            set the alphabet of the sweeps
//   C <hex|->          one input          ->  `C <res> <pos>`      res: 1 success, 0 failure, 2 exception
//   S <hex|->          one (large) input  ->  `S <res> <pos|->`    pos only on success (the Lean side evaluates
//                                                                 only the formalism for these, which has no failure position)
//   E <hex|-> <k>      all alphabet^k completions of the prefix, in alphabet order
//                                          ->  `E <res><res>...`    one digit per input
//
// Every input lives in an exact-size heap buffer without terminator (ASan sees any read past
// the end); reads/advances outside [ current(), end() ) are also counted by the TAO_PEGTL_VERIF
// hook and reported as result 3.  <pos> is the byte offset of the input after parse().

#include <cstdint>
#include <cstdio>
#include <cstring>
#include <exception>
#include <iostream>
#include <memory>
#include <sstream>
#include <string>
#include <vector>

#include <tao/pegtl.hpp>
#include <tao/pegtl/contrib/json.hpp>

namespace pegtl = TAO_PEGTL_NAMESPACE;

namespace c14
{
   struct top : pegtl::seq< pegtl::json::text, pegtl::eof > {};

   struct result
   {
      int res;
      std::size_t pos;
   };

   // a reader over the bytes that hands out at most `step` bytes per call (buffer_input asks for Chunk or more)
   struct mem_reader
   {
      const char* p;
      std::size_t left;
      std::size_t step;

      std::size_t operator()( char* buffer, const std::size_t length )
      {
         std::size_t n = ( length < left ) ? length : left;
         if( n > step ) {
            n = step;
         }
         if( n != 0 ) {
            std::memcpy( buffer, p, n );
         }
         p += n;
         left -= n;
         return n;
      }
   };

   // the same text through a buffer_input that fetches `Chunk` bytes at a time (capacity: the whole text, never an overflow)
   template< std::size_t Chunk >
   result run_buffered( const char* data, const std::size_t size, const std::size_t step )
   {
      pegtl::buffer_input< mem_reader, pegtl::eol::lf_crlf, std::string, Chunk > in( "c14", size + 16, mem_reader{ data, size, step } );
      result r{ 0, 0 };
      try {
         r.res = pegtl::parse< top >( in ) ? 1 : 0;
      }
      catch( const std::exception& ) {
         r.res = 2;
      }
      catch( ... ) {
         r.res = 2;
      }
      r.pos = in.byte();
      return r;
   }

   inline result run_memory( const std::vector< unsigned char >& data );

   // memory_input is the reference; the result must not depend on the input class (res 4: it does)
   inline result run( const std::vector< unsigned char >& data, const bool buffered = false )
   {
      result r = run_memory( data );
      if( buffered && r.res != 3 ) {
         std::unique_ptr< char[] > buf( new char[ data.size() ] );
         if( !data.empty() ) {
            std::memcpy( buf.get(), data.data(), data.size() );
         }
         const result b1 = run_buffered< 1 >( buf.get(), data.size(), 1 );
         const result b64 = run_buffered< 64 >( buf.get(), data.size(), 64 );
         const result b3 = run_buffered< 3 >( buf.get(), data.size(), 2 );
         const auto same = [ & ]( const result& x ) { return x.res == r.res && ( r.res != 1 || x.pos == r.pos ); };
         if( !( same( b1 ) && same( b64 ) && same( b3 ) ) ) {
            r.res = 4;
         }
      }
      return r;
   }

   inline result run_memory( const std::vector< unsigned char >& data )
   {
      // exact-size heap buffer, no terminator; size 0 still gets a distinct allocation
      std::unique_ptr< char[] > buf( new char[ data.size() ] );
      if( !data.empty() ) {
         std::memcpy( buf.get(), data.data(), data.size() );
      }
      const long oob0 = vh::g_oob;
      pegtl::memory_input in( buf.get(), buf.get() + data.size(), "c14" );
      result r{ 0, 0 };
      try {
         r.res = pegtl::parse< top >( in ) ? 1 : 0;
      }
      catch( const std::exception& ) {
         r.res = 2;
      }
      catch( ... ) {
         r.res = 2;
      }
      r.pos = in.byte();
      if( vh::g_oob != oob0 ) {
         r.res = 3;
      }
      return r;
   }

   inline int hexval( char c )
   {
      if( c >= '0' && c <= '9' ) return c - '0';
      if( c >= 'a' && c <= 'f' ) return c - 'a' + 10;
      if( c >= 'A' && c <= 'F' ) return c - 'A' + 10;
      return 0;
   }

   inline std::vector< unsigned char > unhex( const std::string& s )
   {
      std::vector< unsigned char > out;
      if( s == "-" ) return out;
      for( std::size_t i = 0; i + 1 < s.size(); i += 2 ) {
         out.push_back( static_cast< unsigned char >( hexval( s[ i ] ) * 16 + hexval( s[ i + 1 ] ) ) );
      }
      return out;
   }

   inline void sweep( const std::vector< unsigned char >& alpha, int k, std::vector< unsigned char >& cur, std::string& acc )
   {
      if( k == 0 ) {
         acc.push_back( static_cast< char >( '0' + run( cur ).res ) );
         return;
      }
      for( unsigned char c : alpha ) {
         cur.push_back( c );
         sweep( alpha, k - 1, cur, acc );
         cur.pop_back();
      }
   }

}  // namespace c14

int main()
{
   std::ios::sync_with_stdio( false );
   std::vector< unsigned char > alpha;
   std::string line;
   while( std::getline( std::cin, line ) ) {
      std::istringstream is( line );
      std::string op;
      std::string hex;
      if( !( is >> op ) ) continue;
      if( op == "A" ) {
         is >> hex;
         alpha = c14::unhex( hex );
      }
      else if( op == "C" ) {
         is >> hex;
         const auto r = c14::run( c14::unhex( hex ), true );
         std::cout << "C " << r.res << ' ' << r.pos << '\n';
      }
      else if( op == "S" ) {
         is >> hex;
         const auto r = c14::run( c14::unhex( hex ), true );
         std::cout << "S " << r.res << ' ';
         if( r.res == 1 ) {
            std::cout << r.pos;
         }
         else {
            std::cout << '-';
         }
         std::cout << '\n';
      }
      else if( op == "E" ) {
         int k = 0;
         is >> hex >> k;
         auto cur = c14::unhex( hex );
         std::string acc;
         c14::sweep( alpha, k, cur, acc );
         std::cout << "E " << acc << '\n';
      }
      else {
         std::cout << "BAD\n";
      }
      std::cout.flush();
   }
   return 0;
}
