// leaf_c19.cpp — C19 observation driver over the real tao::pegtl::memory_input.
//
// stdin, one case per line:   <eol> <lazy 0|1, +2: the input is obtained from a parse-tree node (as_memory_input)> <init byte> <init line> <init column> <hex input | ->
// stdout, one line per case: space-separated records  M:i:off:byte:line:col:at:bol:eol:lb:ll
//   M = B  position() after in.bump( i )            (odd i: i single in.bump() calls)
//       Y  position() after parse< bytes< i > >( in ), i <= 12
//       U  position behind the i-th `a` (and at the start), taken by an action in seq< mark, star< seq< until< one< 'a' > >, mark > > >:
//          the one-argument until skips the bytes in between itself
//       R  like T, but the walk runs inside rematch< until< eof >, … > (on the inner input that rematch constructs)
//       T  position of the i-th `mark` in seq< mark, star< sor< eol, any >, mark > >, taken by an
//          action *during* the parsing run; the helpers are called from inside the action
//   off = current() - begin() when the position was taken, byte:line:col = the position,
//   at / bol = at( p ) / begin_of_line( p ) as integer offsets from the first data byte,
//   eol = end_of_line( p ), lb:ll = line_at( p ).data() offset and size.
// No returned pointer is ever dereferenced here.  When at( p ) is outside [begin, end],
// end_of_line / line_at would parse foreign memory: they are not called and `x:x:x` is printed.
// The same protocol is implemented by lean/DrvC19.lean over the model.

#include <cstdint>
#include <cstdio>
#include <iostream>
#include <memory>
#include <sstream>
#include <string>
#include <utility>
#include <vector>

#include <tao/pegtl.hpp>
#include <tao/pegtl/contrib/parse_tree.hpp>

namespace pegtl = tao::pegtl;

static constexpr std::size_t YMAX = 12;

struct Cfg
{
   const char* data;
   std::size_t size;
   std::size_t ib, il, ic;
   bool via_node = false;   // the input is the one a parse-tree node over [ data, data + size ) hands out (basic_node::as_memory_input)
};

static long long off_of( const char* p, const char* data )
{
   return static_cast< long long >( reinterpret_cast< std::intptr_t >( p ) - reinterpret_cast< std::intptr_t >( data ) );
}

template< typename In >
static void record( std::string& out, const In& in, const Cfg& c, const char mode, const std::size_t i, const long long off, const pegtl::position& p )
{
   const long long a = off_of( in.at( p ), c.data );
   const long long b = off_of( in.begin_of_line( p ), c.data );
   std::ostringstream o;
   o << mode << ':' << i << ':' << off << ':' << p.byte << ':' << p.line << ':' << p.column << ':' << a << ':' << b << ':';
   if( ( a >= 0 ) && ( a <= static_cast< long long >( c.size ) ) ) {
      const long long e = off_of( in.end_of_line( p ), c.data );
      const std::string_view sv = in.line_at( p );
      o << e << ':' << off_of( sv.data(), c.data ) << ':' << static_cast< long long >( sv.size() );
   }
   else {
      o << "x:x:x";
   }
   if( !out.empty() ) {
      out += ' ';
   }
   out += o.str();
}

// The input under test; default counters use the ordinary constructor.
template< pegtl::tracking_mode TM, typename Eol >
struct Input
{
   using type = pegtl::memory_input< TM, Eol, std::string >;
};

template< pegtl::tracking_mode TM, typename Eol >
static std::unique_ptr< typename Input< TM, Eol >::type > make( const Cfg& c )
{
   using in_t = typename Input< TM, Eol >::type;
   if( c.via_node ) {
      // a node as parse_tree::parse leaves it: begin / end iterators with the counters of the position where its rule started
      pegtl::parse_tree::node nd;
      nd.source = "c19";
      nd.m_begin = pegtl::internal::inputerator( c.data, c.ib, c.il, c.ic );
      nd.m_end = pegtl::internal::inputerator( c.data + c.size, c.ib + c.size, c.il, c.ic );
      return std::unique_ptr< in_t >( new in_t( nd.template as_memory_input< TM, Eol >() ) );
   }
   if( ( c.ib == 0 ) && ( c.il == 1 ) && ( c.ic == 1 ) ) {
      return std::make_unique< in_t >( c.data, c.size, "c19" );
   }
   return std::make_unique< in_t >( c.data, c.data + c.size, "c19", c.ib, c.il, c.ic );
}

template< pegtl::tracking_mode TM, typename Eol, std::size_t K >
static void run_y( std::string& out, const Cfg& c )
{
   if( K > c.size ) {
      return;
   }
   auto in = make< TM, Eol >( c );
   const bool ok = pegtl::parse< pegtl::bytes< K > >( *in );
   if( !ok ) {
      out += " Y-FAILED";
      return;
   }
   record( out, *in, c, 'Y', K, off_of( in->current(), c.data ), in->position() );
}

template< pegtl::tracking_mode TM, typename Eol, std::size_t... Ks >
static void run_ys( std::string& out, const Cfg& c, std::index_sequence< Ks... > /*unused*/ )
{
   ( run_y< TM, Eol, Ks >( out, c ), ... );
}

struct mark : pegtl::success {};
struct tok : pegtl::sor< pegtl::eol, pegtl::any > {};
struct walk : pegtl::seq< mark, pegtl::star< tok, mark > > {};

template< typename In >
struct WalkState
{
   const In* in;
   const Cfg* cfg;
   std::string* out;
   std::size_t n = 0;
   char mode = 'T';
};

// the same walk over the inner input of rematch<> (the head matches the whole input, the walk re-parses it): positions obtained
// inside a rematch refer to the same bytes of the outer input
struct rewalk : pegtl::rematch< pegtl::until< pegtl::eof >, walk > {};

// positions behind until< R > in its one-argument form, which skips the bytes itself (line breaks included)
struct uwalk : pegtl::seq< mark, pegtl::star< pegtl::seq< pegtl::until< pegtl::one< 'a' > >, mark > > > {};

template< typename Rule >
struct walk_action : pegtl::nothing< Rule > {};

template<>
struct walk_action< mark >
{
   template< typename ActionInput, typename In >
   static void apply( const ActionInput& ai, WalkState< In >& s )
   {
      record( *s.out, *s.in, *s.cfg, s.mode, s.n, off_of( ai.begin(), s.cfg->data ), ai.position() );
      ++s.n;
   }
};

template< pegtl::tracking_mode TM, typename Eol >
static std::string run_case( const Cfg& c )
{
   std::string out;
   for( std::size_t k = 0; k <= c.size; ++k ) {
      auto in = make< TM, Eol >( c );
      if( k % 2 == 0 ) {
         in->bump( k );
      }
      else {
         for( std::size_t j = 0; j < k; ++j ) {
            in->bump();
         }
      }
      record( out, *in, c, 'B', k, off_of( in->current(), c.data ), in->position() );
   }
   run_ys< TM, Eol >( out, c, std::make_index_sequence< YMAX + 1 >() );
   {
      auto in = make< TM, Eol >( c );
      WalkState< typename Input< TM, Eol >::type > s{ in.get(), &c, &out };
      const bool ok = pegtl::parse< walk, walk_action >( *in, s );
      if( !ok ) {
         out += " T-FAILED";
      }
   }
   {
      auto in = make< TM, Eol >( c );
      WalkState< typename Input< TM, Eol >::type > s{ in.get(), &c, &out };
      s.mode = 'R';
      const bool ok = pegtl::parse< rewalk, walk_action >( *in, s );
      if( !ok ) {
         out += " R-FAILED";
      }
   }
   {
      auto in = make< TM, Eol >( c );
      WalkState< typename Input< TM, Eol >::type > s{ in.get(), &c, &out };
      s.mode = 'U';
      const bool ok = pegtl::parse< uwalk, walk_action >( *in, s );
      if( !ok ) {
         out += " U-FAILED";
      }
   }
   return out;
}

template< typename Eol >
static std::string run_tm( const bool lazy, const Cfg& c )
{
   return lazy ? run_case< pegtl::tracking_mode::lazy, Eol >( c ) : run_case< pegtl::tracking_mode::eager, Eol >( c );
}

static int hexval( const char ch )
{
   if( ch >= '0' && ch <= '9' ) return ch - '0';
   if( ch >= 'a' && ch <= 'f' ) return ch - 'a' + 10;
   if( ch >= 'A' && ch <= 'F' ) return ch - 'A' + 10;
   return 0;
}

int main()
{
   std::ios::sync_with_stdio( false );
   std::string line;
   while( std::getline( std::cin, line ) ) {
      if( line.empty() ) {
         continue;
      }
      std::istringstream is( line );
      std::string eol, hex;
      int lazy = 0;
      std::size_t ib = 0, il = 1, ic = 1;
      if( !( is >> eol >> lazy >> ib >> il >> ic >> hex ) ) {
         std::cout << "BAD " << line << '\n';
         continue;
      }
      const std::size_t size = ( hex == "-" ) ? 0 : hex.size() / 2;
      std::unique_ptr< char[] > buf( new char[ size ] );  // exact size, no terminator
      for( std::size_t i = 0; i < size; ++i ) {
         buf[ i ] = static_cast< char >( hexval( hex[ 2 * i ] ) * 16 + hexval( hex[ 2 * i + 1 ] ) );
      }
      const Cfg c{ buf.get(), size, ib, il, ic, lazy >= 2 };   // lazy: bit 0 = tracking mode, bit 1 = through a parse-tree node
      std::string out;
      if( eol == "lf" ) out = run_tm< pegtl::eol::lf >( ( lazy & 1 ) != 0, c );
      else if( eol == "cr" ) out = run_tm< pegtl::eol::cr >( ( lazy & 1 ) != 0, c );
      else if( eol == "crlf" ) out = run_tm< pegtl::eol::crlf >( ( lazy & 1 ) != 0, c );
      else if( eol == "lf_crlf" ) out = run_tm< pegtl::eol::lf_crlf >( ( lazy & 1 ) != 0, c );
      else if( eol == "cr_crlf" ) out = run_tm< pegtl::eol::cr_crlf >( ( lazy & 1 ) != 0, c );
      else out = "BAD " + line;
      std::cout << out << '\n';
   }
   return 0;
}
