// leaf_c03.cpp — shipped grammars on exact-size heap buffers (no terminator) under ASan/UBSan with
// the TAO_PEGTL_VERIF hook: stdin lines "<grammar> <eager|lazy> <hex|->", one result line per case:
// "<result> <consumed> <size> <oob>" with result ok | fail | error (parse_error) | other:<what>.
#include <cstdio>
#include <cstring>
#include <iostream>
#include <sstream>
#include <string>

#include <tao/pegtl.hpp>
#include <tao/pegtl/contrib/abnf.hpp>
#include <tao/pegtl/contrib/http.hpp>
#include <tao/pegtl/contrib/integer.hpp>
#include <tao/pegtl/contrib/iri.hpp>
#include <tao/pegtl/contrib/json.hpp>
#include <tao/pegtl/contrib/json_pointer.hpp>
#include <tao/pegtl/contrib/raw_string.hpp>
#include <tao/pegtl/contrib/rep_one_min_max.hpp>
#include <tao/pegtl/contrib/uint16.hpp>
#include <tao/pegtl/contrib/uint32.hpp>
#include <tao/pegtl/contrib/uint64.hpp>
#include <tao/pegtl/contrib/uint8.hpp>
#include <tao/pegtl/contrib/uri.hpp>
#include <tao/pegtl/contrib/utf16.hpp>
#include <tao/pegtl/contrib/utf32.hpp>

#include "lua53.hpp"
#include "proto3.hpp"

namespace p = tao::pegtl;

namespace g
{
   struct json : p::seq< p::json::text, p::eof > {};
   struct uri : p::seq< p::uri::URI, p::eof > {};
   struct uri_ref : p::seq< p::uri::URI_reference, p::eof > {};
   struct iri : p::seq< p::iri::IRI, p::eof > {};
   struct http_req : p::seq< p::http::HTTP_message, p::eof > {};
   struct http_chunked : p::seq< p::http::chunked_body, p::eof > {};
   struct json_pointer : p::seq< p::json_pointer::json_pointer, p::eof > {};
   struct ints : p::list< p::sor< p::signed_rule, p::seq< p::one< 'u' >, p::unsigned_rule >, p::seq< p::one< 'm' >, p::maximum_rule< std::uint16_t > > >, p::one< ',' > > {};
   struct raw : p::star< p::sor< p::raw_string< '[', '=', ']' >, p::any > > {};
   struct utf8s : p::star< p::sor< p::utf8::range< 0x80, 0x10FFFF >, p::utf8::one< 0x41, 0x20AC >, p::utf8::not_one< 0x0A >, p::uint8::any > > {};
   struct utf16s : p::star< p::sor< p::utf16_be::range< 0x100, 0x10FFFF >, p::utf16_le::any, p::uint16_be::mask_one< 0xff, 0x41 >, p::any > > {};
   struct utf32s : p::star< p::sor< p::utf32_le::any, p::utf32_be::range< 0, 0x10FFFF >, p::uint32_le::any, p::uint64_be::any, p::any > > {};
   struct rom : p::star< p::sor< p::rep_one_min_max< 2, 3, 'a' >, p::istring< 'a', 'b', 'c' >, p::string< 'x', 'y', 'z' >, p::ranges< 'a', 'c', 'x' >, p::eol, p::bytes< 3 >, p::any > > {};
   struct ident : p::star< p::sor< p::keyword< 'i', 'f' >, p::identifier, p::shebang, p::two< '-' >, p::three< '=' >, p::any > > {};
}  // namespace g

// A property monitor used as the control of every run: C02 — an invocation that fails locally under rewind_mode::required
// must leave the cursor where it was entered (checked for every rule of the shipped grammars, hand-written match() functions
// included).
namespace mon
{
   inline long g_rewind_bad = 0;
   inline std::string g_first;

   template< typename Rule >
   struct control
      : p::normal< Rule >
   {
      template< p::apply_mode A,
                p::rewind_mode M,
                template< typename... >
                class Action,
                template< typename... >
                class Control,
                typename ParseInput,
                typename... States >
      [[nodiscard]] static bool match( ParseInput& in, States&&... st )
      {
         const char* const b = in.current();
         const bool r = p::normal< Rule >::template match< A, M, Action, Control >( in, st... );
         // local failure under `required`: cursor exactly where it was; success: never backwards
         if( ( !r && ( M == p::rewind_mode::required ) && ( in.current() != b ) ) || ( r && ( in.current() < b ) ) ) {
            if( g_rewind_bad++ == 0 ) {
               g_first = std::string( p::demangle< Rule >() );
            }
         }
         return r;
      }
   };

}  // namespace mon

template< typename Rule, p::tracking_mode T, typename Eol >
void run_one( const std::string& bytes )
{
   const std::size_t n = bytes.size();
   char* buf = new char[ n ];
   if( n != 0 ) {
      std::memcpy( buf, bytes.data(), n );
   }
   vh::g_oob = 0;
   mon::g_rewind_bad = 0;
   mon::g_first.clear();
   const char* res = "fail";
   std::string what;
   std::size_t consumed = 0;
   {
      p::memory_input< T, Eol, std::string > in( buf, buf + n, "c03" );
      try {
         res = p::parse< Rule, p::nothing, mon::control >( in ) ? "ok" : "fail";
      }
      catch( const p::parse_error& ) {
         res = "error";
      }
      catch( const std::exception& e ) {
         res = "other";
         what = e.what();
      }
      consumed = std::size_t( in.current() - in.begin() );
   }
   if( mon::g_rewind_bad != 0 ) {
      std::printf( "REWIND %ld %s\n", mon::g_rewind_bad, mon::g_first.c_str() );
   }
   std::printf( "%s%s%s %zu %zu %ld\n", res, what.empty() ? "" : ":", what.c_str(), consumed, n, vh::g_oob );
   std::fflush( stdout );
   delete[] buf;
}

template< typename Rule >
void run_rule( const std::string& mode, const std::string& bytes )
{
   if( mode == "lazy" ) {
      run_one< Rule, p::tracking_mode::lazy, p::eol::lf_crlf >( bytes );
   }
   else if( mode == "crlf" ) {
      run_one< Rule, p::tracking_mode::eager, p::eol::crlf >( bytes );
   }
   else {
      run_one< Rule, p::tracking_mode::eager, p::eol::lf_crlf >( bytes );
   }
}

static int hv( char c )
{
   return ( c >= '0' && c <= '9' ) ? c - '0' : ( c >= 'a' && c <= 'f' ) ? c - 'a' + 10 : 0;
}

int main()
{
   std::string line;
   while( std::getline( std::cin, line ) ) {
      std::istringstream is( line );
      std::string gname, mode, hex;
      if( !( is >> gname >> mode >> hex ) ) {
         continue;
      }
      std::string bytes;
      if( hex != "-" ) {
         for( std::size_t i = 0; i + 1 < hex.size(); i += 2 ) {
            bytes.push_back( char( hv( hex[ i ] ) * 16 + hv( hex[ i + 1 ] ) ) );
         }
      }
      std::printf( "CASE %s %s %s\n", gname.c_str(), mode.c_str(), hex.c_str() );
      std::fflush( stdout );
      if( gname == "json" ) run_rule< g::json >( mode, bytes );
      else if( gname == "uri" ) run_rule< g::uri >( mode, bytes );
      else if( gname == "uri_ref" ) run_rule< g::uri_ref >( mode, bytes );
      else if( gname == "iri" ) run_rule< g::iri >( mode, bytes );
      else if( gname == "http_req" ) run_rule< g::http_req >( mode, bytes );
      else if( gname == "http_chunked" ) run_rule< g::http_chunked >( mode, bytes );
      else if( gname == "json_pointer" ) run_rule< g::json_pointer >( mode, bytes );
      else if( gname == "ints" ) run_rule< g::ints >( mode, bytes );
      else if( gname == "raw" ) run_rule< g::raw >( mode, bytes );
      else if( gname == "utf8s" ) run_rule< g::utf8s >( mode, bytes );
      else if( gname == "utf16s" ) run_rule< g::utf16s >( mode, bytes );
      else if( gname == "utf32s" ) run_rule< g::utf32s >( mode, bytes );
      else if( gname == "rom" ) run_rule< g::rom >( mode, bytes );
      else if( gname == "ident" ) run_rule< g::ident >( mode, bytes );
      else if( gname == "abnf" ) run_rule< p::seq< p::star< p::sor< p::abnf::CRLF, p::abnf::HEXDIG, p::abnf::WSP, p::abnf::VCHAR, p::abnf::CTL, p::abnf::OCTET > >, p::eof > >( mode, bytes );
      else if( gname == "lua53" ) run_rule< lua53::grammar >( mode, bytes );
      else if( gname == "proto3" ) run_rule< ::proto3::proto >( mode, bytes );
      else std::printf( "BAD grammar %s\n", gname.c_str() );
   }
   return 0;
}
