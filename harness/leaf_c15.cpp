// leaf_c15.cpp — observation driver for property C15 over the real functions, rules and actions of
// <tao/pegtl/contrib/integer.hpp> (compiled on every check run against /repo/include, ASan+UBSan).
//
// Compile with -DC15_WIDTH=8|16|32|64: one executable per integer width W (U = uintW_t, S = intW_t).
//
//   leaf_c15 --list           prints   group <name> <W> <op> <op> ...      for the groups uW, mW, sW
//   stdin:  <group> <hex>     one case per line; the bytes are copied into an exact-size heap buffer
//   stdout: <group> <hex> <op>=<result> ... ub=<n>
//
// Results.  conversions:  ok:<value> | ovf | na (documented precondition not met: not called)
//           rules:        ok:<bytes consumed>:<stored value or -> | fail:<bytes consumed>
//                         | thr:<input byte after the throw>:<byte reported by the parse_error>:<io|uo|so|??>
// ub=<n> is the number of UBSan reports raised while the case ran (-fsanitize-recover=undefined
// with the __ubsan_on_report hook); an ASan error aborts the process (the runner sees where).
//
// Ops (M = Maximum template argument):
//   cu:M  internal::convert_unsigned< U, M >      cp  internal::convert_positive< S >
//   cn    internal::convert_negative< S >         cs  internal::convert_signed< S >
//   ur    unsigned_rule                           urn unsigned_rule_new (generic machinery)
//   ua    unsigned_rule + unsigned_action, U st   uw  unsigned_rule_with_action, apply_mode::action, U st
//   uwn   unsigned_rule_with_action, apply_mode::nothing
//   mr:M  maximum_rule< U, M >                    ma:M maximum_rule< U, M > + maximum_action< U, M >
//   um:M  unsigned_rule + maximum_action< U, M > (the action meets values above M)
//   mw:M  maximum_rule_with_action< U, M >, action mode   mwn:M  same, apply_mode::nothing
//   sr    signed_rule                             srn signed_rule_new
//   sa    signed_rule + signed_action, S st       sw  signed_rule_with_action, action mode, S st
//   swn   signed_rule_with_action, apply_mode::nothing

#include <cstdint>
#include <cstdio>
#include <cstdlib>
#include <cstring>
#include <functional>
#include <iostream>
#include <string>
#include <tuple>
#include <type_traits>
#include <vector>

#include <tao/pegtl.hpp>
#include <tao/pegtl/contrib/integer.hpp>

#ifndef C15_WIDTH
#define C15_WIDTH 8
#endif

namespace pegtl = tao::pegtl;

static long g_ub = 0;
extern "C" void __ubsan_on_report( void )
{
   ++g_ub;
}

#define MAXES_8( X ) X( 0 ) X( 1 ) X( 2 ) X( 9 ) X( 10 ) X( 11 ) X( 19 ) X( 20 ) X( 25 ) X( 26 ) X( 99 ) X( 100 ) X( 101 ) X( 127 ) X( 128 ) X( 199 ) X( 200 ) X( 249 ) X( 250 ) X( 254 ) X( 255 )
#define MAXES_16( X ) MAXES_8( X ) X( 256 ) X( 999 ) X( 1000 ) X( 1001 ) X( 6553 ) X( 6554 ) X( 9999 ) X( 10000 ) X( 10001 ) X( 32767 ) X( 32768 ) X( 65529 ) X( 65530 ) X( 65534 ) X( 65535 )
#define MAXES_32( X ) MAXES_16( X ) X( 65536 ) X( 99999 ) X( 100000 ) X( 100001 ) X( 429496729 ) X( 429496730 ) X( 999999999 ) X( 1000000000 ) X( 1000000001 ) X( 2147483647 ) X( 2147483648 ) X( 4294967289 ) X( 4294967290 ) X( 4294967294 ) X( 4294967295 )
#define MAXES_64( X ) MAXES_32( X ) X( 4294967296 ) X( 9999999999 ) X( 10000000000 ) X( 1844674407370955160 ) X( 1844674407370955161 ) X( 1844674407370955162 ) X( 9223372036854775807 ) X( 9223372036854775808 ) X( 9999999999999999999 ) X( 10000000000000000000 ) X( 10000000000000000001 ) X( 18446744073709551609 ) X( 18446744073709551610 ) X( 18446744073709551614 ) X( 18446744073709551615 )

#if C15_WIDTH == 8
using U = std::uint8_t;
using S = std::int8_t;
#define MAXES( X ) MAXES_8( X )
#elif C15_WIDTH == 16
using U = std::uint16_t;
using S = std::int16_t;
#define MAXES( X ) MAXES_16( X )
#elif C15_WIDTH == 32
using U = std::uint32_t;
using S = std::int32_t;
#define MAXES( X ) MAXES_32( X )
#else
using U = std::uint64_t;
using S = std::int64_t;
#define MAXES( X ) MAXES_64( X )
#endif

constexpr U UMAX = ( std::numeric_limits< U >::max )();

template< typename T >
std::string num( const T v )
{
   if constexpr( std::is_signed_v< T > ) {
      return std::to_string( static_cast< long long >( v ) );
   }
   else {
      return std::to_string( static_cast< unsigned long long >( v ) );
   }
}

static bool all_digits( const char* b, const std::size_t n )
{
   for( std::size_t i = 0; i < n; ++i ) {
      if( b[ i ] < '0' || b[ i ] > '9' ) {
         return false;
      }
   }
   return true;
}

static const char* msg_code( const std::string_view m )
{
   if( m == "integer overflow" ) {
      return "io";
   }
   if( m == "unsigned integer overflow" ) {
      return "uo";
   }
   if( m == "signed integer overflow" ) {
      return "so";
   }
   return "??";
}

// actions attached to the plain rules
template< typename Rule >
struct act_u
   : pegtl::nothing< Rule >
{};
template<>
struct act_u< pegtl::unsigned_rule >
   : pegtl::unsigned_action
{};

template< typename Rule >
struct act_s
   : pegtl::nothing< Rule >
{};
template<>
struct act_s< pegtl::signed_rule >
   : pegtl::signed_action
{};

template< U M >
struct act_m
{
   template< typename Rule >
   struct type
      : std::conditional_t< std::is_same_v< Rule, pegtl::maximum_rule< U, M > >, pegtl::maximum_action< U, M >, pegtl::nothing< Rule > >
   {};
};

// maximum_action attached to a rule that accepts more than the maximum: the action itself has to report the overflow
template< U M >
struct act_um
{
   template< typename Rule >
   struct type
      : std::conditional_t< std::is_same_v< Rule, pegtl::unsigned_rule >, pegtl::maximum_action< U, M >, pegtl::nothing< Rule > >
   {};
};

// a reader handing out one byte per call: over a buffer_input a rule has to ask for every byte it reads
struct mem_reader
{
   const char* p;
   std::size_t left;

   std::size_t operator()( char* buffer, const std::size_t length )
   {
      if( ( length == 0 ) || ( left == 0 ) ) {
         return 0;
      }
      *buffer = *p++;
      --left;
      return 1;
   }
};

template< typename Rule, template< typename... > class Action, pegtl::apply_mode A, bool Stored, typename In, typename... St >
std::string run_rule_on( In& in, St&... st );

// run one rule through parse<>; `st` (if any) receives the converted value.  The same call over a buffer input (fed one byte at a time,
// capacity: the whole text) must give the same answer: otherwise `|buffered:<answer>` is appended.
template< typename Rule, template< typename... > class Action, pegtl::apply_mode A, bool Stored, typename... St >
std::string run_rule( const char* b, const std::size_t n, St&... st )
{
   std::string twin;
   {
      std::tuple< St... > copy( st... );
      pegtl::buffer_input< mem_reader, pegtl::eol::lf_crlf, std::string, 1 > bin( "c15", n + 16, mem_reader{ b, n } );
      twin = std::apply( [ & ]( auto&... c ) { return run_rule_on< Rule, Action, A, Stored >( bin, c... ); }, copy );
   }
   pegtl::memory_input< pegtl::tracking_mode::eager, pegtl::eol::lf_crlf, const char* > in( b, b + n, "c15" );
   const std::string r = run_rule_on< Rule, Action, A, Stored >( in, st... );
   return ( r == twin ) ? r : ( r + "|buffered:" + twin );
}

template< typename Rule, template< typename... > class Action, pegtl::apply_mode A, bool Stored, typename In, typename... St >
std::string run_rule_on( In& in, St&... st )
{
   try {
      const bool ok = pegtl::parse< Rule, Action, pegtl::normal, A, pegtl::rewind_mode::required >( in, st... );
      if( ok ) {
         std::string r = "ok:" + std::to_string( in.byte() ) + ":";
         if constexpr( Stored ) {
            r += ( num( st ) + ... );
         }
         else {
            r += "-";
         }
         return r;
      }
      return "fail:" + std::to_string( in.byte() );
   }
   catch( const pegtl::parse_error& e ) {
      return "thr:" + std::to_string( in.byte() ) + ":" + std::to_string( e.position_object().byte ) + ":" + msg_code( e.message() );
   }
   catch( ... ) {
      return "exc";
   }
}

struct Op
{
   std::string name;
   std::function< std::string( const char*, std::size_t ) > fn;
};

static std::vector< Op > ops_u()
{
   std::vector< Op > v;
   v.push_back( { "cu:" + num( UMAX ), []( const char* b, std::size_t n ) -> std::string {
                    if( n == 0 || !all_digits( b, n ) ) {
                       return "na";
                    }
                    U r = 0;
                    return pegtl::internal::convert_unsigned< U >( r, std::string_view( b, n ) ) ? "ok:" + num( r ) : std::string( "ovf" );
                 } } );
   v.push_back( { "ur", []( const char* b, std::size_t n ) { return run_rule< pegtl::unsigned_rule, pegtl::nothing, pegtl::apply_mode::action, false >( b, n ); } } );
   v.push_back( { "urn", []( const char* b, std::size_t n ) { return run_rule< pegtl::unsigned_rule_new, pegtl::nothing, pegtl::apply_mode::action, false >( b, n ); } } );
   v.push_back( { "ua", []( const char* b, std::size_t n ) { U st = 77; return run_rule< pegtl::unsigned_rule, act_u, pegtl::apply_mode::action, true >( b, n, st ); } } );
   v.push_back( { "uw", []( const char* b, std::size_t n ) { U st = 77; return run_rule< pegtl::unsigned_rule_with_action, pegtl::nothing, pegtl::apply_mode::action, true >( b, n, st ); } } );
   v.push_back( { "uwn", []( const char* b, std::size_t n ) { U st = 77; return run_rule< pegtl::unsigned_rule_with_action, pegtl::nothing, pegtl::apply_mode::nothing, false >( b, n, st ); } } );
   return v;
}

template< U M >
static void add_max_ops( std::vector< Op >& v, const std::string& m )
{
   v.push_back( { "cu:" + m, []( const char* b, std::size_t n ) -> std::string {
                    if( n == 0 || !all_digits( b, n ) ) {
                       return "na";
                    }
                    U r = 0;
                    return pegtl::internal::convert_unsigned< U, M >( r, std::string_view( b, n ) ) ? "ok:" + num( r ) : std::string( "ovf" );
                 } } );
   v.push_back( { "mr:" + m, []( const char* b, std::size_t n ) { return run_rule< pegtl::maximum_rule< U, M >, pegtl::nothing, pegtl::apply_mode::action, false >( b, n ); } } );
   v.push_back( { "ma:" + m, []( const char* b, std::size_t n ) { U st = 77; return run_rule< pegtl::maximum_rule< U, M >, act_m< M >::template type, pegtl::apply_mode::action, true >( b, n, st ); } } );
   v.push_back( { "um:" + m, []( const char* b, std::size_t n ) { U st = 77; return run_rule< pegtl::unsigned_rule, act_um< M >::template type, pegtl::apply_mode::action, true >( b, n, st ); } } );
   v.push_back( { "mw:" + m, []( const char* b, std::size_t n ) { U st = 77; return run_rule< pegtl::maximum_rule_with_action< U, M >, pegtl::nothing, pegtl::apply_mode::action, true >( b, n, st ); } } );
   v.push_back( { "mwn:" + m, []( const char* b, std::size_t n ) { U st = 77; return run_rule< pegtl::maximum_rule_with_action< U, M >, pegtl::nothing, pegtl::apply_mode::nothing, false >( b, n, st ); } } );
}

static std::vector< Op > ops_m()
{
   std::vector< Op > v;
#define X( M ) add_max_ops< U( M##ULL ) >( v, #M );
   MAXES( X )
#undef X
   return v;
}

static std::vector< Op > ops_s()
{
   std::vector< Op > v;
   v.push_back( { "cp", []( const char* b, std::size_t n ) -> std::string {
                    if( n == 0 || !all_digits( b, n ) ) {
                       return "na";
                    }
                    S r = 0;
                    return pegtl::internal::convert_positive< S >( r, std::string_view( b, n ) ) ? "ok:" + num( r ) : std::string( "ovf" );
                 } } );
   v.push_back( { "cn", []( const char* b, std::size_t n ) -> std::string {
                    if( n == 0 || !all_digits( b, n ) ) {
                       return "na";
                    }
                    S r = 0;
                    return pegtl::internal::convert_negative< S >( r, std::string_view( b, n ) ) ? "ok:" + num( r ) : std::string( "ovf" );
                 } } );
   v.push_back( { "cs", []( const char* b, std::size_t n ) -> std::string {
                    const std::size_t o = ( n > 0 && ( b[ 0 ] == '-' || b[ 0 ] == '+' ) ) ? 1 : 0;
                    if( n == o || !all_digits( b + o, n - o ) ) {
                       return "na";
                    }
                    S r = 0;
                    return pegtl::internal::convert_signed< S >( r, std::string_view( b, n ) ) ? "ok:" + num( r ) : std::string( "ovf" );
                 } } );
   v.push_back( { "sr", []( const char* b, std::size_t n ) { return run_rule< pegtl::signed_rule, pegtl::nothing, pegtl::apply_mode::action, false >( b, n ); } } );
   v.push_back( { "srn", []( const char* b, std::size_t n ) { return run_rule< pegtl::signed_rule_new, pegtl::nothing, pegtl::apply_mode::action, false >( b, n ); } } );
   v.push_back( { "sa", []( const char* b, std::size_t n ) { S st = 77; return run_rule< pegtl::signed_rule, act_s, pegtl::apply_mode::action, true >( b, n, st ); } } );
   v.push_back( { "sw", []( const char* b, std::size_t n ) { S st = 77; return run_rule< pegtl::signed_rule_with_action, pegtl::nothing, pegtl::apply_mode::action, true >( b, n, st ); } } );
   v.push_back( { "swn", []( const char* b, std::size_t n ) { S st = 77; return run_rule< pegtl::signed_rule_with_action, pegtl::nothing, pegtl::apply_mode::nothing, false >( b, n, st ); } } );
   return v;
}

static int hexv( const char c )
{
   if( c >= '0' && c <= '9' ) {
      return c - '0';
   }
   if( c >= 'a' && c <= 'f' ) {
      return c - 'a' + 10;
   }
   return -1;
}

int main( int argc, char** argv )
{
   const std::string w = std::to_string( C15_WIDTH );
   struct Group
   {
      std::string name;
      std::vector< Op > ops;
   };
   std::vector< Group > groups;
   groups.push_back( { "u" + w, ops_u() } );
   groups.push_back( { "m" + w, ops_m() } );
   groups.push_back( { "s" + w, ops_s() } );

   if( argc > 1 && std::strcmp( argv[ 1 ], "--list" ) == 0 ) {
      for( const auto& g : groups ) {
         std::string l = "group " + g.name + " " + w;
         for( const auto& o : g.ops ) {
            l += " " + o.name;
         }
         std::puts( l.c_str() );
      }
      return 0;
   }

   std::string line;
   std::string out;
   while( std::getline( std::cin, line ) ) {
      const auto sp = line.find( ' ' );
      const std::string gname = line.substr( 0, sp );
      const std::string hex = ( sp == std::string::npos ) ? std::string() : line.substr( sp + 1 );
      const Group* g = nullptr;
      for( const auto& x : groups ) {
         if( x.name == gname ) {
            g = &x;
         }
      }
      if( g == nullptr || ( hex != "-" && hex.size() % 2 != 0 ) ) {
         std::printf( "BAD %s\n", line.c_str() );
         continue;
      }
      const std::size_t n = ( hex == "-" ) ? 0 : hex.size() / 2;
      char* buf = static_cast< char* >( std::malloc( n ) );  // exact size, no terminator
      for( std::size_t i = 0; i < n; ++i ) {
         buf[ i ] = static_cast< char >( hexv( hex[ 2 * i ] ) * 16 + hexv( hex[ 2 * i + 1 ] ) );
      }
      const long ub0 = g_ub;
      out.clear();
      out += gname;
      out += ' ';
      out += hex;
      for( const auto& o : g->ops ) {
         out += ' ';
         out += o.name;
         out += '=';
         out += o.fn( buf, n );
      }
      out += " ub=" + std::to_string( g_ub - ub0 );
      std::free( buf );
      std::puts( out.c_str() );
      std::fflush( stdout );
   }
   return 0;
}
