// leaf_c07.cpp — the real tao::pegtl::buffer_input< Reader, Eol, Source, Chunk > driven op by op
// with a scripted reader; same line protocol as lean/DrvC07.lean (see there).
//
//   <Chunk> <maximum> <eol> <stream hex | -> <schedule | -> <op> <op> ...
//   -> init=<capacity>/<state> <op>=<obs>/<state> ...
//   state = cur:occupied:free_after_end:byte:line:column:fed:<hex of [current, end)>
//   M<atom> calls Rule::match( in ) of a real PEGTL atom (names: see match_atom).
//
// The stream lives in an exact-size heap buffer; the input allocates its own exact-size buffer
// (new char[ maximum + Chunk ]), so ASan sees any read or write outside either.
// std::overflow_error is an outcome ("ovf"), not a crash.

#include <algorithm>
#include <cstdio>
#include <cstring>
#include <iostream>
#include <sstream>
#include <stdexcept>
#include <string>
#include <vector>

#include <tao/pegtl.hpp>
#include <tao/pegtl/buffer_input.hpp>
#include <tao/pegtl/contrib/rep_one_min_max.hpp>
#include <tao/pegtl/utf8.hpp>

namespace pegtl = tao::pegtl;

struct reader_state
{
   const char* data = nullptr;
   std::size_t n = 0;
   std::size_t fed = 0;
   std::vector< std::size_t > sched;
   std::size_t idx = 0;
};

// Returns min( length, max( scheduled, 1 ), remaining ); the full request once the schedule is used up.
struct script_reader
{
   explicit script_reader( reader_state* s ) noexcept
      : st( s )
   {}

   std::size_t operator()( char* buffer, const std::size_t length )
   {
      std::size_t want = length;
      if( st->idx < st->sched.size() ) {
         want = ( std::max )( st->sched[ st->idx ], std::size_t( 1 ) );
      }
      ++st->idx;
      const std::size_t r = ( std::min )( ( std::min )( length, want ), st->n - st->fed );
      if( r != 0 ) {
         std::memcpy( buffer, st->data + st->fed, r );
      }
      st->fed += r;
      return r;
   }

   reader_state* st;
};

static int hv( char c )
{
   return ( c >= '0' && c <= '9' ) ? c - '0' : ( c >= 'a' && c <= 'f' ) ? c - 'a' + 10 : ( c >= 'A' && c <= 'F' ) ? c - 'A' + 10 : 0;
}

template< typename In >
static void state( std::string& out, In& in, const reader_state& rs )
{
   char b[ 160 ];
   const std::size_t occ = in.buffer_occupied();
   std::snprintf( b, sizeof b, "%zu:%zu:%zu:%zu:%zu:%zu:%zu:", in.buffer_free_before_current(), occ, in.buffer_free_after_end(), in.byte(), in.line(), in.column(), rs.fed );
   out += b;
   if( occ == 0 ) {
      out += '-';
   }
   const char* p = in.current();
   for( std::size_t i = 0; i < occ; ++i ) {
      std::snprintf( b, sizeof b, "%02x", static_cast< unsigned >( static_cast< unsigned char >( p[ i ] ) ) );
      out += b;
   }
}

// Rule::match( in ) of the atoms named in the protocol; -1 = unknown name.
template< typename In >
static int match_atom( const std::string& name, In& in )
{
   if( name == "any" ) return pegtl::any::match( in );
   if( name == "one" ) return pegtl::one< 'a' >::match( in );
   if( name == "not" ) return pegtl::not_one< 'a' >::match( in );
   if( name == "rng" ) return pegtl::range< 'a', 'c' >::match( in );
   if( name == "rgs" ) return pegtl::ranges< 'a', 'b', 'x', 'z', '\n' >::match( in );
   if( name == "str" ) return pegtl::string< 'a', 'b', 'c' >::match( in );
   if( name == "stn" ) return pegtl::string< 'a', '\n' >::match( in );
   if( name == "ist" ) return pegtl::istring< 'a', 'B' >::match( in );
   if( name == "by3" ) return pegtl::bytes< 3 >::match( in );
   if( name == "eof" ) return pegtl::eof::match( in );
   if( name == "bof" ) return pegtl::bof::match( in );
   if( name == "bol" ) return pegtl::bol::match( in );
   if( name == "eol" ) return pegtl::eol::match( in );
   if( name == "eolf" ) return pegtl::eolf::match( in );
   if( name == "evr" ) return pegtl::everything::match( in );
   if( name == "rq2" ) return pegtl::require< 2 >::match( in );
   if( name == "suc" ) return pegtl::success::match( in );
   if( name == "fai" ) return pegtl::failure::match( in );
   if( name == "r13" ) return pegtl::rep_one_min_max< 1, 3, 'a' >::match( in );
   if( name == "r02" ) return pegtl::rep_one_min_max< 0, 2, 'a' >::match( in );
   if( name == "rn2" ) return pegtl::rep_one_min_max< 1, 2, '\n' >::match( in );
   if( name == "u8r" ) return pegtl::utf8::range< 0x80, 0x7FF >::match( in );
   if( name == "u8n" ) return pegtl::utf8::not_range< 0x61, 0xFFFF >::match( in );
   if( name == "u8w" ) return pegtl::utf8::range< 0, 0x10FFFF >::match( in );
   return -1;
}

template< typename Eol, std::size_t Chunk >
static void run_case( std::size_t maximum, const std::string& stream, const std::vector< std::size_t >& sched, const std::vector< std::string >& ops )
{
   using input_t = pegtl::buffer_input< script_reader, Eol, std::string, Chunk >;
   using iter_t = std::decay_t< decltype( std::declval< input_t >().rewind_save() ) >;

   const std::size_t n = stream.size();
   char* heap = new char[ n ];
   if( n != 0 ) {
      std::memcpy( heap, stream.data(), n );
   }
   reader_state rs;
   rs.data = heap;
   rs.n = n;
   rs.sched = sched;
   std::string out;
   {
      input_t in( "src", maximum, &rs );
      struct slot
      {
         bool used = false;
         std::size_t epoch = 0;
         iter_t it;
      };
      slot slots[ 4 ];
      std::size_t epoch = 0;  // number of discards that moved the window (they invalidate saved inputerators)

      out += "init=" + std::to_string( in.buffer_capacity() ) + "/";
      state( out, in, rs );
      for( const auto& tok : ops ) {
         const char k = tok[ 0 ];
         const std::size_t v = tok.size() > 1 ? std::strtoull( tok.c_str() + 1, nullptr, 10 ) : 0;
         std::string obs;
         try {
            switch( k ) {
               case 'R':
                  in.require( v );
                  obs = "ok";
                  break;
               case 'S':
                  obs = std::to_string( in.size( v ) );
                  break;
               case 'E':
                  obs = in.empty() ? "1" : "0";
                  break;
               case 'N': {
                  const char* e = in.end( v );
                  obs = std::to_string( static_cast< std::size_t >( e - in.current() ) );
                  break;
               }
               case 'B':
                  if( v <= in.buffer_occupied() ) {
                     in.bump( v );
                     obs = "ok";
                  }
                  else {
                     obs = "ill";
                  }
                  break;
               case 'L':
                  if( v <= in.buffer_occupied() ) {
                     in.bump_in_this_line( v );
                     obs = "ok";
                  }
                  else {
                     obs = "ill";
                  }
                  break;
               case 'T':
                  if( v <= in.buffer_occupied() ) {
                     in.bump_to_next_line( v );
                     obs = "ok";
                  }
                  else {
                     obs = "ill";
                  }
                  break;
               case 'P':
                  if( v < in.buffer_occupied() ) {
                     obs = std::to_string( static_cast< unsigned >( in.peek_uint8( v ) ) );
                  }
                  else {
                     obs = "ill";
                  }
                  break;
               case 'D': {
                  const std::size_t before = in.buffer_free_before_current();
                  in.discard();
                  if( in.buffer_free_before_current() != before ) {
                     ++epoch;
                  }
                  obs = "ok";
                  break;
               }
               case 'M': {
                  const int r = match_atom( tok.substr( 1 ), in );
                  obs = ( r < 0 ) ? "bad" : ( r ? "1" : "0" );
                  break;
               }
               case 'W':
                  if( v < 4 ) {
                     slots[ v ].used = true;
                     slots[ v ].epoch = epoch;
                     slots[ v ].it = in.rewind_save();
                  }
                  obs = "ok";
                  break;
               case 'U':
                  if( v < 4 && slots[ v ].used && slots[ v ].epoch == epoch ) {
                     in.rewind_restore( slots[ v ].it );
                     obs = "ok";
                  }
                  else {
                     obs = "ill";
                  }
                  break;
               default:
                  obs = "bad";
            }
         }
         catch( const std::overflow_error& ) {
            obs = "ovf";
         }
         catch( const std::exception& e ) {
            obs = std::string( "exc-" ) + e.what();
         }
         out += ' ';
         out += tok;
         out += '=';
         out += obs;
         out += '/';
         state( out, in, rs );
      }
   }
   out += '\n';
   std::fwrite( out.data(), 1, out.size(), stdout );
   delete[] heap;
}

template< typename Eol >
static bool dispatch( std::size_t chunk, std::size_t maximum, const std::string& stream, const std::vector< std::size_t >& sched, const std::vector< std::string >& ops )
{
   switch( chunk ) {
      case 1:
         run_case< Eol, 1 >( maximum, stream, sched, ops );
         return true;
      case 2:
         run_case< Eol, 2 >( maximum, stream, sched, ops );
         return true;
      case 3:
         run_case< Eol, 3 >( maximum, stream, sched, ops );
         return true;
      case 8:
         run_case< Eol, 8 >( maximum, stream, sched, ops );
         return true;
      case 64:
         run_case< Eol, 64 >( maximum, stream, sched, ops );
         return true;
      default:
         return false;
   }
}

int main()
{
   std::string line;
   while( std::getline( std::cin, line ) ) {
      std::istringstream is( line );
      std::size_t chunk = 0;
      std::size_t maximum = 0;
      std::string eol;
      std::string hex;
      std::string sc;
      if( !( is >> chunk >> maximum >> eol >> hex >> sc ) ) {
         continue;
      }
      std::string stream;
      if( hex != "-" ) {
         for( std::size_t i = 0; i + 1 < hex.size(); i += 2 ) {
            stream.push_back( char( hv( hex[ i ] ) * 16 + hv( hex[ i + 1 ] ) ) );
         }
      }
      std::vector< std::size_t > sched;
      if( sc != "-" ) {
         std::istringstream ss( sc );
         std::string item;
         while( std::getline( ss, item, ',' ) ) {
            sched.push_back( std::strtoull( item.c_str(), nullptr, 10 ) );
         }
      }
      std::vector< std::string > ops;
      std::string tok;
      while( is >> tok ) {
         ops.push_back( tok );
      }
      const bool ok = ( eol == "cr_crlf" ) ? dispatch< pegtl::eol::cr_crlf >( chunk, maximum, stream, sched, ops ) : dispatch< pegtl::eol::lf_crlf >( chunk, maximum, stream, sched, ops );
      if( !ok ) {
         std::printf( "BAD %s\n", line.c_str() );
      }
   }
   return 0;
}
