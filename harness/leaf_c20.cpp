// leaf_c20.cpp — observation driver for property C20 over the real URI grammar
// <tao/pegtl/contrib/uri.hpp> (compiled on every check run against /repo/include, ASan+UBSan).
//
//   stdin:  <X> <hex>     X in URI | URI_reference | absolute_URI | IPv4address | IPv6address ; `-` = empty input.
//                         The bytes are copied into an exact-size heap buffer (no terminator).
//   stdout: <X> <hex> r=<result> oob=<n>
//
// result:  1                          parse< seq< uri::X, eof > >( in ) returned true
//          0                          returned false
//          2 <byte> <rule>            tao::pegtl::parse_error; <byte> = reported position, <rule> = demangled name
//                                     of the rule in "parse error matching <rule>" (blanks removed)
//          3 <kind> <what>            any other exception (std::exception / unknown)
// oob=<n>: reads/advances outside [ current(), end() ) counted by the TAO_PEGTL_VERIF hook.

#include <cstdint>
#include <cstdio>
#include <cstdlib>
#include <cstring>
#include <iostream>
#include <memory>
#include <string>

#include <tao/pegtl.hpp>
#include <tao/pegtl/contrib/uri.hpp>

namespace pegtl = tao::pegtl;

static int hexval( char c )
{
   if( c >= '0' && c <= '9' ) return c - '0';
   if( c >= 'a' && c <= 'f' ) return c - 'a' + 10;
   if( c >= 'A' && c <= 'F' ) return c - 'A' + 10;
   return 0;
}

static std::string squeeze( const std::string& s )
{
   std::string o;
   for( char c : s ) {
      if( c != ' ' ) o += c;
   }
   return o;
}

template< typename Rule >
static std::string run_one( const char* b, std::size_t n )
{
   try {
      pegtl::memory_input< pegtl::tracking_mode::eager, pegtl::eol::lf_crlf, const char* > in( b, b + n, "c20" );
      const bool r = pegtl::parse< pegtl::seq< Rule, pegtl::eof > >( in );
      return r ? "1" : "0";
   }
   catch( const pegtl::parse_error& e ) {
      std::string msg( e.message() );
      const std::string pre = "parse error matching ";
      std::string rule = ( msg.compare( 0, pre.size(), pre ) == 0 ) ? msg.substr( pre.size() ) : ( "?" + msg );
      return "2 " + std::to_string( e.position_object().byte ) + " " + squeeze( rule );
   }
   catch( const std::exception& e ) {
      return std::string( "3 std " ) + squeeze( e.what() );
   }
   catch( ... ) {
      return "3 unknown -";
   }
}

int main()
{
   std::ios::sync_with_stdio( false );
   std::string x, hex;
   while( std::cin >> x >> hex ) {
      std::size_t n = ( hex == "-" ) ? 0 : hex.size() / 2;
      std::unique_ptr< char[] > buf( new char[ n ? n : 1 ] );   // exact size (1 for the empty input, never read)
      char* b = buf.get();
      for( std::size_t i = 0; i < n; ++i ) {
         b[ i ] = static_cast< char >( hexval( hex[ 2 * i ] ) * 16 + hexval( hex[ 2 * i + 1 ] ) );
      }
      const long oob0 = vh::g_oob;
      std::string r;
      if( x == "URI" ) r = run_one< pegtl::uri::URI >( b, n );
      else if( x == "URI_reference" ) r = run_one< pegtl::uri::URI_reference >( b, n );
      else if( x == "absolute_URI" ) r = run_one< pegtl::uri::absolute_URI >( b, n );
      else if( x == "IPv4address" ) r = run_one< pegtl::uri::IPv4address >( b, n );
      else if( x == "IPv6address" ) r = run_one< pegtl::uri::IPv6address >( b, n );
      else r = "bad-top";
      std::cout << x << ' ' << hex << " r=" << r << " oob=" << ( vh::g_oob - oob0 ) << '\n';
   }
   return 0;
}
