// leaf_c17.cpp — observation driver for property C17 over the real
// tao/pegtl/contrib/unescape.hpp (utf8_append_utf32, unhex_char, unhex_string, append_all,
// unescape_c, unescape_u, unescape_x, unescape_j), the real action tables of
// src/example/pegtl/json_unescape.hpp and the real grammar + actions of
// src/example/pegtl/unescape.cpp (included textually, its main() renamed).
// Same line protocol as /verif/lean/DrvC17.lean (see there).  Inputs live in exact-size heap
// buffers without terminator.  Compile with -I/repo/include -I/repo/src/example/pegtl.

#include <cstdint>
#include <cstdio>
#include <cstring>
#include <iostream>
#include <sstream>
#include <string>
#include <vector>

#include <tao/pegtl.hpp>
#include <tao/pegtl/contrib/json.hpp>
#include <tao/pegtl/contrib/unescape.hpp>

#include <json_unescape.hpp>

#define main c17_unescape_cpp_main
#include <unescape.cpp>  // namespace example: escaped_x/u/U/c, literal, padded, action<>
#undef main

namespace pegtl = TAO_PEGTL_NAMESPACE;

namespace c17
{
   using namespace pegtl;

   // --- unescape_j through the JSON rules: '\\' json::unicode eof, action table of json_unescape.hpp
   struct jrule : seq< one< '\\' >, json::unicode, eof > {};

   // --- unescape_u / unescape_x through the example's rules
   struct urule : seq< sor< example::escaped_u, example::escaped_U >, eof > {};
   struct xrule : seq< example::escaped_x, eof > {};

   // --- unescape_c through one<...>
   struct crule : seq< example::escaped_c, eof > {};
   struct cjrule : seq< json::escaped_char, eof > {};

   // --- unhex_char under xdigit
   struct hrule : seq< xdigit, eof > {};
   struct hstate
   {
      unsigned u = 0;
      char c = 0;
      unsigned long long ull = 0;
      unsigned char uc = 0;
      bool called = false;
   };
   template< typename Rule >
   struct haction : nothing< Rule > {};
   template<>
   struct haction< xdigit >
   {
      template< typename ActionInput >
      static void apply( const ActionInput& in, hstate& st )
      {
         st.u = unescape::unhex_char< unsigned >( *in.begin() );
         st.c = unescape::unhex_char< char >( *in.begin() );
         st.ull = unescape::unhex_char< unsigned long long >( *in.begin() );
         st.uc = unescape::unhex_char< unsigned char >( *in.begin() );
         st.called = true;
      }
   };

   struct heapbuf
   {
      char* p;
      std::size_t n;
      explicit heapbuf( const std::string& s )
         : p( new char[ s.size() ? s.size() : 1 ] ), n( s.size() )
      {
         if( n ) {
            std::memcpy( p, s.data(), n );
         }
      }
      heapbuf( const heapbuf& ) = delete;
      void operator=( const heapbuf& ) = delete;
      ~heapbuf() { delete[] p; }
      // exact-size view when n > 0 (new char[n]); for n == 0 an empty range at p
      const char* begin() const { return p; }
      const char* end() const { return p + n; }
   };

   std::string hexof( const std::string& s )
   {
      if( s.empty() ) {
         return "-";
      }
      static const char* d = "0123456789abcdef";
      std::string r;
      for( unsigned char c : s ) {
         r += d[ c >> 4 ];
         r += d[ c & 15 ];
      }
      return r;
   }

   int nib( char c )
   {
      if( c >= '0' && c <= '9' ) return c - '0';
      if( c >= 'a' && c <= 'f' ) return c - 'a' + 10;
      if( c >= 'A' && c <= 'F' ) return c - 'A' + 10;
      return 0;
   }

   std::string unhex( const std::string& h )
   {
      std::string r;
      if( h == "-" ) {
         return r;
      }
      for( std::size_t i = 0; i + 1 < h.size(); i += 2 ) {
         r += static_cast< char >( nib( h[ i ] ) * 16 + nib( h[ i + 1 ] ) );
      }
      return r;
   }

   // run Rule/Action on an exact-size heap copy of text; returns "ok"/"err"/"nomatch"
   template< typename Rule, template< typename... > class Action, typename State >
   const char* drive( const std::string& text, State& st )
   {
      heapbuf b( text );
      memory_input< tracking_mode::eager, eol::lf_crlf > in( b.begin(), b.end(), "c17" );
      try {
         return parse< Rule, Action >( in, st ) ? "ok" : "nomatch";
      }
      catch( const parse_error& ) {
         return "err";
      }
   }

   template< typename I >
   unsigned long long unhex_as( const std::string& digits )
   {
      heapbuf b( digits );
      const I r = unescape::unhex_string< I >( b.begin(), b.end() );
      using U = std::make_unsigned_t< I >;
      return static_cast< unsigned long long >( static_cast< U >( r ) );
   }

}  // namespace c17

int main()
{
   std::ios::sync_with_stdio( false );
   std::string line;
   std::string out;
   out.reserve( 1 << 16 );
   while( std::getline( std::cin, line ) ) {
      std::istringstream is( line );
      std::string cmd;
      if( !( is >> cmd ) ) {
         continue;
      }
      if( cmd == "R" ) {
         unsigned long long a = 0, n = 0;
         is >> a >> n;
         for( unsigned long long i = 0; i < n; ++i ) {
            const unsigned cp = static_cast< unsigned >( a + i );
            std::string s;
            const bool ok = pegtl::unescape::utf8_append_utf32( s, cp );
            std::printf( "A %u %d %s\n", cp, ok ? 1 : 0, c17::hexof( s ).c_str() );
         }
      }
      else if( cmd == "P" ) {
         unsigned long long cp = 0;
         std::string pre;
         is >> cp >> pre;
         std::string s = c17::unhex( pre );
         const bool ok = pegtl::unescape::utf8_append_utf32( s, static_cast< unsigned >( cp ) );
         std::printf( "P %llu %s %d %s\n", cp, pre.c_str(), ok ? 1 : 0, c17::hexof( s ).c_str() );
      }
      else if( cmd == "HC" ) {
         unsigned b = 0;
         is >> b;
         c17::hstate st;
         const std::string text( 1, static_cast< char >( b ) );
         const char* r = c17::drive< c17::hrule, c17::haction >( text, st );
         if( st.called && std::strcmp( r, "ok" ) == 0 ) {
            if( st.u == static_cast< unsigned >( st.c ) && st.u == st.ull && st.u == st.uc ) {
               std::printf( "HC %u %u\n", b, st.u );
            }
            else {
               std::printf( "HC %u %u/%d/%llu/%u\n", b, st.u, int( st.c ), st.ull, unsigned( st.uc ) );
            }
         }
         else {
            std::printf( "HC %u %s\n", b, r );
         }
      }
      else if( cmd == "H" ) {
         std::string ty, ds;
         is >> ty >> ds;
         const std::string digits = ( ds == "-" ) ? std::string() : ds;
         unsigned long long v = 0;
         if( ty == "c" ) {
            v = c17::unhex_as< char >( digits );
         }
         else if( ty == "uc" ) {
            v = c17::unhex_as< unsigned char >( digits );
         }
         else if( ty == "us" ) {
            v = c17::unhex_as< unsigned short >( digits );
         }
         else if( ty == "u" ) {
            v = c17::unhex_as< unsigned >( digits );
         }
         else {
            v = c17::unhex_as< unsigned long long >( digits );
         }
         std::printf( "H %s %s %llu\n", ty.c_str(), ds.c_str(), v );
      }
      else if( cmd == "C" ) {
         std::string t;
         unsigned b = 0;
         is >> t >> b;
         std::string s;
         const std::string text( 1, static_cast< char >( b ) );
         const char* r = ( t == "j" ) ? c17::drive< c17::cjrule, example::json_unescape_action >( text, s )
                                      : c17::drive< c17::crule, example::action >( text, s );
         if( std::strcmp( r, "ok" ) == 0 && s.size() == 1 ) {
            std::printf( "C %s %u %u\n", t.c_str(), b, unsigned( static_cast< unsigned char >( s[ 0 ] ) ) );
         }
         else if( std::strcmp( r, "ok" ) == 0 ) {
            std::printf( "C %s %u size%zu\n", t.c_str(), b, s.size() );
         }
         else {
            std::printf( "C %s %u %s\n", t.c_str(), b, r );
         }
      }
      else if( cmd == "U" || cmd == "X" || cmd == "J" ) {
         std::string pre, txt;
         is >> pre >> txt;
         std::string s = c17::unhex( pre );
         const std::string text = c17::unhex( txt );
         const char* r = ( cmd == "U" ) ? c17::drive< c17::urule, example::action >( text, s )
                         : ( cmd == "X" ) ? c17::drive< c17::xrule, example::action >( text, s )
                                          : c17::drive< c17::jrule, example::json_unescape_action >( text, s );
         std::printf( "%s %s %s %s %s\n", cmd.c_str(), pre.c_str(), txt.c_str(), r, c17::hexof( s ).c_str() );
      }
      else if( cmd == "L" ) {
         std::string body;
         is >> body;
         std::string s;
         const std::string text = "\"" + c17::unhex( body ) + "\"";
         const char* r = c17::drive< example::padded, example::action >( text, s );
         if( std::strcmp( r, "nomatch" ) == 0 ) {
            std::printf( "L %s nomatch -\n", body.c_str() );
         }
         else {
            std::printf( "L %s %s %s\n", body.c_str(), r, c17::hexof( s ).c_str() );
         }
      }
      else {
         std::printf( "?\n" );
      }
   }
   std::fflush( stdout );
   return 0;
}
