// leaf_c16.cpp — observation driver for contrib/raw_string.hpp (property C16).
// Compiled on every check run against /repo's current headers (ASan + UBSan).
//
// stdin, one case per line:   <Open> <Marker> <Close> <eol 0..4> <contents 0..3> <hex input | ->
//     eol: 0 lf, 1 cr, 2 crlf, 3 lf_crlf, 4 cr_crlf
//     contents: 0 none, 1 `any`, 2 `any, any`, 3 `not_one< 'x' >`
// stdout, one line per case: four observations, for (action attached?, rewind mode) in
//     A1R A1O A0R A0O :   `<tag> <result> <byte> <line> <column> <span>`
//     span = `<begin byte> <begin line> <begin column> <end byte>` (what the action bound to
//     raw_string<…>::content received) or `-`.
// The input lives in an exact-size heap buffer without terminator, so any read outside the
// window is an ASan report.  The (Open, Marker, Close) triples are compile-time: only the
// ones listed in `dispatch_triple` are available.

#include <cstdio>
#include <cstdlib>
#include <cstring>
#include <iostream>
#include <string>
#include <type_traits>

#include <tao/pegtl.hpp>
#include <tao/pegtl/contrib/raw_string.hpp>

namespace pegtl = tao::pegtl;

struct span_obs
{
   bool seen = false;
   unsigned calls = 0;
   std::size_t b_byte = 0, b_line = 0, b_col = 0, e_byte = 0;
};

static span_obs g_span;
static const char* g_base = nullptr;

struct recorder
{
   template< typename ActionInput, typename... States >
   static void apply( const ActionInput& in, States&&... /*marker_size*/ )
   {
      const auto p = in.position();
      g_span.seen = true;
      ++g_span.calls;
      g_span.b_byte = p.byte;
      g_span.b_line = p.line;
      g_span.b_col = p.column;
      g_span.e_byte = static_cast< std::size_t >( in.end() - g_base );
      if( static_cast< std::size_t >( in.begin() - g_base ) != p.byte ) {
         g_span.calls += 100;  // begin pointer and reported byte disagree: make it visible
      }
   }
};

template< typename RS >
struct act_for
{
   template< typename Rule >
   struct type
      : std::conditional_t< std::is_same_v< Rule, typename RS::content >, recorder, pegtl::nothing< Rule > >
   {};
};

// a reader handing out one byte per call: over a buffer_input the rule has to ask for every byte it reads
struct mem_reader
{
   const char* p;
   std::size_t left;

   std::size_t operator()( char* buffer, const std::size_t length )
   {
      if( ( length == 0 ) || ( left == 0 ) ) {
         return 0;
      }
      *buffer = *p++;
      --left;
      return 1;
   }
};

template< typename RS, typename Eol, pegtl::apply_mode A, pegtl::rewind_mode M >
static void observe( const char* tag, const std::string& data, std::string& out )
{
   // exact-size heap copy, no terminator
   char* buf = static_cast< char* >( std::malloc( data.size() ? data.size() : 1 ) );
   std::memcpy( buf, data.data(), data.size() );
   g_base = buf;
   g_span = span_obs();
   int r = 2;
   std::size_t byte = 0, line = 0, col = 0;
   {
      pegtl::memory_input< pegtl::tracking_mode::eager, Eol > in( buf, buf + data.size(), "c16" );
      try {
         r = pegtl::normal< RS >::template match< A, M, act_for< RS >::template type, pegtl::normal >( in ) ? 1 : 0;
      }
      catch( ... ) {
         r = 2;
      }
      const auto p = in.position();
      byte = p.byte;
      line = p.line;
      col = p.column;
   }
   if constexpr( A == pegtl::apply_mode::nothing ) {
      // the same call over a buffer input (capacity: the whole text): same result and position, or result code 7
      pegtl::buffer_input< mem_reader, Eol, std::string, 1 > bin( "c16", data.size() + 16, mem_reader{ buf, data.size() } );
      int rb = 2;
      try {
         rb = pegtl::normal< RS >::template match< A, M, pegtl::nothing, pegtl::normal >( bin ) ? 1 : 0;
      }
      catch( ... ) {
         rb = 2;
      }
      const auto pb = bin.position();
      if( ( rb != r ) || ( pb.byte != byte ) || ( pb.line != line ) || ( pb.column != col ) ) {
         r = 7;
      }
   }
   std::free( buf );
   char b[ 160 ];
   if( g_span.seen ) {
      if( g_span.calls != 1 ) {
         std::snprintf( b, sizeof b, "%s %d %zu %zu %zu calls=%u", tag, r, byte, line, col, g_span.calls );
      }
      else {
         std::snprintf( b, sizeof b, "%s %d %zu %zu %zu %zu %zu %zu %zu", tag, r, byte, line, col, g_span.b_byte, g_span.b_line, g_span.b_col, g_span.e_byte );
      }
   }
   else {
      std::snprintf( b, sizeof b, "%s %d %zu %zu %zu -", tag, r, byte, line, col );
   }
   if( !out.empty() ) {
      out += ' ';
   }
   out += b;
}

template< typename RS, typename Eol >
static std::string run_all( const std::string& data )
{
   std::string out;
   observe< RS, Eol, pegtl::apply_mode::action, pegtl::rewind_mode::required >( "A1R", data, out );
   observe< RS, Eol, pegtl::apply_mode::action, pegtl::rewind_mode::optional >( "A1O", data, out );
   observe< RS, Eol, pegtl::apply_mode::nothing, pegtl::rewind_mode::required >( "A0R", data, out );
   observe< RS, Eol, pegtl::apply_mode::nothing, pegtl::rewind_mode::optional >( "A0O", data, out );
   return out;
}

template< typename RS >
static std::string dispatch_eol( int eol, const std::string& data )
{
   switch( eol ) {
      case 0:
         return run_all< RS, pegtl::eol::lf >( data );
      case 1:
         return run_all< RS, pegtl::eol::cr >( data );
      case 2:
         return run_all< RS, pegtl::eol::crlf >( data );
      case 3:
         return run_all< RS, pegtl::eol::lf_crlf >( data );
      case 4:
         return run_all< RS, pegtl::eol::cr_crlf >( data );
   }
   return "bad-eol";
}

template< char O, char M, char C >
static std::string dispatch_contents( int contents, int eol, const std::string& data )
{
   switch( contents ) {
      case 0:
         return dispatch_eol< pegtl::raw_string< O, M, C > >( eol, data );
      case 1:
         return dispatch_eol< pegtl::raw_string< O, M, C, pegtl::any > >( eol, data );
      case 2:
         return dispatch_eol< pegtl::raw_string< O, M, C, pegtl::any, pegtl::any > >( eol, data );
      case 3:
         return dispatch_eol< pegtl::raw_string< O, M, C, pegtl::not_one< 'x' > > >( eol, data );
   }
   return "bad-contents";
}

// -DC16_TRIPLE=<k> compiles only the k-th triple (the check builds the four in parallel).
#ifndef C16_TRIPLE
#define C16_TRIPLE -1
#endif

static std::string dispatch_triple( int o, int m, int c, int contents, int eol, const std::string& data )
{
   if constexpr( C16_TRIPLE < 0 || C16_TRIPLE == 0 ) {
      if( o == '[' && m == '=' && c == ']' ) {
         return dispatch_contents< '[', '=', ']' >( contents, eol, data );
      }
   }
   if constexpr( C16_TRIPLE < 0 || C16_TRIPLE == 1 ) {
      if( o == '<' && m == '-' && c == '>' ) {
         return dispatch_contents< '<', '-', '>' >( contents, eol, data );
      }
   }
   if constexpr( C16_TRIPLE < 0 || C16_TRIPLE == 2 ) {
      if( o == '"' && m == '=' && c == '"' ) {  // Close = Open
         return dispatch_contents< '"', '=', '"' >( contents, eol, data );
      }
   }
   if constexpr( C16_TRIPLE < 0 || C16_TRIPLE == 3 ) {
      if( o == '[' && m == '=' && c == '=' ) {  // Close = Marker
         return dispatch_contents< '[', '=', '=' >( contents, eol, data );
      }
   }
   return "bad-triple";
}

static int hexval( char c )
{
   if( c >= '0' && c <= '9' ) {
      return c - '0';
   }
   if( c >= 'a' && c <= 'f' ) {
      return c - 'a' + 10;
   }
   if( c >= 'A' && c <= 'F' ) {
      return c - 'A' + 10;
   }
   return 0;
}

int main()
{
   std::ios::sync_with_stdio( false );
   std::string line;
   std::string outbuf;
   while( std::getline( std::cin, line ) ) {
      if( line.empty() ) {
         continue;
      }
      int o = 0, m = 0, c = 0, eol = 0, contents = 0;
      char hex[ 4096 ];
      if( std::sscanf( line.c_str(), "%d %d %d %d %d %4095s", &o, &m, &c, &eol, &contents, hex ) != 6 ) {
         outbuf += "bad-line\n";
         continue;
      }
      std::string data;
      if( std::strcmp( hex, "-" ) != 0 ) {
         const std::size_t n = std::strlen( hex );
         for( std::size_t i = 0; i + 1 < n; i += 2 ) {
            data.push_back( static_cast< char >( hexval( hex[ i ] ) * 16 + hexval( hex[ i + 1 ] ) ) );
         }
      }
      outbuf += dispatch_triple( o, m, c, contents, eol, data );
      outbuf += '\n';
      if( outbuf.size() > ( 1u << 20 ) ) {
         std::fwrite( outbuf.data(), 1, outbuf.size(), stdout );
         outbuf.clear();
      }
   }
   std::fwrite( outbuf.data(), 1, outbuf.size(), stdout );
   return 0;
}
