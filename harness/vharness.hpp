// vharness.hpp — observation control, action templates and case runner for the
// correspondence check (DESIGN.md §3.2).  Included by generated translation units that
// are compiled against /repo/include on every run.
#ifndef VERIF_VHARNESS_HPP
#define VERIF_VHARNESS_HPP

#include <cstdio>
#include <cstring>
#include <exception>
#include <iostream>
#include <sstream>
#include <map>
#include <stdexcept>
#include <string>
#include <vector>

#include "verif_hook.hpp"

#include <tao/pegtl.hpp>
#include <tao/pegtl/contrib/check_bytes.hpp>
#include <tao/pegtl/contrib/control_action.hpp>
#include <tao/pegtl/contrib/coverage.hpp>
#include <tao/pegtl/contrib/input_with_depth.hpp>
#include <tao/pegtl/contrib/integer.hpp>
#include <tao/pegtl/contrib/limit_bytes.hpp>
#include <tao/pegtl/contrib/limit_depth.hpp>
#include <tao/pegtl/contrib/parse_tree.hpp>
#include <tao/pegtl/contrib/predicates.hpp>
#include <tao/pegtl/contrib/if_then.hpp>
#include <tao/pegtl/contrib/rep_one_min_max.hpp>
#include <tao/pegtl/contrib/rep_string.hpp>
#include <tao/pegtl/contrib/separated_seq.hpp>
#include <tao/pegtl/contrib/trace.hpp>
#include <tao/pegtl/contrib/shuffle_states.hpp>
#include <tao/pegtl/contrib/remove_first_state.hpp>

namespace vh
{
   namespace pegtl = tao::pegtl;

   // rule identity: node id of the grammar table (never a demangled name)
   template< typename Tag, typename T >
   inline constexpr int vid = -1;

   inline std::string g_out;
   inline long g_steps = 0;
   inline long g_step_budget = 0;  // 0 = unlimited
   inline std::map< std::string, int >*& names_ptr()
   {
      static std::map< std::string, int >* p = nullptr;
      return p;
   }
   template< typename Tag >
   std::map< std::string, int >& names_for()
   {
      static std::map< std::string, int > m;
      return m;
   }
   inline std::map< std::string, int >& names()
   {
      return *names_ptr();
   }
   // custom error_message strings (limit_depth / limit_bytes / raise_message) -> id; the ids of limit_* are global,
   // those of raise_message and of per-rule messages belong to one grammar (Tag)
   inline std::map< std::string, int >& messages()
   {
      static std::map< std::string, int > m;
      return m;
   }
   template< typename Tag >
   std::map< std::string, int >& messages_for()
   {
      static std::map< std::string, int > m;
      return m;
   }
   inline std::map< std::string, int >*& messages_ptr()
   {
      static std::map< std::string, int >* p = nullptr;
      return p;
   }

   struct step_budget_exceeded
   {};



   inline void emit( const char* tag, int id )
   {
      char b[ 64 ];
      std::snprintf( b, sizeof b, "%s %d", tag, id );
      g_out += b;
   }

   inline void emit_pos( const pegtl::position& p )
   {
      char b[ 96 ];
      std::snprintf( b, sizeof b, " %zu %zu %zu", p.byte, p.line, p.column );
      g_out += b;
   }

   template< typename In >
   void ev( const char* tag, int id, const In& in )
   {
      emit( tag, id );
      emit_pos( in.position() );
      g_out += '\n';
   }

   // The bool/throw decisions of generated actions (same formulas as Model/Run.lean).
   struct act_spec
   {
      int veto_mod;
      int throw_mod;
      bool throw_std;
   };

   struct foreign_std : std::runtime_error
   {
      int k;
      explicit foreign_std( int i )
         : std::runtime_error( "foreign" ), k( i )
      {}
   };

   struct foreign_other
   {
      int k;
   };

   inline bool act_throws( const act_spec& s, int id, std::size_t b, std::size_t e )
   {
      return ( s.throw_mod != 0 ) && ( ( b + e + std::size_t( id ) ) % std::size_t( s.throw_mod ) == 0 );
   }

   inline bool act_vetoes( const act_spec& s, int id, std::size_t b, std::size_t e )
   {
      return ( s.veto_mod != 0 ) && ( ( b + 2 * e + std::size_t( id ) ) % std::size_t( s.veto_mod ) == 0 );
   }

   [[noreturn]] inline void act_throw( const act_spec& s, int id )
   {
      if( s.throw_std ) {
         throw foreign_std( id );
      }
      throw foreign_other{ id };
   }

   inline std::size_t g_apply0_end = 0;  // set by the control just before Action::apply0

   // State objects (C13).  Nesting depth = number of live state objects at construction (they are locals of
   // match() frames, hence LIFO); uid = construction counter.  Every event is logged.
   inline int g_sdepth = 0;
   inline long g_suid = 0;

   struct vstate_base
   {
      int depth = 0;
      long uid = 0;
   };

   inline int state_depth()
   {
      return 0;
   }

   // tags handed to parse() in the shuffled-control runs (C08): not state objects of the state<> rules
   struct stag
   {
      int id;
   };

   // a state that reports being copied: the library hands states on by reference everywhere
   struct cwit
   {
      cwit() = default;
      cwit( const cwit& /*unused*/ )
      {
         g_out += "COPY-BAD a state object was copied\n";
      }
      cwit& operator=( const cwit& ) = delete;
   };

   template< typename S, typename... Ss >
   int state_depth( const S& s, const Ss&... ss )
   {
      if constexpr( std::is_base_of_v< vstate_base, S > ) {
         return s.depth;
      }
      else if constexpr( std::is_same_v< S, stag > || std::is_same_v< S, cwit > ) {
         return state_depth( ss... );
      }
      else {
         return -1;
      }
   }

   // Shuffled-control runs: the order of tags the logging control (the Base of shuffle_states<> / remove_first_state<>) must be handed
   // in every hook; g_shuf_n < 0: not such a run.
   inline int g_shuf_n = -1;
   inline int g_shuf_expect[ 4 ] = { 0, 0, 0, 0 };

   template< typename S >
   int stag_id( const S& s )
   {
      if constexpr( std::is_same_v< S, stag > ) {
         return s.id;
      }
      else {
         return -2;
      }
   }

   template< typename... Ss >
   void shuf_check( const char* hook, const Ss&... ss )
   {
      if( g_shuf_n < 0 ) {
         return;
      }
      const int got[] = { stag_id( ss )..., -1 };
      bool ok = ( int( sizeof...( Ss ) ) == g_shuf_n );
      for( int i = 0; ok && i < g_shuf_n; ++i ) {
         ok = ( got[ i ] == g_shuf_expect[ i ] );
      }
      if( !ok ) {
         g_out += "SHUF-BAD ";      // an extra line: disagrees with every model trace, and the oracle reports it
         g_out += hook;
         for( std::size_t i = 0; i < sizeof...( Ss ); ++i ) {
            g_out += ' ';
            g_out += std::to_string( got[ i ] );
         }
         g_out += '\n';
      }
   }

   inline void state_ctor( vstate_base& s, const int outer )
   {
      s.depth = ++g_sdepth;
      s.uid = ++g_suid;
      emit( "sc", s.depth );
      if( outer != s.depth - 1 ) {
         g_out += " BAD-OUTER";
      }
      g_out += '\n';
   }

   inline void state_dtor( vstate_base& s )
   {
      emit( "sd", s.depth );
      if( s.depth != g_sdepth ) {
         g_out += " BAD-ORDER";
      }
      g_out += '\n';
      --g_sdepth;
   }

   template< typename In, typename... Outer >
   void state_success( vstate_base& s, const In& in, const Outer&... outer )
   {
      emit( "ss", s.depth );
      emit_pos( in.position() );
      char b[ 32 ];
      std::snprintf( b, sizeof b, " %d", state_depth( outer... ) );
      g_out += b;
      g_out += '\n';
   }

   // constructed from ( in, outer states... ) — the first branch of state<> / change_state<>
   struct vstate_c : vstate_base
   {
      template< typename In, typename... Outer, typename = decltype( std::declval< const In& >().position() ) >
      explicit vstate_c( const In& /*unused*/, Outer&&... outer )
      {
         state_ctor( *this, state_depth( outer... ) );
      }
      vstate_c( const vstate_c& o )      // states are handed on by reference: a copy is reported (and is a state object of its own from then on)
         : vstate_base( o )
      {
         g_out += "COPY-BAD a state object was copied\n";
      }
      void operator=( const vstate_c& ) = delete;
      ~vstate_c()
      {
         state_dtor( *this );
      }
      template< typename In, typename... Outer >
      void success( const In& in, Outer&&... outer )
      {
         state_success( *this, in, outer... );
      }
   };

   // default-constructed only — the second branch, and change_states<>
   struct vstate_d : vstate_base
   {
      vstate_d()
      {
         state_ctor( *this, g_sdepth );
      }
      vstate_d( const vstate_d& o )      // states are handed on by reference: a copy is reported (and is a state object of its own from then on)
         : vstate_base( o )
      {
         g_out += "COPY-BAD a state object was copied\n";
      }
      void operator=( const vstate_d& ) = delete;
      ~vstate_d()
      {
         state_dtor( *this );
      }
      template< typename In, typename... Outer >
      void success( const In& in, Outer&&... outer )
      {
         state_success( *this, in, outer... );
      }
   };

   template< typename Tag >
   struct act_change_state : pegtl::change_state< vstate_c >
   {};

   template< typename Tag >
   struct act_change_states : pegtl::change_states< vstate_d >
   {
      template< typename In, typename... Outer >
      static void success( const In& in, vstate_d& s, Outer&&... outer )
      {
         s.success( in, outer... );
      }
   };

   template< typename Tag, template< typename... > class NewAction >
   struct act_change_action_and_state : pegtl::change_action_and_state< NewAction, vstate_c >
   {};

   template< typename Tag, template< typename... > class NewAction >
   struct act_change_action_and_states : pegtl::change_action_and_states< NewAction, vstate_d >
   {
      template< typename In, typename... Outer >
      static void success( const In& in, vstate_d& s, Outer&&... outer )
      {
         s.success( in, outer... );
      }
   };

   // Action bodies; the generated code derives Action< nK > from one of these.
   template< typename Tag, typename Rule, int VetoMod, int ThrowMod, bool ThrowStd >
   struct act_apply_void
   {
      template< typename ActionInput, typename... States >
      static void apply( const ActionInput& in, States&&... /*unused*/ )
      {
         constexpr act_spec s{ VetoMod, ThrowMod, ThrowStd };
         const std::size_t b = in.position().byte;
         const std::size_t e = in.input().position().byte;
         if( act_throws( s, vid< Tag, Rule >, b, e ) ) {
            act_throw( s, vid< Tag, Rule > );
         }
      }
   };

   template< typename Tag, typename Rule, int VetoMod, int ThrowMod, bool ThrowStd >
   struct act_apply_bool
   {
      template< typename ActionInput, typename... States >
      static bool apply( const ActionInput& in, States&&... /*unused*/ )
      {
         constexpr act_spec s{ VetoMod, ThrowMod, ThrowStd };
         const std::size_t b = in.position().byte;
         const std::size_t e = in.input().position().byte;
         if( act_throws( s, vid< Tag, Rule >, b, e ) ) {
            act_throw( s, vid< Tag, Rule > );
         }
         return !act_vetoes( s, vid< Tag, Rule >, b, e );
      }
   };

   template< typename Tag, typename Rule, int VetoMod, int ThrowMod, bool ThrowStd >
   struct act_apply0_void
   {
      template< typename... States >
      static void apply0( States&&... /*unused*/ )
      {
         constexpr act_spec s{ VetoMod, ThrowMod, ThrowStd };
         if( act_throws( s, vid< Tag, Rule >, g_apply0_end, g_apply0_end ) ) {
            act_throw( s, vid< Tag, Rule > );
         }
      }
   };

   template< typename Tag, typename Rule, int VetoMod, int ThrowMod, bool ThrowStd >
   struct act_apply0_bool
   {
      template< typename... States >
      static bool apply0( States&&... /*unused*/ )
      {
         constexpr act_spec s{ VetoMod, ThrowMod, ThrowStd };
         if( act_throws( s, vid< Tag, Rule >, g_apply0_end, g_apply0_end ) ) {
            act_throw( s, vid< Tag, Rule > );
         }
         return !act_vetoes( s, vid< Tag, Rule >, g_apply0_end, g_apply0_end );
      }
   };

   // Action classes named directly by the rules apply< A... > / if_apply< R, A... > (not reached through the action family and
   // not through the control): they log their own call.  Same decision formulas as the generated rule actions.
   template< typename ActionInput, typename... States >
   void ract_log( const int id, const ActionInput& in, const States&... st )
   {
      emit( "rp", id );
      emit_pos( in.position() );
      emit_pos( in.input().position() );
      emit( "", state_depth( st... ) );
      g_out += '\n';
   }

   template< typename Tag, int Id, int ThrowMod, bool ThrowStd >
   struct ract_void
   {
      template< typename ActionInput, typename... States >
      static void apply( const ActionInput& in, States&&... st )
      {
         ract_log( Id, in, st... );
         constexpr act_spec s{ 0, ThrowMod, ThrowStd };
         if( act_throws( s, Id, in.position().byte, in.input().position().byte ) ) {
            act_throw( s, Id );
         }
      }
   };

   template< typename Tag, int Id, int VetoMod, int ThrowMod, bool ThrowStd >
   struct ract_bool
   {
      template< typename ActionInput, typename... States >
      static bool apply( const ActionInput& in, States&&... st )
      {
         ract_log( Id, in, st... );
         constexpr act_spec s{ VetoMod, ThrowMod, ThrowStd };
         const std::size_t b = in.position().byte;
         const std::size_t e = in.input().position().byte;
         if( act_throws( s, Id, b, e ) ) {
            act_throw( s, Id );
         }
         return !act_vetoes( s, Id, b, e );
      }
   };

   // contrib/control_action.hpp (C08): an action class that receives start / success / failure (/ unwind) around the rule's
   // match(); the hooks log themselves (`cs`, `csu`, `cfa`, `cuw`).  Not in the Lean model: the lines are dropped for the
   // comparison and judged by an oracle of their own.
   template< typename Tag, typename Rule >
   struct act_ca
      : pegtl::control_action
   {
      template< typename ParseInput, typename... States >
      static void start( const ParseInput& in, States&&... /*unused*/ )
      {
         ev( "cs", vid< Tag, Rule >, in );
      }
      template< typename ParseInput, typename... States >
      static void success( const ParseInput& in, States&&... /*unused*/ )
      {
         ev( "csu", vid< Tag, Rule >, in );
      }
      template< typename ParseInput, typename... States >
      static void failure( const ParseInput& in, States&&... /*unused*/ )
      {
         ev( "cfa", vid< Tag, Rule >, in );
      }
   };

   template< typename Tag, typename Rule >
   struct act_ca_unwind
      : act_ca< Tag, Rule >
   {
      template< typename ParseInput, typename... States >
      static void unwind( const ParseInput& in, States&&... /*unused*/ )
      {
         ev( "cuw", vid< Tag, Rule >, in );
      }
   };

   // Action classes named by the `apply0< A... >` rule: called with the states only, so they cannot know a position and
   // their decisions are constants (never / always).  Logged as a rule-level action call without positions.
   template< typename... States >
   void ract0_log( const int id, const States&... st )
   {
      emit( "rp", id );
      g_out += " - - - - - -";
      emit( "", state_depth( st... ) );
      g_out += '\n';
   }

   template< typename Tag, int Id, bool Throw, bool ThrowStd >
   struct ract0_void
   {
      template< typename... States >
      static void apply0( States&&... st )
      {
         ract0_log( Id, st... );
         if constexpr( Throw ) {
            constexpr act_spec s{ 0, 1, ThrowStd };
            act_throw( s, Id );
         }
      }
   };

   template< typename Tag, int Id, bool Veto, bool Throw, bool ThrowStd >
   struct ract0_bool
   {
      template< typename... States >
      static bool apply0( States&&... st )
      {
         ract0_log( Id, st... );
         if constexpr( Throw ) {
            constexpr act_spec s{ 0, 1, ThrowStd };
            act_throw( s, Id );
         }
         return !Veto;
      }
   };

   // Observation control.  `match` brackets every Control< Rule >::match invocation,
   // including hidden internal:: rules; the hooks log what the library calls.
   // events of the second control family (change_control / control<> scoping, C13) carry a mark after the tag
   template< int Mark >
   void emit_m( const char* tag, int id )
   {
      if constexpr( Mark == 0 ) {
         emit( tag, id );
      }
      else {
         char b[ 64 ];
         std::snprintf( b, sizeof b, "%s%d %d", tag, Mark, id );
         g_out += b;
      }
   }

   // A control hook is normally handed the input; a changed library may hand it a bare position (the ambient of raise_nested), which
   // must still produce a trace line rather than a harness that no longer builds.
   template< typename In >
   decltype( auto ) pos_of( const In& in )
   {
      if constexpr( std::is_same_v< In, pegtl::position > ) {
         return ( in );
      }
      else {
         return in.position();
      }
   }

   template< int Mark, typename In >
   void ev_m( const char* tag, int id, const In& in )
   {
      emit_m< Mark >( tag, id );
      emit_pos( pos_of( in ) );
      g_out += '\n';
   }

   template< typename Tag, typename Rule, bool WithUnwind, int Mark = 0 >
   struct vcontrol_base
      : pegtl::normal< Rule >
   {
      template< typename ParseInput, typename... States >
      static void start( const ParseInput& in, States&&... st )
      {
         shuf_check( "st", st... );
         ev_m< Mark >( "st", vid< Tag, Rule >, in );
      }

      template< typename ParseInput, typename... States >
      static void success( const ParseInput& in, States&&... st )
      {
         shuf_check( "su", st... );
         ev_m< Mark >( "su", vid< Tag, Rule >, in );
      }

      template< typename ParseInput, typename... States >
      static void failure( const ParseInput& in, States&&... st )
      {
         shuf_check( "fa", st... );
         ev_m< Mark >( "fa", vid< Tag, Rule >, in );
      }

      template< typename ParseInput, typename... States >
      [[noreturn]] static void raise( const ParseInput& in, States&&... st )
      {
         shuf_check( "ra", st... );
         ev_m< Mark >( "ra", vid< Tag, Rule >, in );
         pegtl::normal< Rule >::raise( in, st... );
      }

      template< template< typename... > class Action, typename Inputerator, typename ParseInput, typename... States >
      static auto apply( const Inputerator& begin, const ParseInput& in, States&&... st )
         -> decltype( Action< Rule >::apply( std::declval< const typename ParseInput::action_t& >(), st... ) )
      {
         const typename ParseInput::action_t action_input( begin, in );
         shuf_check( "ap", st... );
         emit_m< Mark >( "ap", vid< Tag, Rule > );
         emit_pos( action_input.position() );
         emit_pos( in.position() );
         emit( "", state_depth( st... ) );
         g_out += '\n';
         return Action< Rule >::apply( action_input, st... );
      }

      template< template< typename... > class Action, typename ParseInput, typename... States >
      static auto apply0( const ParseInput& in, States&&... st )
         -> decltype( Action< Rule >::apply0( st... ) )
      {
         shuf_check( "a0", st... );
         emit_m< Mark >( "a0", vid< Tag, Rule > );
         emit_pos( in.position() );
         emit( "", state_depth( st... ) );
         g_out += '\n';
         g_apply0_end = in.position().byte;
         return Action< Rule >::apply0( st... );
      }

      template< pegtl::apply_mode A,
                pegtl::rewind_mode M,
                template< typename... >
                class Action,
                template< typename... >
                class Control,
                typename ParseInput,
                typename... States >
      [[nodiscard]] static bool match( ParseInput& in, States&&... st )
      {
         if( g_step_budget != 0 && ++g_steps > g_step_budget ) {
            throw step_budget_exceeded{};
         }
         emit_m< Mark >( "E", vid< Tag, Rule > );
         g_out += ( A == pegtl::apply_mode::action ) ? " 1" : " 0";
         g_out += ( M == pegtl::rewind_mode::required ) ? " r" : " o";
         emit_pos( in.position() );
         g_out += '\n';
         try {
            const bool r = pegtl::normal< Rule >::template match< A, M, Action, Control >( in, st... );
            emit_m< Mark >( "X", vid< Tag, Rule > );
            g_out += r ? " 1" : " 0";
            emit_pos( in.position() );
            g_out += '\n';
            return r;
         }
         catch( const step_budget_exceeded& ) {
            throw;
         }
         catch( ... ) {
            emit_m< Mark >( "X", vid< Tag, Rule > );
            g_out += " 2";
            emit_pos( in.position() );
            g_out += '\n';
            throw;
         }
      }
   };

   template< typename Tag, typename Rule >
   struct vcontrol
      : vcontrol_base< Tag, Rule, true >
   {
      template< typename ParseInput, typename... States >
      static void unwind( const ParseInput& in, States&&... st )
      {
         shuf_check( "uw", st... );
         ev( "uw", vid< Tag, Rule >, in );
      }
   };

   template< typename Tag, typename Rule >
   struct vcontrol_nounwind
      : vcontrol_base< Tag, Rule, false >
   {};

   template< typename Tag, typename Rule >
   struct vcontrol2
      : vcontrol_base< Tag, Rule, true, 2 >
   {
      template< typename ParseInput, typename... States >
      static void unwind( const ParseInput& in, States&&... /*unused*/ )
      {
         ev_m< 2 >( "uw", vid< Tag, Rule >, in );
      }
   };

   inline void describe_exception( const std::exception_ptr& p )
   {
      try {
         std::rethrow_exception( p );
      }
      catch( const pegtl::parse_error& e ) {
         const auto& pos = e.position_object();
         const std::string msg( e.message() );
         const std::string prefix = "parse error matching ";
         int id = -2;
         if( msg.compare( 0, prefix.size(), prefix ) == 0 ) {
            const auto it = names().find( msg.substr( prefix.size() ) );
            if( it != names().end() ) {
               id = it->second;
            }
         }
         else {
            const auto* pm = messages_ptr();
            const auto jt = pm ? pm->find( msg ) : messages().end();
            if( pm && ( jt != pm->end() ) ) {
               id = jt->second;
            }
            else {
               const auto it = messages().find( msg );
               if( it != messages().end() ) {
                  id = it->second;
               }
            }
         }
         // C05: what() == source:line:column: message
         const std::string expect = pos.source + ":" + std::to_string( pos.line ) + ":" + std::to_string( pos.column ) + ": " + msg;
         const bool what_ok = ( expect == e.what() );
         bool nested = false;
         std::exception_ptr inner;
         try {
            std::rethrow_if_nested( e );
         }
         catch( ... ) {
            nested = true;
            inner = std::current_exception();
         }
         emit( nested ? "N" : "P", id );
         emit_pos( pos );
         if( !what_ok ) {
            g_out += " WHAT-MISMATCH";
         }
         if( nested ) {
            g_out += " ( ";
            describe_exception( inner );
            g_out += " )";
         }
      }
      catch( const foreign_std& e ) {
         emit( "F", e.k );
         g_out += " 1";
      }
      catch( const foreign_other& e ) {
         emit( "F", e.k );
         g_out += " 0";
      }
      catch( const step_budget_exceeded& ) {
         g_out += "BUDGET";
      }
      catch( const std::exception& e ) {
         g_out += "STD ";
         g_out += e.what();
      }
      catch( ... ) {
         g_out += "UNKNOWN";
      }
   }

   template< typename Tag, typename T >
   void reg( int id )
   {
      names_for< Tag >()[ std::string( pegtl::demangle< T >() ) ] = id;
   }

   // One case: exact-size heap buffer (no terminator), fresh input, one parse() call.
   template< typename Tag,
             typename Root,
             template< typename... >
             class Action,
             template< typename... >
             class Control,
             pegtl::apply_mode A,
             pegtl::rewind_mode M,
             pegtl::tracking_mode T,
             typename Eol >
   void run_case( const char* case_id, const std::string& bytes, std::size_t ib, std::size_t il, std::size_t ic )
   {
      const std::size_t n = bytes.size();
      char* buf = new char[ n ];
      if( n != 0 ) {
         std::memcpy( buf, bytes.data(), n );
      }
      names_ptr() = &names_for< Tag >();
      messages_ptr() = &messages_for< Tag >();
      g_out.clear();
      g_steps = 0;
      g_oob = 0;
      g_out += "CASE ";
      g_out += case_id;
      g_out += '\n';
      // announce the case before running it, so that a sanitizer abort can be attributed
      std::fwrite( g_out.data(), 1, g_out.size(), stdout );
      std::fflush( stdout );
      g_out.clear();
      {
         pegtl::input_with_depth< pegtl::memory_input< T, Eol, std::string > > in( buf, buf + n, "src", ib, il, ic );
         try {
            const bool r = pegtl::parse< Root, Action, Control, A, M >( in );
            g_out += r ? "R 1" : "R 0";
            emit_pos( in.position() );
            g_out += '\n';
         }
         catch( ... ) {
            g_out += "R 2";
            emit_pos( in.position() );
            g_out += ' ';
            describe_exception( std::current_exception() );
            g_out += '\n';
         }
         char b[ 96 ];
         std::snprintf( b, sizeof b, "O %d %zu %zu\n", g_oob != 0 ? 1 : 0, std::size_t( in.end() - in.begin() ), in.current_depth() );
         g_out += b;
      }
      g_out += "END\n";
      std::fwrite( g_out.data(), 1, g_out.size(), stdout );
      delete[] buf;
   }

   // A reader over the case's bytes that hands out one byte per call (buffer_input< ..., Chunk = 1 >).
   struct byte_reader
   {
      const char* p;
      std::size_t left;

      std::size_t operator()( char* buffer, const std::size_t length )
      {
         if( ( length == 0 ) || ( left == 0 ) ) {
            return 0;
         }
         *buffer = *p++;
         --left;
         return 1;
      }
   };

   // The same case over a buffer_input (capacity: the whole input, so never an overflow_error; fetched byte by byte): the marks of
   // the rewind guards, the action inputs and the positions are those of buffer_input — same trace as over a memory_input.
   template< typename Tag,
             typename Root,
             template< typename... >
             class Action,
             template< typename... >
             class Control,
             pegtl::apply_mode A,
             pegtl::rewind_mode M,
             typename Eol >
   void run_case_buf( const char* case_id, const std::string& bytes, std::size_t /*ib*/, std::size_t /*il*/, std::size_t /*ic*/ )
   {
      const std::size_t n = bytes.size();
      char* buf = new char[ n ];
      if( n != 0 ) {
         std::memcpy( buf, bytes.data(), n );
      }
      names_ptr() = &names_for< Tag >();
      messages_ptr() = &messages_for< Tag >();
      g_out.clear();
      g_steps = 0;
      g_oob = 0;
      g_out += "CASE ";
      g_out += case_id;
      g_out += '\n';
      std::fwrite( g_out.data(), 1, g_out.size(), stdout );
      std::fflush( stdout );
      g_out.clear();
      {
         pegtl::input_with_depth< pegtl::buffer_input< byte_reader, Eol, std::string, 1 > > in( "src", n + 16, byte_reader{ buf, n } );
         try {
            const bool r = pegtl::parse< Root, Action, Control, A, M >( in );
            g_out += r ? "R 1" : "R 0";
            emit_pos( in.position() );
            g_out += '\n';
         }
         catch( ... ) {
            g_out += "R 2";
            emit_pos( in.position() );
            g_out += ' ';
            describe_exception( std::current_exception() );
            g_out += '\n';
         }
         char b[ 96 ];
         std::snprintf( b, sizeof b, "O %d %zu %zu\n", 0, n, in.current_depth() );
         g_out += b;
      }
      g_out += "END\n";
      std::fwrite( g_out.data(), 1, g_out.size(), stdout );
      delete[] buf;
   }

   // C08: the same case through coverage< Root, Action, Control >(): the logging control wrapped by state_control<> must see
   // exactly what it sees in a plain parse, and the facility's own counters must balance for every rule and branch.
   template< template< typename... > class Control, int Mode >
   struct shuf_ctl
   {
      template< typename Rule >
      struct type
         : std::conditional_t< Mode == 4, pegtl::rotate_states_left< Control< Rule > >,
              std::conditional_t< Mode == 5, pegtl::rotate_states_right< Control< Rule > >,
                 std::conditional_t< Mode == 6, pegtl::reverse_states< Control< Rule > >,
                    std::conditional_t< Mode == 7, pegtl::remove_first_state< Control< Rule > >, pegtl::rotate_states_left< Control< Rule >, 2 > > > > >
      {};
   };

   template< typename Tag,
             typename Root,
             template< typename... >
             class Action,
             template< typename... >
             class Control,
             pegtl::tracking_mode T,
             typename Eol,
             int Mode = 1 >   // 1: coverage<>(), 2: tracer hiding internal rules, 3: tracer showing them (output discarded)
   void run_case_cov( const char* case_id, const std::string& bytes, std::size_t ib, std::size_t il, std::size_t ic )
   {
      const std::size_t n = bytes.size();
      char* buf = new char[ n ];
      if( n != 0 ) {
         std::memcpy( buf, bytes.data(), n );
      }
      names_ptr() = &names_for< Tag >();
      messages_ptr() = &messages_for< Tag >();
      g_out.clear();
      g_steps = 0;
      g_oob = 0;
      g_out += "CASE ";
      g_out += case_id;
      g_out += '\n';
      std::fwrite( g_out.data(), 1, g_out.size(), stdout );
      std::fflush( stdout );
      g_out.clear();
      {
         pegtl::input_with_depth< pegtl::memory_input< T, Eol, std::string > > in( buf, buf + n, "src", ib, il, ic );
         pegtl::coverage_result result;
         std::ostringstream sink;
         std::streambuf* const old_cerr = std::cerr.rdbuf( sink.rdbuf() );
         struct restore_cerr { std::streambuf* b; ~restore_cerr() { std::cerr.rdbuf( b ); } } rc{ old_cerr };
         try {
            bool r = false;
            if constexpr( Mode >= 4 ) {
               // the logging control as the Base of the state-shuffling adaptors of contrib/shuffle_states.hpp and
               // contrib/remove_first_state.hpp: every hook must be handed the tags in the documented order
               stag t0{ 0 }, t1{ 1 }, t2{ 2 };
               struct reset_shuf { ~reset_shuf() { g_shuf_n = -1; } } rs;
               const auto expect = []( std::initializer_list< int > e ) {
                  g_shuf_n = int( e.size() );
                  int i = 0;
                  for( const int x : e ) {
                     g_shuf_expect[ i++ ] = x;
                  }
               };
               if constexpr( Mode == 4 ) {        // rotate_states_left< Base >: ( a, b, c ) -> ( b, c, a )
                  expect( { 1, 2, 0 } );
                  r = pegtl::parse< Root, Action, shuf_ctl< Control, 4 >::template type >( in, t0, t1, t2 );
               }
               else if constexpr( Mode == 5 ) {   // rotate_states_right< Base >: ( a, b, c ) -> ( c, a, b )
                  expect( { 2, 0, 1 } );
                  r = pegtl::parse< Root, Action, shuf_ctl< Control, 5 >::template type >( in, t0, t1, t2 );
               }
               else if constexpr( Mode == 6 ) {   // reverse_states< Base >, two states
                  expect( { 1, 0 } );
                  r = pegtl::parse< Root, Action, shuf_ctl< Control, 6 >::template type >( in, t0, t1 );
               }
               else if constexpr( Mode == 7 ) {   // remove_first_state< Base >
                  expect( { 1, 2 } );
                  r = pegtl::parse< Root, Action, shuf_ctl< Control, 7 >::template type >( in, t0, t1, t2 );
               }
               else if constexpr( Mode == 10 ) {  // plain control, one state that reports copies
                  g_shuf_n = -1;
                  cwit w;
                  r = pegtl::parse< Root, Action, Control >( in, w );
               }
               else if constexpr( Mode == 8 ) {   // a single state: the overloads without a tuple
                  expect( { 0 } );
                  r = pegtl::parse< Root, Action, shuf_ctl< Control, 5 >::template type >( in, t0 );
               }
               else {                             // rotate_states_left< Base, 2 >, three states: ( a, b, c ) -> ( c, a, b )
                  expect( { 2, 0, 1 } );
                  r = pegtl::parse< Root, Action, shuf_ctl< Control, 9 >::template type >( in, t0, t1, t2 );
               }
            }
            else if constexpr( Mode == 1 ) {
               r = pegtl::coverage< Root, Action, Control >( in, result );
            }
            else if constexpr( Mode == 2 ) {
               pegtl::tracer< pegtl::tracer_traits< true, false, false > > tr( in );
               r = tr.template parse< Root, Action, Control >( in );
            }
            else {
               pegtl::tracer< pegtl::tracer_traits< false, false, true > > tr( in );
               r = tr.template parse< Root, Action, Control >( in );
            }
            g_out += r ? "R 1" : "R 0";
            emit_pos( in.position() );
            g_out += '\n';
         }
         catch( ... ) {
            g_out += "R 2";
            emit_pos( in.position() );
            g_out += ' ';
            describe_exception( std::current_exception() );
            g_out += '\n';
         }
         std::size_t bad = 0;
         for( const auto& [ name, e ] : result ) {
            if( e.start != e.success + e.failure + e.unwind ) {
               ++bad;
            }
            for( const auto& [ bn, b ] : e.branches ) {
               if( b.start != b.success + b.failure + b.unwind ) {
                  ++bad;
               }
            }
         }
         char b[ 96 ];
         if( bad != 0 ) {
            std::snprintf( b, sizeof b, "covbad %zu\n", bad );   // an extra line: disagrees with every model trace
            g_out += b;
         }
         std::snprintf( b, sizeof b, "O %d %zu %zu\n", g_oob != 0 ? 1 : 0, std::size_t( in.end() - in.begin() ), in.current_depth() );
         g_out += b;
      }
      g_out += "END\n";
      std::fwrite( g_out.data(), 1, g_out.size(), stdout );
      delete[] buf;
   }

   // C12: the same case through parse_tree::parse, with the logging control underneath the tree-building control and one
   // user state (depth 0) that must reach the actions unchanged (rotate_states_right / remove_first_state).
   struct vroot : vstate_base
   {};

   inline void dump_tree( const pegtl::parse_tree::node& n, const int depth )
   {
      for( const auto& c : n.children ) {
         int id = -2;
         const auto it = names().find( std::string( c->type ) );
         if( it != names().end() ) {
            id = it->second;
         }
         char b[ 64 ];
         std::snprintf( b, sizeof b, "T %d %d", depth, id );
         g_out += b;
         emit_pos( c->begin() );
         if( c->has_content() ) {
            emit_pos( c->end() );
         }
         else {
            g_out += " -";
         }
         g_out += '\n';
         dump_tree( *c, depth + 1 );
      }
   }

   inline std::size_t count_tree( const pegtl::parse_tree::node& n )
   {
      std::size_t k = 0;
      for( const auto& c : n.children ) {
         k += 1 + count_tree( *c );
      }
      return k;
   }

   template< typename Tag,
             typename Root,
             template< typename... >
             class Selector,
             template< typename... >
             class Action,
             template< typename... >
             class Control,
             pegtl::tracking_mode T,
             typename Eol >
   void run_case_tree( const char* case_id, const std::string& bytes, std::size_t ib, std::size_t il, std::size_t ic )
   {
      const std::size_t n = bytes.size();
      char* buf = new char[ n ];
      if( n != 0 ) {
         std::memcpy( buf, bytes.data(), n );
      }
      names_ptr() = &names_for< Tag >();
      messages_ptr() = &messages_for< Tag >();
      g_out.clear();
      g_steps = 0;
      g_oob = 0;
      g_out += "CASE ";
      g_out += case_id;
      g_out += '\n';
      std::fwrite( g_out.data(), 1, g_out.size(), stdout );
      std::fflush( stdout );
      g_out.clear();
      {
         pegtl::input_with_depth< pegtl::memory_input< T, Eol, std::string > > in( buf, buf + n, "src", ib, il, ic );
         vroot root;
         std::unique_ptr< pegtl::parse_tree::node > tree;
         bool threw = false;
         try {
            tree = pegtl::parse_tree::parse< Root, pegtl::parse_tree::node, Selector, Action, Control >( in, root );
            g_out += tree ? "R 1" : "R 0";
            emit_pos( in.position() );
            g_out += '\n';
         }
         catch( ... ) {
            threw = true;
            g_out += "R 2";
            emit_pos( in.position() );
            g_out += ' ';
            describe_exception( std::current_exception() );
            g_out += '\n';
         }
         char b[ 96 ];
         std::snprintf( b, sizeof b, "O %d %zu %zu\n", g_oob != 0 ? 1 : 0, std::size_t( in.end() - in.begin() ), in.current_depth() );
         g_out += b;
         if( tree ) {
            if( !tree->is_root() || tree->has_content() ) {
               g_out += "TREE bad-root\n";
            }
            std::snprintf( b, sizeof b, "TREE %zu\n", count_tree( *tree ) );
            g_out += b;
            dump_tree( *tree, 0 );
         }
         else {
            g_out += "TREE none\n";
         }
         (void)threw;
      }
      g_out += "END\n";
      std::fwrite( g_out.data(), 1, g_out.size(), stdout );
      delete[] buf;
   }

}  // namespace vh

#endif
