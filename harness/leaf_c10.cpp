// leaf_c10.cpp — C10 correspondence driver: the real PEGTL `Peek` classes and single-unit rules
// on exact-size heap buffers (no terminator; ASan sees any read past the end).
//
// Line protocol (stdin -> stdout, one output line per input line; text after " ;" is the
// model-side description of the same object and is ignored here):
//   P <peek-id> <hex|->                 Peek::peek( in )            -> "<data>/<size>" or "-"
//   W <peek-id> <pre|-> <k> <suf|->     the same for all 256^k fillings of k free bytes between
//                                       prefix and suffix           -> 256^k tokens
//   M <rule-id> <hex|->                 parse< Rule >( in )         -> "<consumed>" on success, "-" on failure
//                                                                      ("!<n>" if a failed rule moved the cursor)
//   V <rule-id> <pre|-> <k> <suf|->     the same, swept             -> 256^k tokens
//   I <C>                               internal::ichar_equal< C >( c ) for c = 0..255 -> 256 chars 0/1
//
// The tables PEEK( id, type ) / RULE( id, type ) below are parsed by vlib/c10.py, which derives the
// model-side description of every entry from the C++ type expression.

#include <cstdint>
#include <cstdio>
#include <cstring>
#include <iostream>
#include <memory>
#include <string>
#include <type_traits>
#include <utility>
#include <vector>

#include <tao/pegtl.hpp>
#include <tao/pegtl/contrib/abnf.hpp>
#include <tao/pegtl/contrib/uint16.hpp>
#include <tao/pegtl/contrib/uint32.hpp>
#include <tao/pegtl/contrib/uint64.hpp>
#include <tao/pegtl/contrib/uint8.hpp>
#include <tao/pegtl/contrib/utf16.hpp>
#include <tao/pegtl/contrib/utf32.hpp>

#if !defined( __BYTE_ORDER__ ) || ( __BYTE_ORDER__ != __ORDER_LITTLE_ENDIAN__ )
#error "the C10 model transcribes the little-endian-host branch of endian_gcc.hpp"
#endif
static_assert( std::is_signed_v< char >, "the C10 model assumes a signed char (data_t of peek_char)" );

namespace pegtl = tao::pegtl;
using namespace tao::pegtl;  // NOLINT
using in_t = pegtl::memory_input< pegtl::tracking_mode::eager, pegtl::eol::lf_crlf, const char* >;

// clang-format off
#define PEEKS \
   PEEK( char,        internal::peek_char ) \
   PEEK( utf8,        internal::peek_utf8 ) \
   PEEK( utf16_be,    internal::peek_utf16_be ) \
   PEEK( utf16_le,    internal::peek_utf16_le ) \
   PEEK( utf32_be,    internal::peek_utf32_be ) \
   PEEK( utf32_le,    internal::peek_utf32_le ) \
   PEEK( uint8,       internal::peek_uint8 ) \
   PEEK( m8_0f,       internal::peek_mask_uint8< 0x0F > ) \
   PEEK( m8_a5,       internal::peek_mask_uint8< 0xA5 > ) \
   PEEK( uint16_be,   internal::peek_uint16_be ) \
   PEEK( uint16_le,   internal::peek_uint16_le ) \
   PEEK( m16_be,      internal::peek_mask_uint16_be< 0x0FF0 > ) \
   PEEK( m16_le,      internal::peek_mask_uint16_le< 0xF00F > ) \
   PEEK( uint32_be,   internal::peek_uint32_be ) \
   PEEK( uint32_le,   internal::peek_uint32_le ) \
   PEEK( m32_be,      internal::peek_mask_uint32_be< 0x00FFFF00 > ) \
   PEEK( m32_le,      internal::peek_mask_uint32_le< 0xFF0000FF > ) \
   PEEK( uint64_be,   internal::peek_uint64_be ) \
   PEEK( uint64_le,   internal::peek_uint64_le ) \
   PEEK( m64_be,      internal::peek_mask_uint64_be< 0x00FFFFFFFFFFFF00 > ) \
   PEEK( m64_le,      internal::peek_mask_uint64_le< 0xFF000000000000FF > )

#define RULES \
   RULE( alnum,            ascii::alnum ) \
   RULE( alpha,            ascii::alpha ) \
   RULE( any,              ascii::any ) \
   RULE( blank,            ascii::blank ) \
   RULE( digit,            ascii::digit ) \
   RULE( identifier_first, ascii::identifier_first ) \
   RULE( identifier_other, ascii::identifier_other ) \
   RULE( lower,            ascii::lower ) \
   RULE( nul,              ascii::nul ) \
   RULE( odigit,           ascii::odigit ) \
   RULE( print,            ascii::print ) \
   RULE( seven,            ascii::seven ) \
   RULE( space,            ascii::space ) \
   RULE( upper,            ascii::upper ) \
   RULE( xdigit,           ascii::xdigit ) \
   RULE( abnf.ALPHA,       abnf::ALPHA ) \
   RULE( abnf.BIT,         abnf::BIT ) \
   RULE( abnf.CHAR,        abnf::CHAR ) \
   RULE( abnf.CR,          abnf::CR ) \
   RULE( abnf.CTL,         abnf::CTL ) \
   RULE( abnf.DIGIT,       abnf::DIGIT ) \
   RULE( abnf.DQUOTE,      abnf::DQUOTE ) \
   RULE( abnf.HEXDIG,      abnf::HEXDIG ) \
   RULE( abnf.HTAB,        abnf::HTAB ) \
   RULE( abnf.LF,          abnf::LF ) \
   RULE( abnf.OCTET,       abnf::OCTET ) \
   RULE( abnf.SP,          abnf::SP ) \
   RULE( abnf.VCHAR,       abnf::VCHAR ) \
   RULE( abnf.WSP,         abnf::WSP ) \
   RULE( a_one,            ascii::one< 'a', 'Z', '\n', '~' > ) \
   RULE( a_one_hi,         ascii::one< static_cast< char >( 0xE4 ), static_cast< char >( 0x80 ), static_cast< char >( 0xFF ) > ) \
   RULE( a_one_none,       ascii::one<> ) \
   RULE( a_not_one,        ascii::not_one< 'a', '\r', static_cast< char >( 0xFF ) > ) \
   RULE( a_not_one_none,   ascii::not_one<> ) \
   RULE( a_range,          ascii::range< 'd', 'q' > ) \
   RULE( a_range_same,     ascii::range< 'x', 'x' > ) \
   RULE( a_range_hi,       ascii::range< static_cast< char >( 0x80 ), static_cast< char >( 0xBF ) > ) \
   RULE( a_range_wrap,     ascii::range< static_cast< char >( 0xF0 ), static_cast< char >( 0x10 ) > ) \
   RULE( a_not_range,      ascii::not_range< '0', '9' > ) \
   RULE( a_ranges_even,    ascii::ranges< 'a', 'f', '0', '3', 'X', 'X' > ) \
   RULE( a_ranges_odd,     ascii::ranges< 'A', 'F', '5', '9', '_' > ) \
   RULE( a_ranges_none,    ascii::ranges<> ) \
   RULE( a_ranges_one,     ascii::ranges< '$' > ) \
   RULE( a_ranges_pair,    ascii::ranges< '(', '/' > ) \
   RULE( u8_any,           utf8::any ) \
   RULE( u8_bom,           utf8::bom ) \
   RULE( u8_one,           utf8::one< 0x41, 0xE4, 0x20AC, 0x10FFFF, 0xD800, 0x110000 > ) \
   RULE( u8_not_one,       utf8::not_one< 0x7F, 0x80, 0x7FF, 0x800, 0xFFFF, 0x10000 > ) \
   RULE( u8_range,         utf8::range< 0x7F, 0x800 > ) \
   RULE( u8_not_range,     utf8::not_range< 0xD7FF, 0xE000 > ) \
   RULE( u8_ranges,        utf8::ranges< 0x20, 0x7E, 0xA0, 0xD7FF, 0xE000, 0xFFFD, 0x10000, 0x10FFFF, 0x85 > ) \
   RULE( u16be_any,        utf16_be::any ) \
   RULE( u16le_any,        utf16_le::any ) \
   RULE( u16be_bom,        utf16_be::bom ) \
   RULE( u16le_one,        utf16_le::one< 0x41, 0x20AC, 0xFFFF, 0x10000, 0x10FFFF, 0xDC00 > ) \
   RULE( u16be_range,      utf16_be::range< 0xD7FF, 0x10000 > ) \
   RULE( u16le_not_range,  utf16_le::not_range< 0x100, 0xFFFF > ) \
   RULE( u16be_ranges,     utf16_be::ranges< 0x0, 0xFF, 0x10000, 0x1FFFF, 0xFEFF > ) \
   RULE( u32be_any,        utf32_be::any ) \
   RULE( u32le_any,        utf32_le::any ) \
   RULE( u32le_bom,        utf32_le::bom ) \
   RULE( u32be_one,        utf32_be::one< 0x0, 0xD7FF, 0xE000, 0x10FFFF, 0x110000, 0xDFFF > ) \
   RULE( u32le_range,      utf32_le::range< 0xD000, 0xEFFF > ) \
   RULE( u32be_not_one,    utf32_be::not_one< 0x10FFFF, 0x41 > ) \
   RULE( b8_any,           uint8::any ) \
   RULE( b8_one,           uint8::one< 0x00, 0x7F, 0x80, 0xFF > ) \
   RULE( b8_range,         uint8::range< 0x70, 0x90 > ) \
   RULE( b8_not_range,     uint8::not_range< 0x01, 0xFE > ) \
   RULE( b8_mask_one,      uint8::mask_one< 0xF0, 0x30, 0x35, 0xA0 > ) \
   RULE( b8_mask_range,    uint8::mask_range< 0x0F, 0x03, 0x0C > ) \
   RULE( b8_mask_not_one,  uint8::mask_not_one< 0x81, 0x80, 0x01 > ) \
   RULE( b16be_any,        uint16_be::any ) \
   RULE( b16be_one,        uint16_be::one< 0x0102, 0xFFFE, 0x8000 > ) \
   RULE( b16le_range,      uint16_le::range< 0x00FF, 0x0100 > ) \
   RULE( b16le_mask_one,   uint16_le::mask_one< 0xFF00, 0x1200, 0x1234 > ) \
   RULE( b16be_mask_range, uint16_be::mask_range< 0x0FF0, 0x0100, 0x0800 > ) \
   RULE( b16le_mask_ranges, uint16_le::mask_ranges< 0x00FF, 0x10, 0x20, 0x80, 0x90, 0xFF > ) \
   RULE( b32be_any,        uint32_be::any ) \
   RULE( b32le_one,        uint32_le::one< 0x01020304, 0xFFFFFFFF, 0x80000000 > ) \
   RULE( b32be_range,      uint32_be::range< 0x7FFFFFFF, 0x80000001 > ) \
   RULE( b32le_mask_one,   uint32_le::mask_one< 0xFFFF0000, 0x12340000, 0x00005678 > ) \
   RULE( b32be_mask_not_range, uint32_be::mask_not_range< 0x0000FFFF, 0x1000, 0x2000 > ) \
   RULE( b64le_any,        uint64_le::any ) \
   RULE( b64be_one,        uint64_be::one< 0x0102030405060708, 0xFFFFFFFFFFFFFFFF, 0x8000000000000000 > ) \
   RULE( b64le_range,      uint64_le::range< 0x00000000FFFFFFFF, 0x0000000100000001 > ) \
   RULE( b64be_mask_one,   uint64_be::mask_one< 0xFF000000000000FF, 0x1200000000000034, 0x0000000000001234 > ) \
   RULE( b64le_mask_range, uint64_le::mask_range< 0x0000FFFFFFFF0000, 0x0000000100000000, 0x0000000200000000 > ) \
   RULE( a_not_range_same, ascii::not_range< 'x', 'x' > ) \
   RULE( u8_range_same,    utf8::range< 0x20AC, 0x20AC > ) \
   RULE( u8_not_range_same, utf8::not_range< 0xE4, 0xE4 > ) \
   RULE( u8_one_none,      utf8::one<> ) \
   RULE( u8_not_one_none,  utf8::not_one<> ) \
   RULE( u8_ranges_pair,   utf8::ranges< 0x80, 0x7FF > ) \
   RULE( u8_ranges_one,    utf8::ranges< 0x20AC > ) \
   RULE( u8_ranges_none,   utf8::ranges<> ) \
   RULE( u16be_not_range_same, utf16_be::not_range< 0x10000, 0x10000 > ) \
   RULE( u16le_range_same, utf16_le::range< 0xFFFF, 0xFFFF > ) \
   RULE( u32le_not_range_same, utf32_le::not_range< 0x41, 0x41 > ) \
   RULE( b8_not_range_same, uint8::not_range< 0x80, 0x80 > ) \
   RULE( b8_mask_not_range_same, uint8::mask_not_range< 0xF0, 0x30, 0x30 > ) \
   RULE( b8_mask_ranges_pair, uint8::mask_ranges< 0x0F, 0x03, 0x05 > ) \
   RULE( b16be_not_range_same, uint16_be::not_range< 0x1234, 0x1234 > ) \
   RULE( b16le_mask_not_range_same, uint16_le::mask_not_range< 0x00FF, 0x34, 0x34 > ) \
   RULE( b32be_range_same, uint32_be::range< 0x80000000, 0x80000000 > ) \
   RULE( b32le_not_one_none, uint32_le::not_one<> ) \
   RULE( b64le_not_range_same, uint64_le::not_range< 0x0102030405060708, 0x0102030405060708 > ) \
   RULE( i_one,            ascii::istring< 'k' > ) \
   RULE( i_mixed,          ascii::istring< 'a', 'Z', '1', '@', '[', '`', '{' > ) \
   RULE( i_hi,             ascii::istring< 'z', static_cast< char >( 0xE4 ), 'A' > ) \
   RULE( i_empty,          ascii::istring<> )
// clang-format on

static int hexval( char c )
{
   if( c >= '0' && c <= '9' ) return c - '0';
   if( c >= 'a' && c <= 'f' ) return c - 'a' + 10;
   if( c >= 'A' && c <= 'F' ) return c - 'A' + 10;
   return -1;
}

static std::vector< unsigned char > unhex( const std::string& h )
{
   std::vector< unsigned char > r;
   if( h == "-" ) return r;
   for( std::size_t i = 0; i + 1 < h.size(); i += 2 ) {
      r.push_back( static_cast< unsigned char >( hexval( h[ i ] ) * 16 + hexval( h[ i + 1 ] ) ) );
   }
   return r;
}

struct heap_buf
{
   std::unique_ptr< char[] > p;
   std::size_t n;
   explicit heap_buf( const std::vector< unsigned char >& v )
      : p( new char[ v.size() ] ), n( v.size() )
   {
      if( n ) std::memcpy( p.get(), v.data(), n );
   }
};

// A reader handing out one byte per call: over a buffer_input every peek / rule has to ask for the bytes it reads.
struct mem_reader
{
   const char* p;
   std::size_t left;

   std::size_t operator()( char* buffer, const std::size_t length )
   {
      if( ( length == 0 ) || ( left == 0 ) ) {
         return 0;
      }
      *buffer = *p++;
      --left;
      return 1;
   }
};

using buf_t = pegtl::buffer_input< mem_reader, pegtl::eol::lf_crlf, std::string, 1 >;

template< typename Peek >
static void peek_token( std::string& out, const char* b, std::size_t n )
{
   in_t in( b, b + n, "" );
   const auto t = Peek::peek( in );
   {
      // the same peek on a buffer input that has fetched nothing yet: same pair, or the class depends on the input class
      buf_t bin( "", n + 16, mem_reader{ b, n } );
      const auto tb = Peek::peek( bin );
      if( ( tb.size != t.size ) || ( ( t.size != 0 ) && ( tb.data != t.data ) ) ) {
         out += "~B";
      }
   }
   if( t.size == 0 ) {
      // the falsy pair must be { 0, 0 }
      out += ( t.data == 0 ) ? "-" : "-?";
      return;
   }
   using D = typename Peek::data_t;
   if constexpr( std::is_signed_v< D > ) {
      out += std::to_string( static_cast< long long >( t.data ) );
   }
   else {
      out += std::to_string( static_cast< unsigned long long >( t.data ) );
   }
   out += '/';
   out += std::to_string( static_cast< unsigned >( t.size ) );
}

template< typename Rule >
static void rule_token( std::string& out, const char* b, std::size_t n )
{
   in_t in( b, b + n, "" );
   const bool r = pegtl::parse< Rule >( in );
   const std::size_t used = in.byte();
   {
      buf_t bin( "", n + 16, mem_reader{ b, n } );
      const bool rb = pegtl::parse< Rule >( bin );
      if( ( rb != r ) || ( bin.byte() != used ) ) {
         out += "~B";
      }
   }
   if( r ) {
      out += std::to_string( used );
   }
   else if( used == 0 ) {
      out += '-';
   }
   else {
      out += '!';
      out += std::to_string( used );
   }
}

using token_fn = void ( * )( std::string&, const char*, std::size_t );

static token_fn find_peek( const std::string& id )
{
#define PEEK( ID, ... ) \
   if( id == #ID ) return &peek_token< __VA_ARGS__ >;
   PEEKS
#undef PEEK
   return nullptr;
}

static token_fn find_rule( const std::string& id )
{
#define RULE( ID, ... ) \
   if( id == #ID ) return &rule_token< __VA_ARGS__ >;
   RULES
#undef RULE
   return nullptr;
}

template< std::size_t... Is >
static void ichar_row( std::string& out, unsigned C, std::index_sequence< Is... > /*unused*/ )
{
   using fn = bool ( * )( char );
   static constexpr fn table[] = { &internal::ichar_equal< static_cast< char >( static_cast< unsigned char >( Is ) ) >... };
   for( unsigned c = 0; c < 256; ++c ) {
      out += table[ C ]( static_cast< char >( static_cast< unsigned char >( c ) ) ) ? '1' : '0';
   }
}

static void sweep( std::string& out, token_fn f, const std::vector< unsigned char >& pre, unsigned k, const std::vector< unsigned char >& suf )
{
   std::vector< unsigned char > v( pre );
   v.resize( pre.size() + k );
   v.insert( v.end(), suf.begin(), suf.end() );
   heap_buf hb( v );
   unsigned long total = 1;
   for( unsigned i = 0; i < k; ++i ) total *= 256;
   for( unsigned long x = 0; x < total; ++x ) {
      for( unsigned i = 0; i < k; ++i ) {
         hb.p[ pre.size() + i ] = static_cast< char >( ( x >> ( 8 * ( k - 1 - i ) ) ) & 0xFF );
      }
      if( x ) out += ' ';
      f( out, hb.p.get(), hb.n );
   }
}

int main()
{
   std::ios::sync_with_stdio( false );
   std::string line;
   std::string out;
   while( std::getline( std::cin, line ) ) {
      const auto semi = line.find( " ;" );
      if( semi != std::string::npos ) line.resize( semi );
      std::vector< std::string > w;
      std::size_t i = 0;
      while( i < line.size() ) {
         while( i < line.size() && line[ i ] == ' ' ) ++i;
         std::size_t j = i;
         while( j < line.size() && line[ j ] != ' ' ) ++j;
         if( j > i ) w.push_back( line.substr( i, j - i ) );
         i = j;
      }
      out.clear();
      if( w.empty() ) {
         out = "?";
      }
      else if( ( w[ 0 ] == "P" || w[ 0 ] == "M" ) && w.size() == 3 ) {
         const token_fn f = ( w[ 0 ] == "P" ) ? find_peek( w[ 1 ] ) : find_rule( w[ 1 ] );
         if( !f ) {
            out = "?";
         }
         else {
            heap_buf hb( unhex( w[ 2 ] ) );
            f( out, hb.p.get(), hb.n );
         }
      }
      else if( ( w[ 0 ] == "W" || w[ 0 ] == "V" ) && w.size() == 5 ) {
         const token_fn f = ( w[ 0 ] == "W" ) ? find_peek( w[ 1 ] ) : find_rule( w[ 1 ] );
         const unsigned k = static_cast< unsigned >( std::stoul( w[ 3 ] ) );
         if( !f || k > 2 ) {
            out = "?";
         }
         else {
            sweep( out, f, unhex( w[ 2 ] ), k, unhex( w[ 4 ] ) );
         }
      }
      else if( w[ 0 ] == "I" && w.size() == 2 ) {
         ichar_row( out, static_cast< unsigned >( std::stoul( w[ 1 ] ) ) & 0xFF, std::make_index_sequence< 256 >() );
      }
      else {
         out = "?";
      }
      out += '\n';
      std::fwrite( out.data(), 1, out.size(), stdout );
      std::fflush( stdout );  // a sanitizer abort must not lose the lines already answered
   }
   return 0;
}
