// verif_hook.hpp — definition of the TAO_PEGTL_VERIF hook declared in memory_input.hpp:
// counts reads and advances outside the input window [ current(), end() ).
#ifndef VERIF_HOOK_HPP
#define VERIF_HOOK_HPP
#include <cstddef>
namespace vh
{
   inline long g_oob = 0;
}
extern "C" inline void tao_pegtl_verif_out_of_window( const void* /*unused*/, std::size_t /*unused*/, std::size_t /*unused*/ ) noexcept
{
   ++vh::g_oob;
}
#endif
