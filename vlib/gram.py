"""gram.py — grammars as data: a builder with PEGTL's public rule names, the resolver that
mirrors the template inheritance / alias structure of include/tao/pegtl/{rules,ascii}.hpp and
internal/*.hpp (which `match()` body a type ends up with, and which hidden internal:: types the
variadic forms create), and the two emitters: node-table lines for the Lean driver and C++
source for the harness.

The resolver is part of the trusted tie (DESIGN §2.4); any divergence from what the C++
templates really do shows up as a trace disagreement (unknown types are logged with id -1).
"""
from __future__ import annotations
from dataclasses import dataclass, field
import re as _re
from typing import Any, Dict, List, Optional, Tuple

# ---------------------------------------------------------------- type expressions


@dataclass(frozen=True)
class Ref:
    """A named rule `struct nK`."""
    id: int


@dataclass(frozen=True)
class T:
    """A template-id. ns = 'pub' (tao::pegtl::) or 'int' (tao::pegtl::internal::)."""
    ns: str
    name: str
    args: tuple  # of Ref | T | ('n', int) | ('c', int) | ('b', bool) | ('x', str)


def N(v):
    return ('n', int(v))


def C(v):
    return ('c', int(v))


def B(v):
    return ('b', bool(v))


def X(s):
    return ('x', s)


def FAM(f):
    return ('f', int(f))


def RACT(rid, is_bool=False, veto=0, thr=0, std=False):
    return ('r', (int(rid), bool(is_bool), int(veto), int(thr), bool(std)))


def RACT0(rid, is_bool=False, veto=False, thr=False, std=False):
    """An action class for the `apply0< A... >` rule (ids from 3000000: their calls carry no position).  In the model it is a
    rule-level action whose decisions are constants: vetoMod / throwMod are 1 (always) or 0 (never)."""
    assert int(rid) >= 3000000
    return ('r', (int(rid), bool(is_bool), 1 if veto else 0, 1 if thr else 0, bool(std)))


def CTL(k):
    return ('k', int(k))


def STATE(dflt):
    return ('s', int(bool(dflt)))


def spell_arg(a, nsname) -> str:
    if isinstance(a, Ref):
        return f"{nsname}::n{a.id}"
    if isinstance(a, T):
        return spell(a, nsname)
    k, v = a
    if k == 'n':
        return str(v)
    if k == 'c':
        return f"char({v})" if v < 128 else f"char({v - 256})"
    if k == 'b':
        return 'true' if v else 'false'
    if k == 'x':
        return v
    if k == 'f':            # action family (class template act<v> of the grammar's namespace)
        return f"{nsname}::act{v}"
    if k == 'r':            # rule-level action class named by apply< … > / if_apply< R, … >: (id, isBool, vetoMod, throwMod, throwStd)
        rid, is_bool, veto, thr, std = v
        if rid >= 3000000:      # apply0< … >
            if is_bool:
                return f"vh::ract0_bool< {nsname}::tag, {rid}, {'true' if veto else 'false'}, {'true' if thr else 'false'}, {'true' if std else 'false'} >"
            return f"vh::ract0_void< {nsname}::tag, {rid}, {'true' if thr else 'false'}, {'true' if std else 'false'} >"
        if is_bool:
            return f"vh::ract_bool< {nsname}::tag, {rid}, {veto}, {thr}, {'true' if std else 'false'} >"
        return f"vh::ract_void< {nsname}::tag, {rid}, {thr}, {'true' if std else 'false'} >"
    if k == 'k':            # control family (class template ctl<v> of the grammar's namespace)
        return f"{nsname}::ctl{v}"
    if k == 's':            # state type: 1 = default-constructed only, 0 = constructed from ( in, outer... )
        return 'vh::vstate_d' if v else 'vh::vstate_c'
    raise ValueError(a)


def spell(t, nsname) -> str:
    if isinstance(t, Ref):
        return f"{nsname}::n{t.id}"
    pre = "tao::pegtl::" if t.ns == 'pub' else "tao::pegtl::internal::"
    if t.ns == 'pub' and t.name == 'if_then_chain':
        # pseudo rule for the member aliases of contrib/if_then.hpp: args = ( N pairs, C1, T1, …, CN, TN [, Else] ) is spelled
        # if_then< C1, T1 >::else_if_then< C2, T2 >::…[::else_then< Else >]
        np = t.args[0][1]
        xs = [spell_arg(x, nsname) for x in t.args[1:]]
        out = f"tao::pegtl::if_then< {xs[0]}, {xs[1]} >"
        for k in range(1, np):
            out += f"::else_if_then< {xs[2 * k]}, {xs[2 * k + 1]} >"
        if len(xs) > 2 * np:
            out += f"::else_then< {xs[2 * np]} >"
        return out
    if not t.args and t.name in NON_TEMPLATES:
        return pre + t.name
    return pre + t.name + "< " + ", ".join(spell_arg(a, nsname) for a in t.args) + " >"


NON_TEMPLATES = {'eof', 'bof', 'bol', 'eol', 'eolf', 'success', 'failure', 'any', 'everything', 'discard',
                 'identifier', 'identifier_first', 'identifier_other', 'alnum', 'alpha', 'blank', 'digit',
                 'lower', 'upper', 'xdigit', 'space', 'print', 'seven', 'nul', 'odigit', 'ellipsis', 'shebang'}

SUCCESS_RES = X('tao::pegtl::internal::result_on_found::success')
FAILURE_RES = X('tao::pegtl::internal::result_on_found::failure')
PEEK_CHAR = X('tao::pegtl::internal::peek_char')
PEEK_UTF8 = X('tao::pegtl::internal::peek_utf8')
TYPE_MAX = {'std::uint8_t': 255, 'std::uint16_t': 65535, 'std::uint32_t': 4294967295, 'std::uint64_t': 18446744073709551615,
            'unsigned char': 255, 'unsigned short': 65535, 'unsigned': 4294967295, 'unsigned int': 4294967295}


def I(name, *args):
    return T('int', name, tuple(args))


def P(name, *args):
    return T('pub', name, tuple(args))


def is_type(a):
    return isinstance(a, (Ref, T))


# ---------------------------------------------------------------- public -> internal (rules.hpp, ascii.hpp)

def public_base(t: T):
    """The internal type a public rule template derives from (rules.hpp / ascii.hpp)."""
    n, a = t.name, list(t.args)
    simple = {'at', 'disable', 'enable', 'not_at', 'opt', 'partial', 'plus', 'rematch', 'rep', 'rep_min_max',
              'rep_opt', 'seq', 'sor', 'star', 'star_partial', 'star_strict', 'strict', 'until', 'if_then_else',
              'must', 'bytes', 'require', 'string', 'istring', 'minus', 'rep_min', 'if_must_else', 'star_must',
              'pad_opt', 'rep_one_min_max', 'rep_string', 'separated_seq', 'if_then', 'if_then_chain'}
    if n in simple:
        return I(n, *a)
    if n in ('eof', 'bof', 'bol', 'eolf', 'success', 'failure', 'identifier', 'identifier_first', 'identifier_other'):
        return I(n)
    if n == 'eol':  # struct eol : internal::eol (eol.hpp)
        return I('eol')
    if n == 'any':
        return I('any', PEEK_CHAR)
    if n == 'everything':
        return I('everything', X('std::size_t'))
    if n == 'one':
        return I('one', SUCCESS_RES, PEEK_CHAR, *a)
    if n == 'not_one':
        return I('one', FAILURE_RES, PEEK_CHAR, *a)
    if n == 'range':
        return I('range', SUCCESS_RES, PEEK_CHAR, *a)
    if n == 'not_range':
        return I('range', FAILURE_RES, PEEK_CHAR, *a)
    if n == 'ranges':
        return I('ranges', PEEK_CHAR, *a)
    if n in ('predicates_and', 'predicates_or', 'predicate_not'):      # contrib/predicates.hpp (ascii)
        return I('predicates', X({'predicates_and': 'and', 'predicates_or': 'or', 'predicate_not': 'not'}[n]), *a)
    if n == 'two':
        return I('string', a[0], a[0])
    if n == 'three':
        return I('string', a[0], a[0], a[0])
    if n == 'keyword':
        return I('seq', I('string', *a), I('not_at', I('identifier_other')))
    if n == 'shebang':
        return I('seq', I('string', C(35), C(33)), I('until', I('eolf')))
    if n == 'digit':
        return I('range', SUCCESS_RES, PEEK_CHAR, C(48), C(57))
    if n == 'alpha':
        return I('ranges', PEEK_CHAR, C(97), C(122), C(65), C(90))
    # the other classes of ascii.hpp
    if n == 'alnum':
        return I('ranges', PEEK_CHAR, C(97), C(122), C(65), C(90), C(48), C(57))
    if n == 'xdigit':
        return I('ranges', PEEK_CHAR, C(48), C(57), C(97), C(102), C(65), C(70))
    if n == 'blank':
        return I('one', SUCCESS_RES, PEEK_CHAR, C(32), C(9))
    if n == 'space':
        return I('one', SUCCESS_RES, PEEK_CHAR, C(32), C(10), C(13), C(9), C(11), C(12))
    if n == 'nul':
        return I('one', SUCCESS_RES, PEEK_CHAR, C(0))
    if n in ('lower', 'upper', 'odigit', 'print', 'seven'):
        lo, hi = {'lower': (97, 122), 'upper': (65, 90), 'odigit': (48, 55), 'print': (32, 126), 'seven': (0, 127)}[n]
        return I('range', SUCCESS_RES, PEEK_CHAR, C(lo), C(hi))
    if n == 'ellipsis':
        return I('string', C(46), C(46), C(46))
    if n == 'rep_max':
        return I('rep_min_max', N(0), *a)
    if n == 'if_must':
        return I('if_must', B(False), *a)
    if n == 'opt_must':
        return I('if_must', B(True), *a)
    if n == 'list':
        if len(a) == 3:
            return I('list', a[0], I('pad', a[1], a[2]))
        return I('list', *a)
    if n == 'list_must':
        if len(a) == 3:
            return I('list_must', a[0], I('pad', a[1], a[2]))
        return I('list_must', *a)
    if n == 'list_tail':
        if len(a) == 3:
            return I('list_tail_pad', *a)
        return I('list_tail', *a)
    if n == 'pad':
        return I('pad', *a)
    if n == 'raise':
        return I('raise', *a)
    if n in ('if_apply', 'apply', 'apply0'):
        return I(n, *a)
    if n == 'raise_message':         # struct raise_message< Cs... > : internal::raise< raise_message< Cs... > > { error_message = Cs... }
        return I('raise', P('raise_message', *a))
    if n == 'forty_two':
        return I('rep', N(42), I('one', SUCCESS_RES, PEEK_CHAR, *a))
    if n == 'try_catch_return_false':
        return I('try_catch_return_false', X('tao::pegtl::parse_error_base'), *a)
    if n == 'try_catch_raise_nested':
        return I('try_catch_raise_nested', X('tao::pegtl::parse_error_base'), *a)
    if n == 'try_catch_any_return_false':
        return I('try_catch_return_false', X('void'), *a)
    if n == 'try_catch_any_raise_nested':
        return I('try_catch_raise_nested', X('void'), *a)
    if n == 'try_catch_std_return_false':
        return I('try_catch_return_false', X('std::exception'), *a)
    if n == 'try_catch_std_raise_nested':
        return I('try_catch_raise_nested', X('std::exception'), *a)
    if n == 'try_catch_type_return_false':     # the exception type is the first template argument
        return I('try_catch_return_false', *a)
    if n == 'try_catch_type_raise_nested':
        return I('try_catch_raise_nested', *a)
    if n == 'action':
        return I('action', *a)
    if n == 'state':
        return I('state', *a)
    if n == 'control':
        return I('control', *a)
    if n == 'utf8::range':
        return I('range', SUCCESS_RES, PEEK_UTF8, *a)
    if n == 'utf8::not_range':
        return I('range', FAILURE_RES, PEEK_UTF8, *a)
    if n == 'maximum_rule':
        return I('maximum_rule_atom', *a)
    raise ValueError(f"unknown public rule {n}")


# ---------------------------------------------------------------- alias templates (internal/*.hpp `using`)

def expand_alias(t: T):
    """internal:: alias templates name the same type as their expansion."""
    if t.ns != 'int':
        return t
    n, a = t.name, list(t.args)
    if n == 'list':
        return I('seq', a[0], I('star', a[1], a[0]))
    if n == 'list_must':
        return I('seq', a[0], I('star', a[1], I('must', a[0])))
    if n == 'list_tail':
        return I('seq', a[0], I('star_partial', a[1], a[0]))
    if n == 'list_tail_pad':
        return I('seq', a[0], I('star_partial', I('lpad', a[1], a[2]), I('lpad', a[0], a[2])))
    if n == 'lpad':
        return I('seq', I('star', a[1]), a[0])
    if n == 'pad':
        p2 = a[2] if len(a) > 2 else a[1]
        return I('seq', I('star', a[1]), a[0], I('star', p2))
    if n == 'pad_opt':
        return I('seq', I('star', a[1]), I('opt', a[0], I('star', a[1])))
    if n == 'minus':
        return I('rematch', a[0], I('not_at', a[1], I('eof')))
    # contrib/rep_string.hpp, contrib/separated_seq.hpp, contrib/if_then.hpp: pure template metaprogramming over string / seq / if_then_else
    if n == 'rep_string':          # rep_string< N, Cs... > : internal::string< Cs... repeated N times >
        cnt = a[0][1]
        return I('string', *(list(a[1:]) * cnt))
    if n == 'separated_seq':       # separated_seq< S, R1, …, Rn > : internal::seq< R1, S, R2, S, …, Rn >
        sep, rs = a[0], a[1:]
        parts = []
        for k, r in enumerate(rs):
            if k:
                parts.append(sep)
            parts.append(r)
        return I('seq', *parts)
    if n == 'if_then' and a and not (isinstance(a[0], T) and a[0].name == 'if_pair'):
        # if_then< C, T... > : internal::if_then< if_pair< C, seq< T... > > >   (body_of_internal: if_then_else< C, seq< T... >, internal::if_then<> >)
        return I('if_then', I('if_pair', a[0], I('seq', *a[1:])))
    if n == 'if_then_chain':       # internal::if_then< if_pair< C1, seq< T1 > >, …, [ if_pair< success, seq< Else > > ] >, each level an if_then_else
        np = a[0][1]
        pairs = [I('if_pair', a[1 + 2 * k], I('seq', a[2 + 2 * k])) for k in range(np)]
        if len(a) > 1 + 2 * np:      # else_then: if_then_else< C1, Then1, if_then< Pairs..., if_pair< success, seq< Else > > > >
            pairs.append(I('if_pair', I('success'), I('seq', a[1 + 2 * np])))
            return I('if_then_else', pairs[0].args[0], pairs[0].args[1], I('if_then', *pairs[1:]))
        return I('if_then', *pairs)
    if n == 'star_must':
        return I('star', I('if_must', B(False), *a))
    if n == 'if_must_else':
        return I('if_then_else', a[0], I('must', a[1]), I('must', a[2]))
    if n == 'rep_min':
        return I('seq', I('rep', *a), I('star', *a[1:]))
    if n == 'identifier_first':
        return I('ranges', PEEK_CHAR, C(97), C(122), C(65), C(90), C(95))
    if n == 'identifier_other':
        return I('ranges', PEEK_CHAR, C(97), C(122), C(65), C(90), C(48), C(57), C(95))
    if n == 'identifier':
        return I('seq', I('identifier_first'), I('star', I('identifier_other')))
    return t


def canon(t):
    """Expand aliases everywhere so that equal C++ types get equal keys."""
    if isinstance(t, Ref) or not isinstance(t, T):
        return t
    t2 = expand_alias(t)
    while t2 is not t:
        t = t2
        t2 = expand_alias(t)
    return T(t.ns, t.name, tuple(canon(x) if is_type(x) else x for x in t.args))


# ---------------------------------------------------------------- internal type -> match() body

def chars(args):
    return [v for (k, v) in args if k == 'c']


def byte_set_of(t) -> set:
    """Accept set (byte values 0..255) of a one-byte ascii rule: any, one, not_one, range, not_range, ranges, predicates_*."""
    if isinstance(t, T) and t.ns == 'pub':
        t = public_base(t)
    t = canon(t)
    n, a = t.name, list(t.args)
    if n == 'any':
        return set(range(256))
    if n == 'one':
        cs = set(chars(a[2:]))
        return cs if a[0] == SUCCESS_RES else set(range(256)) - cs
    if n == 'range':
        lo, hi = chars(a[2:])
        r = set(range(lo, hi + 1))
        return r if a[0] == SUCCESS_RES else set(range(256)) - r
    if n == 'ranges':
        cs = chars(a[1:])
        r = set()
        for i in range(len(cs) // 2):
            r |= set(range(cs[2 * i], cs[2 * i + 1] + 1))
        if len(cs) % 2 == 1:
            r.add(cs[-1])
        return r
    if n == 'predicates':
        subs = [byte_set_of(x) for x in a[1:] if is_type(x)]
        op = a[0][1]
        if op == 'and':
            r = set(range(256))
            for x in subs:
                r &= x
            return r
        if op == 'or':
            r = set()
            for x in subs:
                r |= x
            return r
        return set(range(256)) - subs[0]
    raise ValueError(f"not a one-byte rule: {n}")


def body_of_internal(t: T):
    """(kind, params) of the `match()` an internal type ends up with, following the
    specialisations and base classes in internal/*.hpp.  Type params are type expressions."""
    t = canon(t)
    n, a = t.name, list(t.args)
    ty = [x for x in a if is_type(x)]
    if n == 'seq':
        return ('atom', ['success']) if not ty else ('seq', [ty])
    if n == 'sor':
        return ('atom', ['failure']) if not ty else ('sor', [ty])
    if n in ('success', 'failure', 'eof', 'bof', 'bol', 'eol', 'eolf'):
        return ('atom', [n])
    if n == 'any':
        return ('atom', ['any'])
    if n == 'everything':
        return ('atom', ['everything'])
    if n == 'one':
        found = (a[0] == SUCCESS_RES)
        cs = chars(a[2:])
        if not cs:
            return ('atom', ['failure']) if found else ('atom', ['any'])
        return ('atom', ['one', found, cs])
    if n == 'maximum_rule_atom':
        return ('atom', ['maxDigits', TYPE_MAX[a[0][1]] if len(a) == 1 else a[1][1]])
    if n == 'range' and a[1] == PEEK_UTF8:
        lo, hi = [v for (k, v) in a[2:] if k == 'n']
        assert lo < hi
        return ('atom', ['utf8Range', a[0] == SUCCESS_RES, lo, hi])
    if n == 'range':
        found = (a[0] == SUCCESS_RES)
        lo, hi = chars(a[2:])
        if lo == hi:
            return ('atom', ['one', found, [lo]])
        return ('atom', ['range', found, lo, hi])
    if n == 'ranges':
        cs = chars(a[1:])
        if not cs:
            return ('atom', ['failure'])
        if len(cs) == 1:
            return ('atom', ['one', True, cs])
        if len(cs) == 2:
            return body_of_internal(I('range', SUCCESS_RES, PEEK_CHAR, C(cs[0]), C(cs[1])))
        pairs = [(cs[2 * i], cs[2 * i + 1]) for i in range(len(cs) // 2)]
        single = cs[-1] if len(cs) % 2 == 1 else None
        return ('atom', ['ranges', pairs, single])
    if n == 'string':
        cs = chars(a)
        return ('atom', ['success']) if not cs else ('atom', ['string', cs])
    if n == 'istring':
        cs = chars(a)
        return ('atom', ['success']) if not cs else ('atom', ['istring', cs])
    if n == 'predicates':
        # contrib/predicates.hpp: one byte is peeked and tested with the conjunction / disjunction / negation of the
        # sub-rules' test_one; the accept set is computed here and handed to the model as a `ranges` atom
        acc = sorted(byte_set_of(t))
        pairs = []
        for c in acc:
            if pairs and pairs[-1][1] == c - 1:
                pairs[-1][1] = c
            else:
                pairs.append([c, c])
        return ('atom', ['ranges', [(lo, hi) for lo, hi in pairs], None])
    if n == 'rep_one_min_max':      # contrib/rep_one_min_max.hpp
        return ('atom', ['repOne', a[0][1], a[1][1], a[2][1]])
    if n == 'bytes':
        k = a[0][1]
        return ('atom', ['success']) if k == 0 else ('atom', ['bytes', k])
    if n == 'require':
        k = a[0][1]
        return ('atom', ['success']) if k == 0 else ('atom', ['require', k])
    if n == 'star':
        if len(ty) == 1:
            return ('starPartial', [ty])
        return body_of_internal(I('star', I('seq', *ty)))
    if n == 'star_partial':
        return ('starPartial', [ty])
    if n == 'partial':
        return ('partialR', [ty])
    if n == 'opt':
        if not ty:
            return ('atom', ['success'])
        if len(ty) == 1:
            return ('partialR', [ty])
        return body_of_internal(I('opt', I('seq', *ty)))
    if n == 'plus':
        if len(ty) == 1:
            return ('plus', ty)
        return body_of_internal(I('plus', I('seq', *ty)))
    if n == 'at':
        if not ty:
            return ('atom', ['success'])
        if len(ty) == 1:
            return ('atR', ty)
        return body_of_internal(I('at', I('seq', *ty)))
    if n == 'not_at':
        if not ty:
            return ('atom', ['failure'])
        if len(ty) == 1:
            return ('notAt', ty)
        return body_of_internal(I('not_at', I('seq', *ty)))
    if n == 'until':
        if len(ty) == 1:
            return ('until1', ty)
        if len(ty) == 2:
            return ('until2', ty)
        return body_of_internal(I('until', ty[0], I('seq', *ty[1:])))
    if n == 'rep':
        k = a[0][1]
        if not ty:
            return ('atom', ['success'])
        if len(ty) > 1:
            return body_of_internal(I('rep', N(k), I('seq', *ty)))
        if k == 0:
            return ('atom', ['success'])
        return ('rep', [k, ty[0]])
    if n == 'rep_min_max':
        lo, hi = a[0][1], a[1][1]
        assert lo <= hi
        if not ty:
            return ('atom', ['failure'])
        if len(ty) > 1:
            return body_of_internal(I('rep_min_max', N(lo), N(hi), I('seq', *ty)))
        if lo == 0 and hi == 0:
            return body_of_internal(I('not_at', ty[0]))
        return ('repMinMax', [lo, hi, ty[0], I('not_at', ty[0])])
    if n == 'rep_opt':
        k = a[0][1]
        if not ty or k == 0:
            return ('atom', ['success'])
        if len(ty) > 1:
            return body_of_internal(I('rep_opt', N(k), I('seq', *ty)))
        return ('repOpt', [k, ty[0]])
    if n == 'if_then_else':
        return ('ifThenElse', ty)
    if n == 'strict':
        return ('strict', [ty[0], I('seq', *ty[1:])])
    if n == 'star_strict':
        return ('starStrict', [ty[0], I('seq', *ty[1:])])
    if n == 'rematch':
        return ('rematch', [ty[0], ty[1:]])
    if n == 'must':
        if not ty:
            return ('atom', ['success'])
        if len(ty) == 1:
            return ('must', ty)
        return ('seq', [[I('must', x) for x in ty]])
    if n == 'if_must':
        return ('ifMust', [a[0][1], ty[0], I('must', *ty[1:])])
    if n == 'raise':
        return ('raise', ty)
    if n in ('try_catch_return_false', 'try_catch_raise_nested'):
        # parse_error is the only class derived from parse_error_base that the library throws: catching it = catching the base
        ex = {'void': 'any', 'std::exception': 'std', 'tao::pegtl::parse_error_base': 'parse', 'tao::pegtl::parse_error': 'parse'}[a[0][1]]
        if not ty:
            return ('atom', ['success'])
        if len(ty) > 1:
            return body_of_internal(I(n, a[0], I('seq', *ty)))
        return ('tcrf' if n == 'try_catch_return_false' else 'tcrn', [ex, ty[0]])
    if n in ('enable', 'disable'):
        if not ty:
            return ('atom', ['success'])
        if len(ty) > 1:
            return body_of_internal(I(n, I('seq', *ty)))
        return (n, ty)
    if n == 'action':
        fam = a[0]
        if not ty:
            return ('atom', ['success'])
        if len(ty) > 1:
            return body_of_internal(I('action', fam, I('seq', *ty)))
        return ('action', [fam, ty[0]])
    if n == 'control':      # not part of the Lean model (C13: oracle-only)
        if not ty:
            return ('atom', ['success'])
        if len(ty) > 1:
            return body_of_internal(I('control', a[0], I('seq', *ty)))
        return ('control', [a[0], ty[0]])
    if n == 'if_then' and not a:     # internal::if_then<> : failure (hidden)
        return ('atom', ['failure'])
    if n == 'if_then':               # internal::if_then< if_pair< C, Then >, Pairs... > : if_then_else< C, Then, if_then< Pairs... > >
        return ('ifThenElse', [a[0].args[0], a[0].args[1], I('if_then', *a[1:])])
    if n == 'if_apply':
        acts = [x[1] for x in a if not is_type(x) and x[0] == 'r']
        return ('ifApply', [ty[0], acts])
    if n in ('apply', 'apply0'):
        # internal::apply0< A... >::match is internal::apply< A... >::match without the action input: the same conjunction
        acts = [x[1] for x in a if not is_type(x) and x[0] == 'r']
        return ('applyR', [acts])
    if n == 'state':
        if not ty:
            return ('atom', ['success'])
        if len(ty) > 1:
            return body_of_internal(I('state', a[0], I('seq', *ty)))
        return ('state', [a[0], ty[0]])
    raise ValueError(f"unknown internal template {n}")


# ---------------------------------------------------------------- grammar

@dataclass
class ActSpec:
    kind: str = 'none'      # none | apply | apply0
    is_bool: bool = False
    veto_mod: int = 0
    throw_mod: int = 0
    throw_std: bool = False
    wrap: str = 'none'      # none | ca:<fam> | da | ea | ld:<n> | lb:<n> | cs:<multi> | cas:<fam>:<multi>

    def proto(self):
        return f"{self.kind} {int(self.is_bool)} {self.veto_mod} {self.throw_mod} {int(self.throw_std)} {self.wrap}"


@dataclass
class NodeRec:
    id: int
    ctl: bool
    kind: str
    params: list          # ints / lists of ints / literals, children as node ids
    cpp: str              # C++ spelling of the type
    flavour: str          # named | pub | hidden


class Grammar:
    """A set of named rules plus everything reachable from them."""

    def __init__(self, gid: str):
        self.gid = gid
        self.ns = f"g_{gid}"
        self.named: Dict[int, T] = {}          # named rule id -> public type expression it derives from
        self.nodes: Dict[int, NodeRec] = {}
        self.by_key: Dict[Any, int] = {}
        self.next_id = 0
        self.acts: Dict[int, ActSpec] = {}      # default action family
        self.fams: Dict[int, Dict[int, ActSpec]] = {}   # family >= 1 -> node -> spec
        self.messages: Dict[int, str] = {}      # custom error_message per named rule

    # -- construction
    def declare(self) -> Ref:
        r = Ref(self.next_id)
        self.next_id += 1
        return r

    def define(self, r: Ref, t: T):
        assert t.ns == 'pub'
        self.named[r.id] = t

    def rule(self, t: T) -> Ref:
        r = self.declare()
        self.define(r, t)
        return r

    # -- resolution
    def resolve(self):
        self.nodes.clear()
        self.by_key.clear()
        for rid, t in sorted(self.named.items()):
            self.by_key[Ref(rid)] = rid
        for rid, t in sorted(self.named.items()):
            kind, params = body_of_internal(public_base(t))
            self.nodes[rid] = NodeRec(rid, True, kind, self._params(kind, params), f"{self.ns}::n{rid}", 'named')
        return self

    def _node_of(self, t) -> int:
        if isinstance(t, Ref):
            return t.id
        t = canon(t) if t.ns == 'int' else T(t.ns, t.name, tuple(canon(x) if is_type(x) else x for x in t.args))
        if t in self.by_key:
            return self.by_key[t]
        nid = self.next_id
        self.next_id += 1
        self.by_key[t] = nid
        if t.ns == 'pub':
            kind, params = body_of_internal(public_base(t))
            rec = NodeRec(nid, True, kind, None, spell(t, self.ns), 'pub')
        else:
            kind, params = body_of_internal(t)
            rec = NodeRec(nid, False, kind, None, spell(t, self.ns), 'hidden')
        self.nodes[nid] = rec
        rec.params = self._params(kind, params)
        return nid

    def _params(self, kind, params):
        out = []
        for p in params:
            if is_type(p):
                out.append(self._node_of(p))
            elif isinstance(p, list) and p and all(is_type(x) for x in p):
                out.append([self._node_of(x) for x in p])
            elif isinstance(p, tuple) and len(p) == 2 and p[0] in ('x',):
                out.append(p)
            else:
                out.append(p)
        return out

    # -- emitters
    def proto_lines(self) -> List[str]:
        lines = [f"G {self.gid}"]
        sel = getattr(self, 'sel', None)
        if sel is not None:
            lines.append("SEL " + " ".join(f"{nid} {k}" for nid, k in sorted(sel.items())))
        mi = getattr(self, 'mi_msgs', None)
        if mi is not None:
            rof = getattr(self, 'mi_rof', None)
            lines.append("MI " + " ".join(str(nid) for nid in sorted(mi if rof is None else rof)))
        for nid in sorted(self.nodes):
            nd = self.nodes[nid]
            act = self.acts.get(nid, ActSpec())
            lines.append(f"N {nid} {int(nd.ctl)} {act.proto()} {self._kind_proto(nd)}")
        for fam, m in sorted(self.fams.items()):
            for nid, act in sorted(m.items()):
                lines.append(f"F {fam} {nid} {act.proto()}")
        return lines

    def _kind_proto(self, nd: NodeRec) -> str:
        k, p = nd.kind, nd.params
        if k == 'atom':
            a = p[0]
            if a == 'one':
                return f"atom one {int(p[1])} {len(p[2])} " + " ".join(map(str, p[2]))
            if a == 'range':
                return f"atom range {int(p[1])} {p[2]} {p[3]}"
            if a == 'ranges':
                flat = " ".join(f"{lo} {hi}" for lo, hi in p[1])
                return f"atom ranges {len(p[1])} {flat} {'-' if p[2] is None else p[2]}"
            if a in ('string', 'istring'):
                return f"atom {a} {len(p[1])} " + " ".join(map(str, p[1]))
            if a in ('bytes', 'require', 'maxDigits'):
                return f"atom {a} {p[1]}"
            if a == 'repOne':
                return f"atom repOne {p[1]} {p[2]} {p[3]}"
            if a == 'utf8Range':
                return f"atom utf8Range {int(p[1])} {p[2]} {p[3]}"
            return f"atom {a}"
        if k in ('seq', 'sor', 'starPartial', 'partialR'):
            name = 'partial' if k == 'partialR' else k
            return f"{name} {len(p[0])} " + " ".join(map(str, p[0]))
        if k == 'atR':
            return f"at {p[0]}"
        if k in ('plus', 'notAt', 'until1', 'must', 'enable', 'disable'):
            return f"{k} {p[0]}"
        if k == 'raise':
            return f"raise {p[0]}"
        if k in ('until2', 'strict', 'starStrict'):
            return f"{k} {p[0]} {p[1]}"
        if k in ('rep', 'repOpt'):
            return f"{k} {p[0]} {p[1]}"
        if k == 'repMinMax':
            return f"repMinMax {p[0]} {p[1]} {p[2]} {p[3]}"
        if k == 'ifThenElse':
            return f"ifThenElse {p[0]} {p[1]} {p[2]}"
        if k == 'rematch':
            return f"rematch {p[0]} {len(p[1])} " + " ".join(map(str, p[1]))
        if k == 'ifMust':
            return f"ifMust {int(p[0])} {p[1]} {p[2]}"
        if k in ('tcrf', 'tcrn'):
            return f"{k} {p[0]} {p[1]}"
        if k == 'action':
            fam = p[0]
            return f"action {fam[1] if isinstance(fam, tuple) else fam} {p[1]}"
        if k == 'ifApply':
            return f"ifApply {p[0]} {len(p[1])} " + " ".join(f"{r[0]} {int(r[1])} {r[2]} {r[3]} {int(r[4])}" for r in p[1])
        if k == 'applyR':
            return f"applyR {len(p[0])} " + " ".join(f"{r[0]} {int(r[1])} {r[2]} {r[3]} {int(r[4])}" for r in p[0])
        if k == 'control':
            return f"control {p[0][1]} {p[1]}"
        if k == 'state':
            return f"state {p[0][1]} {p[1]}"
        raise ValueError(k)

    def children(self, nid) -> List[int]:
        nd = self.nodes[nid]
        out = []
        if nd.kind == 'atom':
            return out
        for p in nd.params:
            if isinstance(p, int) and not isinstance(p, bool):
                out.append(p)
            elif isinstance(p, list):
                out.extend(x for x in p if isinstance(x, int))
        # numeric (non-child) parameters come first for these kinds
        if nd.kind in ('rep', 'repOpt'):
            out = [nd.params[1]]
        elif nd.kind == 'repMinMax':
            out = [nd.params[2], nd.params[3]]
        elif nd.kind == 'ifMust':
            out = [nd.params[1], nd.params[2]]
        elif nd.kind in ('tcrf', 'tcrn'):
            out = [nd.params[1]]
        elif nd.kind in ('action', 'state', 'control'):
            out = [nd.params[1]]
        elif nd.kind == 'ifApply':
            out = [nd.params[0]]
        elif nd.kind == 'applyR':
            out = []
        return out

    def cpp_decls(self) -> str:
        """Namespace with the rule types, the action class templates and the id table."""
        ns = self.ns
        # families named by an action< A, R... > rule exist even when no action was attached to them
        named_fams = set()
        for nd in self.nodes.values():
            if nd.kind == 'action':
                f0 = nd.params[0]
                named_fams.add(f0[1] if isinstance(f0, (tuple, list)) else int(f0))
        for f in sorted(named_fams - {0}):
            self.fams.setdefault(f, {})
        o = [f"namespace {ns} {{", "struct tag {};"]
        o.append("template< typename R > struct ctl2;")
        for f in [0] + sorted(self.fams):
            o.append(f"template< typename R > struct act{f};")
        for rid in sorted(self.named):
            o.append(f"struct n{rid};")
        for rid in sorted(self.named):
            base = spell(self.named[rid], ns)
            msg = self.messages.get(rid)
            if msg is None:
                o.append(f"struct n{rid} : {base} {{}};")
            else:
                o.append(f'struct n{rid} : {base} {{ static constexpr const char* error_message = "{msg}"; }};')
        o.append("template< typename R > struct ctl : vh::vcontrol< tag, R > {};")
        o.append("template< typename R > struct ctl_nu : vh::vcontrol_nounwind< tag, R > {};")
        o.append("template< typename R > struct ctl2 : vh::vcontrol2< tag, R > {};")
        fams = [0] + sorted(self.fams)
        for f in fams:
            o.append(f"template< typename R > struct act{f} : tao::pegtl::nothing< R > {{}};")
        limit_ids = {}
        for f in fams:
            table = self.acts if f == 0 else self.fams[f]
            for nid, a in sorted(table.items()):
                if a.kind == 'none' and a.wrap == 'none':
                    continue
                nd = self.nodes[nid]
                bases = []
                if a.kind != 'none':
                    base = {('apply', False): 'act_apply_void', ('apply', True): 'act_apply_bool',
                            ('apply0', False): 'act_apply0_void', ('apply0', True): 'act_apply0_bool'}[(a.kind, a.is_bool)]
                    bases.append(f"vh::{base}< tag, {nd.cpp}, {a.veto_mod}, {a.throw_mod}, {'true' if a.throw_std else 'false'} >")
                w = a.wrap
                if w.startswith('ca:'):
                    bases.append(f"tao::pegtl::change_action< act{w[3:]} >")
                elif w == 'da':
                    bases.append("tao::pegtl::disable_action")
                elif w == 'ea':
                    bases.append("tao::pegtl::enable_action")
                elif w == 'cc':
                    bases.append("tao::pegtl::change_control< ctl2 >")
                elif w.startswith('cs:'):
                    bases.append("vh::act_change_state< tag >" if w[3:] == '0' else "vh::act_change_states< tag >")
                elif w.startswith('cas:'):
                    _, fam2, mu = w.split(':')
                    bases.append(f"vh::act_change_action_and_state< tag, act{fam2} >" if mu == '0' else f"vh::act_change_action_and_states< tag, act{fam2} >")
                elif w.startswith('ld:'):
                    bases.append(f"tao::pegtl::limit_depth< {w[3:]} >")
                    limit_ids[f"tao::pegtl::limit_depth< {w[3:]} >"] = (1000000 + 2 * int(w[3:]), "maximum parser rule nesting depth exceeded")
                elif w.startswith('cta:'):
                    # contrib/control_action.hpp (oracle-only part of C08): hooks around the rule's match(), with / without unwind
                    bases.append(f"vh::act_ca_unwind< tag, {nd.cpp} >" if w[4:] == '1' else f"vh::act_ca< tag, {nd.cpp} >")
                elif w.startswith('cb:'):
                    # contrib/check_bytes.hpp: not in the Lean model (oracle-only part of C18); throws parse_error directly, no raise hook
                    bases.append(f"tao::pegtl::check_bytes< {w[3:]} >")
                    limit_ids[f"tao::pegtl::check_bytes< {w[3:]} >"] = (1999998, "maximum allowed rule consumption exceeded")
                elif w.startswith('lb:'):
                    bases.append(f"tao::pegtl::limit_bytes< {w[3:]} >")
                    limit_ids[f"tao::pegtl::limit_bytes< {w[3:]} >"] = (1000001 + 2 * int(w[3:]), "maximum allowed rule consumption reached")
                o.append(f"template<> struct act{f}< {nd.cpp} > : {', '.join(bases)} {{}};")
        self._limit_ids = limit_ids
        sel = getattr(self, 'sel', None)
        if sel is not None:
            pt = "tao::pegtl::parse_tree"
            groups = {'store': [], 'remove': [], 'fold': [], 'discard': []}
            for nid, k in sorted(sel.items()):
                groups[k].append(self.nodes[nid].cpp)
            o.append(f"template< typename R > using sel = {pt}::selector< R, {pt}::store_content::on< {', '.join(groups['store'])} >, "
                     f"{pt}::remove_content::on< {', '.join(groups['remove'])} >, {pt}::fold_one::on< {', '.join(groups['fold'])} >, "
                     f"{pt}::discard_empty::on< {', '.join(groups['discard'])} > >;")
        mi = getattr(self, 'mi_msgs', None)
        if mi is not None:
            # C05 (oracle-only part): a must_if< errs, ctl > control; `errs::message< R >` for the rules in mi
            rof = getattr(self, 'mi_rof', None)
            if rof is None:
                # message-only Errors class: a rule raises on failure iff it has a message
                o.append("struct errs { template< typename > static constexpr const char* message = nullptr; };")
                rof_set = set(mi)
            else:
                # Errors class with an explicit raise_on_failure< Rule > table (documented opt-in / opt-out), independent of the messages
                o.append("struct errs { template< typename > static constexpr const char* message = nullptr; template< typename > static constexpr bool raise_on_failure = false; };")
                rof_set = set(rof)
                for nid in sorted(rof_set):
                    o.append(f'template<> inline constexpr bool errs::raise_on_failure< {self.nodes[nid].cpp} > = true;')
            for nid, msg in sorted(mi.items()):
                o.append(f'template<> inline constexpr const char* errs::message< {self.nodes[nid].cpp} > = "{msg}";')
            # what the generator decided, independent of the library's own trait: does the failure hook of R raise?
            o.append("template< typename > inline constexpr bool vrof = false;")
            for nid in sorted(rof_set):
                o.append(f"template<> inline constexpr bool vrof< {self.nodes[nid].cpp} > = true;")
            # the must_if control; its failure hook raises for rules that have a message (without calling ctl< R >::failure
            # or ctl< R >::raise), so the entry into the hook and the raise are logged here
            o.append("template< typename R > struct ctl_mi : tao::pegtl::must_if< errs, ctl, false >::template control< R > {")
            o.append("  using mi_base = typename tao::pegtl::must_if< errs, ctl, false >::template control< R >;")
            o.append("  template< typename In, typename... St > static void failure( const In& in, St&&... st ) {")
            o.append("    if constexpr( vrof< R > ) { vh::ev_m< 0 >( \"fa\", vh::vid< tag, R >, in ); if constexpr( errs::template message< R > != nullptr ) { vh::ev_m< 0 >( \"ra\", vh::vid< tag, R >, in ); } }")
            o.append("    mi_base::failure( in, st... ); }")
            o.append("  template< typename In, typename... St > [[noreturn]] static void raise( const In& in, St&&... st ) {")
            o.append("    if constexpr( errs::template message< R > != nullptr ) { vh::ev_m< 0 >( \"ra\", vh::vid< tag, R >, in ); }")
            o.append("    mi_base::raise( in, st... ); }")
            o.append("};")
        o.append("inline void reg() {")
        if mi is not None:
            for nid, msg in sorted(mi.items()):
                o.append(f'  vh::messages_for< tag >()[ "{msg}" ] = {nid};')
        for rid, msg in sorted(self.messages.items()):
            o.append(f'  vh::messages_for< tag >()[ "{msg}" ] = {rid};')
        for nid, nd in sorted(self.nodes.items()):
            if nd.cpp.startswith('tao::pegtl::raise_message<'):
                msg = ''.join(chr(int(x)) for x in _re.findall(r'char\((\d+)\)', nd.cpp))
                o.append(f'  vh::messages_for< tag >()[ "{msg}" ] = {nid};')
        for nid in sorted(self.nodes):
            o.append(f"  vh::reg< tag, {self.nodes[nid].cpp} >( {nid} );")
        for cpp, (lid, msg) in sorted(limit_ids.items()):
            o.append(f'  vh::messages()[ "{msg}" ] = {lid};')
        o.append("}")
        o.append("}")
        for nid in sorted(self.nodes):
            o.append(f"template<> inline constexpr int vh::vid< {ns}::tag, {self.nodes[nid].cpp} > = {nid};")
        for cpp, (lid, msg) in sorted(limit_ids.items()):
            o.append(f"template<> inline constexpr int vh::vid< {ns}::tag, {cpp} > = {lid};")
        return "\n".join(o) + "\n"


# ---------------------------------------------------------------- (de)serialisation for replay files

def type_to_json(t):
    if isinstance(t, Ref):
        return {'ref': t.id}
    if isinstance(t, T):
        return {'ns': t.ns, 'name': t.name, 'args': [type_to_json(a) for a in t.args]}
    return {'lit': [t[0], t[1]]}


def type_from_json(d):
    if 'ref' in d:
        return Ref(d['ref'])
    if 'lit' in d:
        v = d['lit'][1]
        return (d['lit'][0], tuple(v) if isinstance(v, list) else v)
    return T(d['ns'], d['name'], tuple(type_from_json(a) for a in d['args']))


def grammar_to_json(g: Grammar):
    return {'gid': g.gid, 'named': {str(k): type_to_json(v) for k, v in g.named.items()},
            'acts': {str(k): vars(v) for k, v in g.acts.items()},
            'fams': {str(f): {str(k): vars(v) for k, v in m.items()} for f, m in g.fams.items()},
            'messages': {str(k): v for k, v in g.messages.items()},
            'mi_msgs': ({str(k): v for k, v in g.mi_msgs.items()} if getattr(g, 'mi_msgs', None) is not None else None),
            'mi_rof': (sorted(g.mi_rof) if getattr(g, 'mi_rof', None) is not None else None),
            'sel': ({str(k): v for k, v in g.sel.items()} if getattr(g, 'sel', None) is not None else None)}


def grammar_from_json(d) -> Grammar:
    g = Grammar(d['gid'])
    for k, v in d['named'].items():
        g.named[int(k)] = type_from_json(v)
    g.next_id = max(g.named) + 1 if g.named else 0
    g.resolve()
    for k, v in d['acts'].items():
        g.acts[int(k)] = ActSpec(**v)
    for f, m in d.get('fams', {}).items():
        g.fams[int(f)] = {int(k): ActSpec(**v) for k, v in m.items()}
    g.messages = {int(k): v for k, v in d.get('messages', {}).items()}
    if d.get('sel') is not None:
        g.sel = {int(k): v for k, v in d['sel'].items()}
    if d.get('mi_msgs') is not None:
        g.mi_msgs = {int(k): v for k, v in d['mi_msgs'].items()}
    if d.get('mi_rof') is not None:
        g.mi_rof = set(int(k) for k in d['mi_rof'])
    return g
