"""C13 — state and action switching is scoped to the rule it is attached to.
Proof: lean/PegtlVerif/Props/C13.lean (state-scope automaton accepts every trace; exact life cycle of the state object of
state<> / change_state(s) / change_action_and_state(s); the action family and apply mode every invocation and action sees
are those determined by its chain of enclosing invocations).
Tie: full-trace differential run with state<> rules (both construction paths), change_state / change_states /
change_action_and_state / change_action_and_states / change_action / enable_action / disable_action bases, enable / disable /
at / not_at / action<> rules nested arbitrarily, vetoing and throwing actions, must-raisers; eager and lazy inputs.
Oracles (implementation trace only): the state automaton (LIFO life times, success exactly once iff the rule matched and only
where the variant calls it, cursor and outer state, which instance every action receives: unique ids) and the switch-scope
automaton of C04 (family and apply mode recomputed per invocation).  change_control is covered by an oracle-only part."""
from __future__ import annotations
from typing import Optional

from .diffrun import Config
from . import c04, engine, profiles
from .diffrun import Case, Trace


def oracle_states(c: Case, tr: Trace) -> Optional[str]:
    """Replays the trace against the documented life cycle.  Frames: invocations (E..X); scopes: state objects."""
    scopes = []        # [depth, succeeded, owner frame index, opened-by ('rule'|'wrap'), ownerA]
    frames = []        # [id, A, result-pending, scope count at entry]
    for l in tr.events:
        if 'BAD-' in l:
            return f"state objects are not nested like stack frames: '{l}'"
        p = l.split()
        t = p[0]
        if t == 'E':
            frames.append([int(p[1]), p[2], len(scopes)])
        elif t == 'X':
            fr = frames.pop()
            if len(scopes) != fr[2]:
                return f"invocation of rule {fr[0]} returned with {len(scopes) - fr[2]} state object(s) of its sub-tree still alive"
        elif t == 'sc':
            d = int(p[1])
            if d != len(scopes) + 1:
                return f"state constructed at depth {d} while {len(scopes)} are alive"
            scopes.append([d, False, len(frames)])
        elif t == 'ss':
            d, outer = int(p[1]), int(p[5])
            if not scopes or scopes[-1][0] != d:
                return f"success() of the state at depth {d}, but the innermost live state is {scopes[-1][0] if scopes else None}"
            if scopes[-1][1]:
                return f"success() of the state at depth {d} called twice"
            if outer != d - 1:
                return f"success() of the state at depth {d} received the state at depth {outer} as outer state"
            scopes[-1][1] = True
        elif t == 'sd':
            d = int(p[1])
            if not scopes or scopes[-1][0] != d:
                return f"state at depth {d} destroyed while the innermost live state is {scopes[-1][0] if scopes else None}"
            scopes.pop()
        elif t in ('ap', 'a0'):
            sd = int(p[-1])
            if sd != len(scopes):
                return f"action of rule {p[1]} received the state at depth {sd}; the innermost live state is at depth {len(scopes)}"
    if scopes:
        return f"{len(scopes)} state object(s) alive at the end"
    return None


def oracle_state_success(c: Case, tr: Trace) -> Optional[str]:
    """success() iff the attached rule matched (for the action-based variants: and actions are enabled), with the cursor after the match.
    Works on the nesting of the implementation's own trace: a scope's rule is the first invocation entered after `sc` (state<> rule:
    the child; change_state: the rule's own hooks run inside, recognised by the wrap of the enclosing invocation)."""
    ev = tr.events
    n = len(ev)
    i = 0
    stack = []   # open invocations: [id, A, famforthisnode]
    # recompute family like c04 does, to know which invocation carries a state wrap
    fams = []
    for k, l in enumerate(ev):
        p = l.split()
        if p[0] != 'sc':
            continue
        d = int(p[1])
        # find matching sd
        depth = 0
        end = None
        succ = None
        for j in range(k + 1, n):
            q = ev[j].split()
            if q[0] == 'sc':
                depth += 1
            elif q[0] == 'sd':
                if depth == 0:
                    end = j
                    break
                depth -= 1
            elif q[0] == 'ss' and depth == 0:
                succ = (j, q)
        if end is None:
            return f"state constructed at event {k} is never destroyed"
        # the enclosing invocation (last E before k that is still open at k)
        opn = []
        for j in range(0, k):
            q = ev[j].split()
            if q[0] == 'E':
                opn.append(j)
            elif q[0] == 'X':
                opn.pop()
        if not opn:
            return "state constructed outside any invocation"
        encl = ev[opn[-1]].split()
        eid, eA = int(encl[1]), encl[2]
        nd = c.g.nodes.get(eid)
        prev = ev[k - 1].split()
        # the object of a state< S, R > rule is constructed inside the rule's match(): after its `start` hook, or — for a rule
        # hidden from the control — right after the invocation is entered; the object of a change_state*-base before any hook
        is_rule = nd is not None and nd.kind == 'state' and ((prev[0] == 'st' and int(prev[1]) == eid) or (prev[0] == 'E' and not nd.ctl))
        # inner events between k+1 and end (excluding ss): what did the attached rule return?
        inner = [ev[j] for j in range(k + 1, end) if succ is None or j != succ[0]]
        if is_rule:
            # state< S, R >: exactly one child invocation
            xs = [x for x in inner if x.startswith('X ')]
            # the child's exit is the last X at nesting level 0
            lvl, res, pos = 0, None, None
            for x in inner:
                q = x.split()
                if q[0] == 'E':
                    lvl += 1
                elif q[0] == 'X':
                    lvl -= 1
                    if lvl == 0:
                        res, pos = q[2], q[3:6]
            want = (res == '1')
        else:
            # change_state*: the rule's own match() ran inside: matched iff its `su` hook is the last hook at level 0 — or, for a
            # rule hidden from the control or re-entered through the control (change_action_and_state), the child exit
            lvl, res, pos = 0, None, None
            for x in inner:
                q = x.split()
                if q[0] == 'E':
                    lvl += 1
                elif q[0] == 'X':
                    lvl -= 1
                    if lvl == 0 and int(q[1]) == eid:
                        res, pos = q[2], q[3:6]
                elif lvl == 0 and q[0] in ('su', 'fa', 'uw') and int(q[1]) == eid:
                    res, pos = {'su': '1', 'fa': '0', 'uw': '2'}[q[0]], q[2:5]
            if res is None:
                # no hooks, no re-entry: a rule invisible to the control — its result is the enclosing exit
                for j in range(end + 1, n):
                    q = ev[j].split()
                    if q[0] == 'X' and int(q[1]) == eid:
                        res, pos = q[2], q[3:6]
                        break
                    if q[0] in ('E',):
                        break
            want = (res == '1') and eA == '1'
        if want and succ is None:
            return f"the rule attached to the state at depth {d} (invocation of rule {eid}) matched but success() was not called"
        if not want and succ is not None:
            return f"success() of the state at depth {d} (invocation of rule {eid}) although the rule returned {res} / actions enabled: {eA}"
        if succ is not None and pos is not None and succ[1][2:5] != pos:
            return f"success() of the state at depth {d} was given position {succ[1][2:5]}, the match ended at {pos}"
    return None


ORACLES = [('states', oracle_states), ('state-success', oracle_state_success), ('switch-scope', c04.oracle_actions)]


def run(tier: str) -> int:
    cfg = profiles.amr_configs(ams=((1, 'r'), (1, 'o'), (0, 'o')), lazies=(0, 1))
    ps = [
        profiles.systematic_profile('st', lambda k, f: f == 'state' or k in ('enable', 'disable', 'seq2', 'sor2', 'star1', 'opt1', 'at1', 'not_at1', 'must1', 'tcrf', 'if_must'),
                                    True, 20, 120, ORACLES, actions_mode='states',
                                    inputs=profiles.inputs_exhaustive(3, 5, cap_q=80, cap_t=500), per_tu=2, configs=cfg,
                                    ctx_names=['top', 'sor-first', 'seq-tail', 'in-at', 'in-disable', 'in-state', 'in-state-at', 'in-tcrf', 'in-must']),
        profiles.random_profile('rs', False, True, 22, 140, ORACLES, actions_mode='states', switches=True,
                                inputs=profiles.inputs_exhaustive(4, 6, cap_q=150, cap_t=900), per_tu=2, configs=cfg),
        profiles.random_profile('rt', False, True, 10, 60, ORACLES, actions_mode='throw', switches=True,
                                inputs=profiles.inputs_exhaustive(4, 6, cap_q=150, cap_t=900), per_tu=2,
                                configs=profiles.amr_configs(ams=((1, 'r'), (0, 'o')), unwinds=(1, 0))),
        profiles.control_profile('cc', 10, 60, ORACLES + [('control-scope', oracle_control_scope)], actions_mode='states', per_tu=2,
                                 configs=profiles.amr_configs(ams=((1, 'r'), (0, 'o')), unwinds=(1, 0))),
        # states are handed on by reference everywhere: a state passed to parse() that reports being copied, through every rule that
        # switches action family, state or control, and through the rule-level action rules
        profiles.systematic_profile('nocopy', lambda k, f: f in ('actrule', 'state', 'apply') or k in ('enable', 'disable', 'seq2', 'sor2', 'star1', 'at1', 'rematch2', 'tcrf', 'must1', 'control_rule'),
                                    True, 22, 80, ORACLES, actions_mode='states',
                                    inputs=profiles.inputs_exhaustive(3, 4, cap_q=50, cap_t=250), per_tu=2,
                                    configs=lambda g, root, tier: [Config(root, 1, 'o', 'lf_crlf', 0, 1, 0, 0, 0, 10)],
                                    ctx_names=['top', 'seq-tail', 'in-state', 'in-tcrf']),
    ]
    return engine.run_engine('C13', tier, ['PegtlVerif.Props.C13'], ps)


def replay(path: str) -> int:
    return engine.replay('C13', path, ORACLES)


# ---------------------------------------------------------------- change_control / control<>
# The model records the control family of every `enter` and `start` (C13_switch_scoped covers it); this oracle checks, on the
# implementation's own log, more than the model records: *every* hook line of an invocation (success, failure, unwind, apply,
# apply0, exit) is logged by the control family the rule table prescribes for it.

def _ctl_of(tag: str):
    """('st2', ...) -> ('st', 2)"""
    return (tag[:-1], 2) if tag.endswith('2') and tag[:-1] in ('E', 'X', 'st', 'su', 'fa', 'uw', 'ra', 'ap', 'a0') else (tag, 0)


def oracle_control_scope(c: Case, tr: Trace) -> Optional[str]:
    # frames: 'body': control of the rule's own hooks, 'child': control its sub-rules are invoked through,
    # 'cfam': action family its sub-rules are invoked with (decides which `change_control` attachment is in force)
    stack = []
    for l in tr.raw_events:
        p = l.split()
        t, k = _ctl_of(p[0])
        if t in ('sc', 'ss', 'sd', 'rp'):
            continue
        if t == 'E':
            nid = int(p[1])
            exp = stack[-1]['child'] if stack else 0
            fam = stack[-1]['cfam'] if stack else c.cfg.fam
            if k != exp:
                return f"rule {nid} is invoked through control {k}; its context selects control {exp}"
            nd = c.g.nodes.get(nid)
            spec = c04._spec(c, fam, nid) if nd is not None and nd.ctl else None
            wrap = spec.wrap if spec is not None else 'none'
            reenter = wrap.startswith('ca:') or wrap.startswith('cas:')     # the same rule again with the new family: no hooks in this frame
            cfam = int(wrap.split(':')[1]) if reenter else fam
            body = 2 if wrap == 'cc' else k
            child = body
            if nd is not None and not reenter:
                if nd.kind == 'control':
                    child = 2
                elif nd.kind == 'action':
                    cfam = nd.params[0][1] if isinstance(nd.params[0], (tuple, list)) else int(nd.params[0])
            stack.append({'id': nid, 'enter': k, 'body': body, 'child': child, 'cfam': cfam, 'hooks': 0,
                          'ctl': bool(nd is not None and nd.ctl and not reenter)})
        elif t == 'X':
            fr = stack.pop()
            if k != fr['enter']:
                return f"exit of rule {fr['id']} logged by control {k}, entered through control {fr['enter']}"
            if fr['ctl'] and fr['hooks'] == 0 and not (len(p) > 2 and p[2] == '2'):
                return f"rule {fr['id']} was matched without any hook of control {fr['body']} being called (start is missing)"
        elif t == 'ra':
            if stack and int(p[1]) < 1000000 and k != stack[-1]['child']:
                return f"raise for rule {p[1]} through control {k}; the must-context uses control {stack[-1]['child']}"
        else:
            if not stack:
                return f"hook '{l}' outside any invocation"
            if k != stack[-1]['body']:
                return f"hook '{l}' of rule {p[1]} called on control {k}; the rule is matched under control {stack[-1]['body']}"
            stack[-1]['hooks'] += 1
    return None


def control_part(v, cov, rng, tier):
    import random as _r
    from . import corpus, diffrun
    from .gram import P, CTL, ActSpec
    n = 12 if tier == 'quick' else 60
    cases = []
    ngram = 0
    for gi in range(n):
        rg = corpus.RandGen(rng, False, True, rng.randint(3, 6), switches=True)
        g, roots = rg.grammar(f"cc{gi}")
        # wrap some named rules into control< ctl2, ... > and attach change_control< ctl2 > to others
        extra_roots = []
        for rid in list(g.named)[:3]:
            from .gram import Ref
            extra_roots.append(g.rule(P('control', CTL(2), Ref(rid))).id)
            extra_roots.append(g.rule(P('seq', P('control', CTL(2), Ref(rid)), Ref(rid))).id)
        g.resolve()
        corpus.attach_actions(rng, g, 'void')
        for nid, nd in g.nodes.items():
            if nd.ctl and rng.random() < 0.3:
                a = g.acts.get(nid) or ActSpec()
                a.wrap = 'cc'
                g.acts[nid] = a
        ngram += 1
        inputs = corpus.sample_inputs(rng, [97, 98, 99], 4, 60 if tier == 'quick' else 200, 3)
        for root in (roots + extra_roots)[:6]:
            for (a_, m_) in ((1, 'r'), (0, 'o')):
                cfg = diffrun.Config(root, a_, m_, 'lf_crlf', 0, 1)
                for j, d in enumerate(inputs):
                    cases.append(diffrun.Case(f"{g.gid}_{root}_{a_}{m_}_{j}", g, cfg, d))
    res = diffrun.run_impl(cases, per_tu=2, tag='C13_cc')
    st = {'grammars': ngram, 'cases': len(cases), 'traces': len(res.traces), 'marked_events': 0, 'switching_runs': 0, 'compile_errors': len(res.compile_errors)}
    for e in res.compile_errors[:3]:
        v.broke("change_control driver no longer compiles against /repo: " + e[:2000])
    for cid, msg in res.crashes[:3]:
        v.broke(f"change_control driver aborted ({cid}): " + msg[:1500])
    by_id = {c.cid: c for c in cases}
    for cid, tr in res.traces.items():
        c = by_id.get(cid)
        if c is None:
            continue
        marks = sum(1 for l in tr.raw_events if _ctl_of(l.split()[0])[1] == 2)
        st['marked_events'] += marks
        if marks and marks < len(tr.raw_events):
            st['switching_runs'] += 1
        msg = oracle_control_scope(c, tr) or oracle_states(c, tr)
        if msg and len(v.violations) < 5:
            v.failing_input({'oracle': 'control-scope', 'what': msg, 'grammar_def': __import__('vlib.gram', fromlist=['x']).grammar_to_json(c.g),
                             'config': vars(c.cfg) if hasattr(c.cfg, '__dict__') else str(c.cfg), 'input_hex': c.data.hex(), 'observed': tr.events[:200]})
    cov['change_control'] = st
    cov['evaluations'] += st['traces']
