"""C05 — global failure: identity, position, propagation and conversion of exceptions.
Proof: lean/PegtlVerif/Props/C05.lean (blame = the formalism's, unique; every exception leaving an invocation originates at a
raise event / throwing action with the same identity and position; must raises where its rule's attempt ended; try_catch converts
exactly the named classes; positions are scan positions).
Tie: full-trace differential run (raisers under every combinator, try_catch of all classes, throwing actions, custom messages).
Oracles: on the implementation's trace — the exception reaching parse() is the last raise event (same rule, same position) or the last
throwing action; the position lies between the start of the blamed rule's attempt and the furthest point reached; what() has the
documented form; and the spec evaluator's blame for void-action grammars."""
from __future__ import annotations
from typing import Optional

from . import engine, profiles
from .diffrun import Case, Trace
from .engine import oracle_sem


def oracle_exception(c: Case, tr: Trace) -> Optional[str]:
    r = tr.result.split()
    if len(r) < 2 or r[1] != '2':
        return None
    if 'WHAT-MISMATCH' in r:
        return "what() is not 'source:line:column: message'"
    if len(r) < 6:
        return f"unclassified exception: {tr.result}"
    kind = r[5]
    if kind in ('STD', 'UNKNOWN', 'BUDGET'):
        return f"an exception of an unexpected type reached parse(): {tr.result}"
    # innermost exception description
    toks = r[5:]
    last_p = None
    for i, t in enumerate(toks):
        if t in ('P', 'F'):
            last_p = i
    inner = toks[last_p:]
    raises = [l.split() for l in tr.events if l.startswith('ra ')]
    acts = [l.split() for l in tr.events if l.startswith('ap ') or l.startswith('a0 ') or l.startswith('rp ')]
    if inner[0] == 'P':
        if int(inner[1]) == -2:
            return f"parse_error with an unexpected message: {tr.result}"
        if not raises:
            return f"parse_error {inner[:5]} without any raise hook"
        lr = raises[-1]
        if lr[1] != inner[1] or lr[2:5] != inner[2:5]:
            return f"parse_error blames rule {inner[1]} at {inner[2:5]} but the last raise hook was for rule {lr[1]} at {lr[2:5]}"
        # position interval: between the start of the blamed rule's attempt that has just ended (the last invocation of that rule
        # to exit before the raise hook — not the last one entered: the rule may be recursive) and the furthest point reached so far
        blamed = inner[1]
        start = None
        furthest = 0
        estack = []
        at_raise = None
        for l in tr.events:
            p = l.split()
            if p[0] == 'E':
                furthest = max(furthest, int(p[4]))
                estack.append((p[1], int(p[4])))
            elif p[0] == 'X':
                furthest = max(furthest, int(p[3]))
                if estack:
                    rid, b0 = estack.pop()
                    if rid == blamed:
                        start = b0
            elif p[0] in ('st', 'su', 'fa', 'uw', 'a0'):
                furthest = max(furthest, int(p[2]))      # where the attempt stood when the hook ran (before any rewinding)
            elif p[0] == 'ap':
                furthest = max(furthest, int(p[5]))
            if p[0] == 'ra' and p[1] == blamed and p == lr:
                # (kept for every such hook; the last one is the one whose exception reached the caller)
                s0 = estack[-1][1] if (estack and estack[-1][0] == blamed) else start    # own failure hook (must_if): attempt still open
                at_raise = (s0, furthest)
        start, furthest = at_raise if at_raise is not None else (None, furthest)
        pos = int(inner[2])
        if start is not None and int(blamed) < 1000000 and not (start <= pos <= max(furthest, start)):
            return f"parse_error position {pos} outside [{start}, {furthest}] of the blamed rule's attempt"
    elif inner[0] == 'F':
        if not acts or acts[-1][1] != inner[1]:
            return f"foreign exception of rule {inner[1]} but the last action call was {acts[-1] if acts else None}"
    # nested wrappers: every N level names a try_catch_raise_nested child and the position where its attempt began
    return None


def catches(ex: str, cls: str) -> bool:
    return ex == 'any' or (ex == 'std' and cls in ('parse', 'std')) or (ex == 'parse' and cls == 'parse')


def oracle_conversion(c: Case, tr: Trace) -> Optional[str]:
    """An exception propagates unchanged through every combinator except the try_catch family, which converts exactly the classes
    it names: follow each exception from its origin (raise hook / throwing action) outwards through the invocation exits."""
    cls = None            # class of the exception currently propagating
    last_origin = None
    for l in tr.events:
        p = l.split()
        t = p[0]
        if t == 'ra':
            last_origin = ('parse', p[1])
        elif t in ('ap', 'a0'):
            a = c.g.acts.get(int(p[1])) if c.cfg.fam == 0 else c.g.fams.get(c.cfg.fam, {}).get(int(p[1]))
            last_origin = (('std' if (a and a.throw_std) else 'other'), p[1])
        elif t == 'rp':
            # a rule-level action class named by apply< … > / if_apply< R, … >: (id, isBool, vetoMod, throwMod, throwStd)
            std = False
            for nd0 in c.g.nodes.values():
                if nd0.kind in ('ifApply', 'applyR'):
                    for ra in nd0.params[-1]:
                        if int(ra[0]) == int(p[1]):
                            std = bool(ra[4])
            last_origin = (('std' if std else 'other'), p[1])
        elif t == 'X':
            nid = int(p[1])
            nd = c.g.nodes.get(nid)
            kind = nd.kind if nd else '?'
            if p[2] == '2':
                if cls is None:
                    if last_origin is None:
                        return f"rule {nid} exited by exception without any raise hook or action call before it"
                    cls = last_origin[0]
                    if cls != 'parse' and last_origin[1] == p[1]:
                        continue      # thrown by this rule's own action, i.e. in match() outside the rule's try block
                if kind == 'tcrf' and catches(nd.params[0], cls):
                    return f"try_catch_return_false<{nd.params[0]}> (rule {nid}) let a {cls} exception pass"
                if kind == 'tcrn' and catches(nd.params[0], cls):
                    cls = 'parse'      # re-raised as nested parse_error
            else:
                if cls is not None:
                    if kind != 'tcrf':
                        return f"a {cls} exception was swallowed by rule {nid} of kind {kind}"
                    if not catches(nd.params[0], cls):
                        return f"try_catch_return_false<{nd.params[0]}> (rule {nid}) caught a {cls} exception"
                    if p[2] != '0':
                        return f"try_catch_return_false (rule {nid}) converted an exception into success"
                    cls = None
    return None


ORACLES = [('exception', oracle_exception), ('conversion', oracle_conversion)]


def run(tier: str) -> int:
    cfgu = profiles.amr_configs(ams=((1, 'r'), (1, 'o'), (0, 'o')), unwinds=(1,), lazies=(0, 1))
    ps = [
        profiles.systematic_profile('raise', lambda k, f: f == 'raise', True, 26, 150, ORACLES + [('sem', oracle_sem)], use_sem=True, actions_mode='none+msg',
                                    inputs=profiles.inputs_exhaustive(3, 5, cap_q=90, cap_t=600), per_tu=2, configs=cfgu,
                                    ctx_names=['top', 'sor-first', 'seq-tail', 'in-at', 'in-not_at', 'in-opt', 'in-tcrf', 'in-must']),
        profiles.systematic_profile('conv', lambda k, f: f in ('conv', 'rep', 'core'), True, 16, 100, ORACLES + [('sem', oracle_sem)], use_sem=True,
                                    inputs=profiles.inputs_exhaustive(3, 5, cap_q=90, cap_t=600), per_tu=2, configs=cfgu,
                                    ctx_names=['top', 'in-tcrf', 'in-must', 'in-at']),
        profiles.random_profile('throw', False, True, 18, 100, ORACLES, actions_mode='throw',
                                inputs=profiles.inputs_exhaustive(4, 6, cap_q=150, cap_t=900), per_tu=2,
                                configs=profiles.amr_configs(ams=((1, 'r'), (1, 'o')), unwinds=(1, 0))),
        # foreign exceptions (std and non-std) thrown by actions under every try_catch class
        profiles.systematic_profile('catch', lambda k, f: k.startswith('tc'), True, 36, 120, ORACLES,
                                    actions_mode='throwmany', heavy=True, inputs=profiles.inputs_exhaustive(3, 5, cap_q=90, cap_t=500), per_tu=2,
                                    configs=profiles.amr_configs(ams=((1, 'r'), (1, 'o')), unwinds=(1,)),
                                    ctx_names=['top', 'sor-first', 'seq-tail', 'in-tcrf']),
    ]
    # the same through coverage<>() (state_control<> around the control): the exception that reaches the caller is still the parse_error
    from .diffrun import Config
    from .engine import Profile
    from .gram import Grammar, P, C

    def cov_grams(rng, tier):
        g = Grammar('covraise0')
        a_, b_, c_ = (lambda: P('one', C(97))), (lambda: P('one', C(98))), (lambda: P('one', C(99)))
        rs = [P('sor', a_(), P('raise', b_())),
              P('seq', a_(), P('raise', c_())),
              P('seq', P('opt', a_()), P('sor', b_(), P('raise_message', C(109), C(115), C(103)))),
              P('sor', P('try_catch_return_false', P('seq', a_(), P('raise', b_()))), P('any')),
              P('try_catch_raise_nested', P('seq', a_(), P('raise', b_()))),
              P('seq', P('at', P('sor', a_(), P('raise', c_()))), P('must', a_(), b_())),
              P('star', P('sor', P('seq', a_(), b_()), P('seq', c_(), P('raise', a_()))))]
        roots = [g.rule(t).id for t in rs]
        g.resolve()
        return [(g, roots, {'kind': 'raise-under-coverage'})]
    ps.append(Profile('covraise', cov_grams, lambda g, root, tier: [Config(root, 1, 'o', 'lf_crlf', 0, uw, 0, 0, 0, 1) for uw in (1, 0)],
                      profiles.inputs_exhaustive(4, 5, cap_q=200, cap_t=800), ORACLES, per_tu=1))
    def nested_msg_grams(rng, tier):
        # the rule handed to the try_catch_*_raise_nested family carries a custom error_message: normal< Rule >::raise_nested has a branch of
        # its own for such rules (as has raise)
        g = Grammar('nestmsg0')
        a_, b_, c_ = (lambda: P('one', C(97))), (lambda: P('one', C(98))), (lambda: P('one', C(99)))
        inner = g.rule(P('seq', a_(), P('must', b_())))
        inner2 = g.rule(P('sor', c_(), P('seq', a_(), P('raise', c_()))))
        tops = [P('try_catch_raise_nested', inner), P('try_catch_std_raise_nested', inner), P('try_catch_any_raise_nested', inner2),
                P('seq', P('opt', c_()), P('try_catch_raise_nested', inner2)), P('try_catch_raise_nested', P('try_catch_raise_nested', inner)),
                P('must', inner2), P('sor', P('try_catch_return_false', inner), P('any'))]
        roots = [g.rule(t).id for t in tops]
        g.resolve()
        g.messages = {inner.id: "custom message of the inner rule", inner2.id: "custom message of the second inner rule", roots[0]: "custom message of the try_catch rule"}
        return [(g, roots, {'kind': 'nested-with-message'})]
    ps.append(Profile('nestmsg', nested_msg_grams, lambda g, root, tier: [Config(root, 1, m, 'lf_crlf', 0, uw, 0) for (m, uw) in (('r', 1), ('o', 0))],
                      profiles.inputs_exhaustive(4, 5, cap_q=200, cap_t=800), ORACLES, per_tu=1))
    from .c05_mustif import oracle_mustif
    ps.append(profiles.mustif_profile('mi', 14, 70, [('must_if', oracle_mustif), ('exception', oracle_exception)], per_tu=2))
    return engine.run_engine('C05', tier, ['PegtlVerif.Props.C05'], ps)


def replay(path: str) -> int:
    return engine.replay('C05', path, ORACLES)
