"""C09 — convenience and contrib rules equal their documented expansions.
Proof: lean/PegtlVerif/Props/C09.lean (every match() body refines Spec.expandKind of its kind in the PEG formalism,
including the blamed rule of global failures; two-form equivalences).
Tie: full-trace differential run on every derived rule × probe sub-rules (consuming-before-failing, nullable, raising),
bounds 0..3.  Oracle: semEval on the documented expansion vs the real result / consumed prefix / blamed rule."""
from . import engine, profiles
from .engine import oracle_sem

ORACLES = [('sem', oracle_sem)]
AM = ((1, 'r'), (1, 'o'), (0, 'o'))


def run(tier: str) -> int:
    ps = [
        profiles.systematic_profile('conv', lambda k, f: f in ('conv',), True, 56, 220, ORACLES,
                                    inputs=profiles.inputs_exhaustive(3, 5, cap_q=90, cap_t=700), per_tu=2, use_sem=True,
                                    configs=profiles.amr_configs(ams=AM),
                                    ctx_names=['top', 'sor-first', 'seq-tail', 'in-opt', 'in-tcrf', 'in-not_at']),
        profiles.systematic_profile('rep', lambda k, f: f in ('rep',), True, 30, 160, ORACLES,
                                    inputs=profiles.inputs_exhaustive(4, 6, cap_q=120, cap_t=900, alpha=[97, 98, 120]), per_tu=2, use_sem=True,
                                    configs=profiles.amr_configs(ams=AM), ctx_names=['top', 'sor-first', 'seq-tail', 'in-tcrf']),
        profiles.systematic_profile('raise', lambda k, f: f in ('raise',), True, 26, 150, ORACLES,
                                    inputs=profiles.inputs_exhaustive(3, 5, cap_q=90, cap_t=700), per_tu=2, use_sem=True,
                                    configs=profiles.amr_configs(ams=AM),
                                    ctx_names=['top', 'sor-first', 'seq-tail', 'in-opt', 'in-tcrf', 'in-at']),
        profiles.random_profile('rnd', False, True, 16, 100, ORACLES, actions_mode='void',
                                inputs=profiles.inputs_exhaustive(4, 6, cap_q=150, cap_t=1000), per_tu=2, use_sem=True,
                                configs=profiles.amr_configs(ams=AM)),
    ]
    from .c09_doc import doc_part
    return engine.run_engine('C09', tier, ['PegtlVerif.Props.C09'], ps, extra=lambda v, cov, rng: doc_part(v, cov, rng, tier))


def replay(path: str) -> int:
    return engine.replay('C09', path, ORACLES, use_sem=True)
