"""C09 — convenience and contrib rules equal their documented expansions.
Proof: lean/PegtlVerif/Props/C09.lean (every match() body refines Spec.expandKind of its kind in the PEG formalism,
including the blamed rule of global failures; two-form equivalences).
Tie: full-trace differential run on every derived rule × probe sub-rules (consuming-before-failing, nullable, raising),
bounds 0..3.  Oracle: semEval on the documented expansion vs the real result / consumed prefix / blamed rule."""
from .diffrun import Config
from . import engine, profiles
from .engine import oracle_sem

ORACLES = [('sem', oracle_sem)]
AM = ((1, 'r'), (1, 'o'), (0, 'o'))


def leaf_inputs(rng, g, tier):
    """Every string over { '1', 'a' } up to length 5 (runs of a counted character of every length around Min / Max, keywords, digit strings) and a
    sample over the wider alphabet of the leaf corpus."""
    from . import corpus
    base = corpus.all_strings([49, 97], 5)
    more = corpus.sample_inputs(rng, corpus.ZOO_ALPHA, 3, 40 if tier == 'quick' else 250, longer=2)
    return base + [d for d in more if d not in base] + [b'...', b'....', b'255', b'256', b'a1a1', b'\xc3\xa9\xc3\xa9']


def run(tier: str) -> int:
    ps = [
        profiles.systematic_profile('conv', lambda k, f: f in ('conv',), True, 56, 220, ORACLES,
                                    inputs=profiles.inputs_exhaustive(3, 5, cap_q=90, cap_t=700), per_tu=2, use_sem=True,
                                    configs=profiles.amr_configs(ams=AM),
                                    ctx_names=['top', 'sor-first', 'seq-tail', 'in-opt', 'in-tcrf', 'in-not_at']),
        profiles.systematic_profile('rep', lambda k, f: f in ('rep',), True, 30, 160, ORACLES,
                                    inputs=profiles.inputs_exhaustive(4, 6, cap_q=120, cap_t=900, alpha=[97, 98, 120]), per_tu=2, use_sem=True,
                                    configs=profiles.amr_configs(ams=AM), ctx_names=['top', 'sor-first', 'seq-tail', 'in-tcrf']),
        profiles.systematic_profile('raise', lambda k, f: f in ('raise',), True, 26, 150, ORACLES,
                                    inputs=profiles.inputs_exhaustive(3, 5, cap_q=90, cap_t=700), per_tu=2, use_sem=True,
                                    configs=profiles.amr_configs(ams=AM),
                                    ctx_names=['top', 'sor-first', 'seq-tail', 'in-opt', 'in-tcrf', 'in-at']),
        profiles.random_profile('rnd', False, True, 16, 100, ORACLES, actions_mode='void',
                                inputs=profiles.inputs_exhaustive(4, 6, cap_q=150, cap_t=1000), per_tu=2, use_sem=True,
                                configs=profiles.amr_configs(ams=AM)),
        # the leaf rules that are documented as optimised forms of a combination (rep_one_min_max, string, istring-free atoms, ranges, keyword,
        # two / three, predicates …) against the formalism's accept sets — over a memory input and over a buffer_input fed byte by byte,
        # where a leaf has to ask for every byte it looks at
        profiles.atoms_profile('leaves', ORACLES, per_tu=3, use_sem=True, exclude=('bol', 'bof', 'istring', 'istring0'), inputs=leaf_inputs,
                               configs=lambda g, root, tier: [Config(root, 1, 'r', 'lf_crlf', 0, 1, 0), Config(root, 1, 'r', 'lf_crlf', 2, 1, 0)]),
    ]
    from .c09_doc import doc_part
    return engine.run_engine('C09', tier, ['PegtlVerif.Props.C09'], ps, extra=lambda v, cov, rng: doc_part(v, cov, rng, tier))


def replay(path: str) -> int:
    return engine.replay('C09', path, ORACLES, use_sem=True)
