"""C11 — grammar analysis never certifies a grammar that can loop without progress.

Proof:  lean/PegtlVerif/Props/C11.lean over Model/Analyze.lean (transcription of contrib/analyze.hpp `work` /
        `problems` and of the analyze_traits.hpp table) and Model/Run.lean (the matcher).
Tie:    for every generated grammar and root the real `analyze_cycles< Root >` entry table is dumped and compared
        with `abstractFrom g root` (types and sub-rule lists, auxiliary types matched structurally), the model's
        `work`/`problems` is evaluated on the *dumped* table and must give the real count, and
        `problems (abstractFrom g root)` must agree with the real `analyze< Root >( -1 )` (zero / non-zero always,
        the exact count whenever the two tables are isomorphic).
Oracle: the property itself — every (grammar, root) with `analyze() == 0` is run by the real parser on all
        inputs up to the bound under a step budget and a nesting-depth limit; an overrun is a failing input
        (grammar + root + input).  The matcher model is run on the same cases with the pigeonhole fuel
        bound and must run out of fuel exactly when the real run overruns.
"""
from __future__ import annotations
import itertools
import json
import os
import random
import resource
import subprocess
import time
from concurrent.futures import ThreadPoolExecutor
from pathlib import Path
from typing import Any, Dict, List, Optional, Sequence, Tuple

from . import common, corpus, diffrun, leaf
from .gram import C, Grammar, N, P, Ref, T, grammar_from_json, grammar_to_json

PROP = 'C11'
A_, B_, C_, X_ = 97, 98, 99, 120
ALPHA = [A_, B_, C_, X_]
UNANALYSABLE = ('strict', 'starStrict')       # no analyze_traits specialisation exists: analyze<> does not compile
ALIASED_TRAITS = ('ifApply',)                 # analyze_traits< Name, if_apply< R, A... > > is R's own entry under another name; the model's table has a one-element seq instead: kept out of the C11 corpus
STEP_BUDGET = 200000
DEPTH_LIMIT = 3000
JOBS = 6


def a():
    return P('one', C(A_))


def b():
    return P('one', C(B_))


# ---------------------------------------------------------------- grammar families

def _has_rep_opt0(t) -> bool:
    """`rep_opt< 0, R >` is an ambiguous partial specialisation (internal/rep_opt.hpp): no such program compiles."""
    if isinstance(t, T):
        if t.name == 'rep_opt' and t.args and t.args[0] == ('n', 0) and len(t.args) > 1:
            return True
        return any(_has_rep_opt0(x) for x in t.args)
    return False


def _until_chain_cyclic(g: Grammar) -> bool:
    """`struct U : until< U >`-like chains have no complete analyze_traits (until< Cond > takes the traits of Cond)."""
    for nid, nd in g.nodes.items():
        seen = set()
        cur = nd
        while cur.kind == 'until1':
            if cur.id in seen:
                return True
            seen.add(cur.id)
            cur = g.nodes[cur.params[0]]
    return False


def usable(g: Grammar) -> bool:
    """Can `analyze< Rule >` be instantiated for this grammar at all?"""
    return (all(nd.kind not in UNANALYSABLE and nd.kind not in ALIASED_TRAITS for nd in g.nodes.values())
            and not any(_has_rep_opt0(t) for t in g.named.values())
            and not _until_chain_cyclic(g))


def fam_corpus(rng: random.Random, n_sys: int, n_rnd: int) -> List[Tuple[Grammar, List[int], Dict]]:
    """The engine corpus: systematic kind x probe grammars (each kind in every context) and random
    type-directed grammars (terminating by construction)."""
    out = []
    groups = corpus.systematic(rng, 'cs', lambda k, f: not k.startswith('strict') and not k.startswith('star_strict'),
                               True, max_grammars=n_sys, heavy=True,
                               ctx_names=['top', 'sor-first', 'seq-tail', 'in-at', 'in-opt', 'in-must'])
    for g, roots, meta in groups:
        if usable(g):
            out.append((g, roots, dict(meta, family='corpus-systematic')))
    i = 0
    tries = 0
    while i < n_rnd and tries < 20 * n_rnd + 20:
        tries += 1
        rg = corpus.RandGen(rng, False, True, rng.randint(3, 7))
        g, roots = rg.grammar(f"cr{i}")
        if not usable(g):
            continue
        out.append((g, roots, {'family': 'corpus-random', 'kind': 'random'}))
        i += 1
    return out


NULLABLES = [
    ('opt', lambda: P('opt', a())),
    ('success', lambda: P('success')),
    ('star', lambda: P('star', a())),
    ('at', lambda: P('at', a())),
    ('not_at', lambda: P('not_at', a())),
    ('eof', lambda: P('eof')),
    ('bol', lambda: P('bol')),
    ('eolf', lambda: P('eolf')),
    ('everything', lambda: P('everything')),
    ('require1', lambda: P('require', N(1))),
    ('bytes0', lambda: P('bytes', N(0))),
    ('string0', lambda: P('string')),
    ('seq_opt_opt', lambda: P('seq', P('opt', a()), P('opt', b()))),
    ('sor_a_success', lambda: P('sor', a(), P('success'))),
    ('sor_success_a', lambda: P('sor', P('success'), a())),
    ('rep_opt2', lambda: P('rep_opt', N(2), a())),
    ('rep0', lambda: P('rep', N(0), a())),
    ('rep_max2', lambda: P('rep_max', N(2), a())),
    ('rep_min_max02', lambda: P('rep_min_max', N(0), N(2), a())),
    ('rep2_opt', lambda: P('rep', N(2), P('opt', a()))),
    ('partial', lambda: P('partial', a(), b())),
    ('ite_nullable_else', lambda: P('if_then_else', a(), b(), P('success'))),
    ('ite_nullable_then', lambda: P('if_then_else', P('at', a()), P('success'), b())),
    ('opt_must', lambda: P('opt_must', a(), b())),
    ('rematch_opt', lambda: P('rematch', P('opt', a()), P('success'))),
    ('minus_opt', lambda: P('minus', P('opt', a()), b())),
    ('tcrf_opt', lambda: P('try_catch_return_false', P('opt', a()))),
    ('enable_opt', lambda: P('enable', P('opt', a()))),
    ('disable_opt', lambda: P('disable', P('opt', a()))),
    ('must_opt', lambda: P('must', P('opt', a()))),
    ('until_at', lambda: P('until', P('at', a()))),
    ('until2_at', lambda: P('until', P('at', a()), b())),
    ('plus_opt', lambda: P('plus', P('opt', a()))),
    ('star_partial', lambda: P('star_partial', a(), b())),
    ('pad_opt', lambda: P('pad_opt', a(), b())),
    ('list_nullable', lambda: P('list', P('opt', a()), b())),
]

LOOPS = [
    ('star', lambda n: P('star', n)),
    ('star2_nn', lambda n: P('star', n, n)),
    ('star2_an', lambda n: P('star', a(), n)),          # body consumes: fine
    ('plus', lambda n: P('plus', n)),
    ('plus2', lambda n: P('plus', n, n)),
    ('until_body', lambda n: P('until', b(), n)),
    ('until_body2', lambda n: P('until', b(), n, n)),
    ('until_cond', lambda n: P('until', n)),            # condition nullable: fine, returns at once
    ('list_elem_sep', lambda n: P('list', n, n)),
    ('list_elem', lambda n: P('list', n, b())),         # separator consumes: fine
    ('list3', lambda n: P('list', n, n, n)),
    ('list_tail', lambda n: P('list_tail', n, n)),
    ('list_must', lambda n: P('list_must', n, n)),
    ('rep_min0', lambda n: P('rep_min', N(0), n)),
    ('rep_min2', lambda n: P('rep_min', N(2), n)),
    ('star_partial', lambda n: P('star_partial', n, b())),
    ('star_partial1', lambda n: P('star_partial', n)),
    ('star_must', lambda n: P('star_must', n, n)),
    ('pad_padding', lambda n: P('pad', a(), n)),
    ('pad_opt_padding', lambda n: P('pad_opt', a(), n)),
    ('star_in_seq', lambda n: P('seq', a(), P('star', n), b())),
    ('star_in_at', lambda n: P('at', P('star', n))),
    ('star_in_not_at', lambda n: P('not_at', P('star', n))),
    ('star_in_rematch', lambda n: P('rematch', a(), P('star', n))),
    ('star_sor_nonfirst', lambda n: P('sor', b(), P('star', n))),
    ('star_ite_else', lambda n: P('if_then_else', b(), a(), P('star', n))),
    ('star_tcrf', lambda n: P('try_catch_return_false', P('star', n))),
    ('star_sor_raise', lambda n: P('star', P('sor', P('seq', b(), P('raise', a())), n))),
]


def fam_nullable_loops(rng: random.Random, limit: Optional[int]) -> List[Tuple[Grammar, List[int], Dict]]:
    """Every loop construct around every nullable body, the body inline and as a named rule."""
    combos = [(li, ni, named) for li in range(len(LOOPS)) for ni in range(len(NULLABLES)) for named in (False, True)]
    rng.shuffle(combos)
    # always: every nullable body under plain `star`, and every loop construct around `opt< 'a' >`
    keep = [(0, ni, False) for ni in range(len(NULLABLES))] + [(li, 0, bool(li % 2)) for li in range(1, len(LOOPS))]
    rest = [cmb for cmb in combos if cmb not in keep]
    sel = keep + rest
    if limit is not None:
        sel = sel[:max(limit, len(keep))]
    out = []
    for k, (li, ni, named) in enumerate(sel):
        g = Grammar(f"nl{k}")
        lname, lb = LOOPS[li]
        nname, nb = NULLABLES[ni]
        if named:
            nref = g.rule(nb())
            top = g.rule(lb(nref))
        else:
            top = g.rule(lb(nb()))
        g.resolve()
        if usable(g):
            out.append((g, [top.id], {'family': 'nullable-loop', 'loop': lname, 'body': nname, 'named': named}))
    return out


WRAPS = [
    ('direct', None),
    ('seq_head', lambda r: P('seq', r, b())),
    ('seq_after_nullable', lambda r: P('seq', P('opt', b()), r)),
    ('seq_after_at', lambda r: P('seq', P('at', b()), r)),
    ('seq_after_consuming', lambda r: P('seq', b(), r)),           # fine
    ('sor_nonfirst', lambda r: P('sor', b(), r)),
    ('sor_nonfirst_seq', lambda r: P('sor', P('at', b()), P('seq', r, b()))),
    ('sor3_last', lambda r: P('sor', b(), P('one', C(C_)), r)),
    ('at', lambda r: P('at', r)),
    ('not_at', lambda r: P('not_at', r)),
    ('opt', lambda r: P('opt', r)),
    ('star', lambda r: P('star', r)),
    ('plus', lambda r: P('plus', r)),
    ('rematch_head', lambda r: P('rematch', r, b())),
    ('rematch_inner', lambda r: P('rematch', b(), r)),
    ('rematch_inner2', lambda r: P('rematch', b(), P('success'), r)),
    ('minus_head', lambda r: P('minus', r, b())),
    ('minus_inner', lambda r: P('minus', b(), r)),
    ('tcrf', lambda r: P('try_catch_return_false', r)),
    ('tcrn', lambda r: P('try_catch_raise_nested', r)),
    ('tc_any_rf', lambda r: P('try_catch_any_return_false', r)),
    ('ite_cond', lambda r: P('if_then_else', r, a(), b())),
    ('ite_then_after_at', lambda r: P('if_then_else', P('at', b()), r, a())),
    ('ite_then_after_consuming', lambda r: P('if_then_else', b(), r, a())),   # fine
    ('ite_else', lambda r: P('if_then_else', b(), a(), r)),
    ('enable', lambda r: P('enable', r)),
    ('disable', lambda r: P('disable', r)),
    ('must', lambda r: P('must', r)),
    ('must2_second_after_nullable', lambda r: P('must', P('opt', b()), r)),
    ('if_must_cond', lambda r: P('if_must', r, b())),
    ('if_must_rule_after_nullable', lambda r: P('if_must', P('opt', b()), r)),
    ('if_must3_last_after_nullable', lambda r: P('if_must', P('opt', b()), P('success'), r)),
    ('opt_must_cond', lambda r: P('opt_must', r, b())),
    ('opt_must_rule_after_nullable', lambda r: P('opt_must', P('at', b()), r)),
    ('if_must_else_else', lambda r: P('if_must_else', b(), a(), r)),
    ('rep2', lambda r: P('rep', N(2), r)),
    ('rep_opt2', lambda r: P('rep_opt', N(2), r)),
    ('rep_min_max02', lambda r: P('rep_min_max', N(0), N(2), r)),
    ('rep_min_max12', lambda r: P('rep_min_max', N(1), N(2), r)),
    ('rep_min_max00', lambda r: P('rep_min_max', N(0), N(0), r)),
    ('rep_min1', lambda r: P('rep_min', N(1), r)),
    ('until_cond', lambda r: P('until', r)),
    ('until_cond_star', lambda r: P('until', P('star', r))),
    ('until2_cond', lambda r: P('until', r, b())),
    ('until2_body', lambda r: P('until', b(), r)),
    ('list_elem', lambda r: P('list', r, b())),
    ('list_sep', lambda r: P('list', P('opt', b()), r)),
    ('list_tail_elem', lambda r: P('list_tail', r, b())),
    ('pad_rule', lambda r: P('pad', r, b())),
    ('pad_padding', lambda r: P('pad', b(), r)),
    ('pad_opt_padding', lambda r: P('pad_opt', b(), r)),
    ('partial_first', lambda r: P('partial', r, b())),
    ('partial_second_after_nullable', lambda r: P('partial', P('opt', b()), r)),
    ('star_partial_first', lambda r: P('star_partial', r, b())),
    ('star_must_cond', lambda r: P('star_must', r, b())),
    ('sor_after_raise_alt', lambda r: P('sor', P('seq', b(), P('raise', a())), r)),
    ('seq_after_at_raise', lambda r: P('seq', P('not_at', P('raise', b())), r)),
]


def fam_left_recursion(rng: random.Random, limit: Optional[int]) -> List[Tuple[Grammar, List[int], Dict]]:
    """R = K[ ..., W[R], ... ]: the rule itself in every slot of every kind (other slots consuming or
    nullable), directly or through every wrapper; plus two- and three-rule cycles."""
    ks = [k for k in corpus.kinds(False, True) if not k[0].startswith('strict') and not k[0].startswith('star_strict') and k[3] != 'apply']
    fillers = [('consuming', a), ('nullable', lambda: P('opt', a())), ('lookahead', lambda: P('at', a()))]
    combos = []
    for ki, (kname, nslots, build, fam) in enumerate(ks):
        for slot in range(nslots):
            for fi in range(len(fillers) if nslots > 1 else 1):
                combos.append(('kind', ki, slot, fi, 0))
    core = [i for i, k in enumerate(ks) if k[0] in ('seq2', 'sor2')]
    for wi in range(1, len(WRAPS)):
        for ki in core:
            for slot in range(ks[ki][1]):
                for fi in (0, 1):
                    combos.append(('wrap', ki, slot, fi, wi))
    for wi in range(len(WRAPS)):
        combos.append(('cycle2', 0, 0, 0, wi))
        combos.append(('cycle3', 0, 0, 0, wi))
    rng.shuffle(combos)
    keep, seen = [], set()
    for cmb in combos:
        keys = [('k', cmb[1], cmb[2]), ('w', cmb[4]), ('t', cmb[0])]
        if cmb[0] == 'kind' and any(k not in seen for k in keys) or cmb[0] != 'kind' and (('w', cmb[4], cmb[0]) not in seen):
            keep.append(cmb)
            seen.update(keys)
            seen.add(('w', cmb[4], cmb[0]))
    rest = [cmb for cmb in combos if cmb not in keep]
    sel = keep + rest
    if limit is not None:
        sel = sel[:limit]
    out = []
    for k, (typ, ki, slot, fi, wi) in enumerate(sel):
        g = Grammar(f"lr{k}")
        wname, wrap = WRAPS[wi]
        R = g.declare()
        if typ in ('kind', 'wrap'):
            kname, nslots, build, fam = ks[ki]
            target = R if wrap is None else g.rule(wrap(R))
            slots = [fillers[fi][1]() for _ in range(nslots)]
            slots[slot] = target
            g.define(R, build(*slots))
            meta = {'family': 'left-recursion', 'shape': typ, 'kind': kname, 'slot': slot, 'filler': fillers[fi][0], 'wrap': wname}
        elif typ == 'cycle2':
            S = g.declare()
            g.define(R, P('sor', a(), S))
            g.define(S, wrap(R) if wrap else P('seq', R))
            meta = {'family': 'left-recursion', 'shape': 'cycle2', 'wrap': wname}
        else:
            S = g.declare()
            T3 = g.declare()
            g.define(R, P('seq', P('opt', a()), S))
            g.define(S, P('sor', b(), T3))
            g.define(T3, wrap(R) if wrap else P('seq', R))
            meta = {'family': 'left-recursion', 'shape': 'cycle3', 'wrap': wname}
        g.resolve()
        if usable(g):
            out.append((g, [R.id], meta))
    return out


# ---------------------------------------------------------------- C++ side

def tu_source(groups: List[Tuple[Grammar, List[int]]]) -> Tuple[str, Dict[Tuple[str, int], int]]:
    o = ['#include "leaf_c11.hpp"', '#include <iostream>', '#include <sstream>']
    for g, _ in groups:
        o.append(g.cpp_decls())
    idx: Dict[Tuple[str, int], int] = {}
    o.append("static void analyze_all() {")
    for g, roots in groups:
        for r in roots:
            o.append(f"  c11::dumper< {g.ns}::tag, {g.nodes[r].cpp} >().dump( \"{g.gid}\", {r} );")
    o.append("}")
    o.append("static void dispatch( int cfg, const char* cid, const std::string& bytes ) {")
    o.append("  switch( cfg ) {")
    k = 0
    for g, roots in groups:
        for r in roots:
            idx[(g.gid, r)] = k
            o.append(f"  case {k}: c11::run_light< {g.nodes[r].cpp} >( cid, bytes ); break;")
            k += 1
    o.append('  default: std::printf( "BAD cfg %d\\n", cfg );')
    o.append("  }")
    o.append("}")
    o.append(r'''
static int hv( char c ) { return ( c >= '0' && c <= '9' ) ? c - '0' : ( c >= 'a' && c <= 'f' ) ? c - 'a' + 10 : 0; }
int main( int argc, char** argv ) {''')
    for g, _ in groups:
        o.append(f"  {g.ns}::reg();")
    o.append(f"  c11::g_budget = {STEP_BUDGET}; c11::g_depth_limit = {DEPTH_LIMIT};")
    o.append(r'''  if( argc > 1 && argv[ 1 ][ 0 ] == 'A' ) { analyze_all(); return 0; }
  std::string line;
  while( std::getline( std::cin, line ) ) {
    std::istringstream is( line );
    int cfg; std::string cid, hex;
    if( !( is >> cfg >> cid >> hex ) ) continue;
    std::string bytes;
    if( hex != "-" ) for( std::size_t i = 0; i + 1 < hex.size(); i += 2 ) bytes.push_back( char( hv( hex[ i ] ) * 16 + hv( hex[ i + 1 ] ) ) );
    dispatch( cfg, cid.c_str(), bytes );
  }
  return 0;
}''')
    return "\n".join(o) + "\n", idx


def cxx_flags() -> List[str]:
    return ['-std=c++17', '-I', str(common.REPO / 'include'), '-I', str(common.VERIF / 'harness'), '-DTAO_PEGTL_VERIF', '-w',
            '-O1', '-fsanitize=address,undefined', '-fno-sanitize-recover=all']


def big_stack():
    """1 GiB of stack for the child: enough for the depth limit of the run harness under ASan, and a bound for
    an analysis that recurses without end (its stack overflow is then reported as a died harness)."""
    try:
        lim = 1 << 30
        hard = resource.getrlimit(resource.RLIMIT_STACK)[1]
        if hard != resource.RLIM_INFINITY:
            lim = min(lim, hard)
        resource.setrlimit(resource.RLIMIT_STACK, (lim, hard))
    except (ValueError, OSError):
        pass


RUN_ENV = dict(os.environ, ASAN_OPTIONS='detect_leaks=0:detect_stack_use_after_return=0', UBSAN_OPTIONS='print_stacktrace=1')


class Batch:
    def __init__(self, bi: int, groups: List[Tuple[Grammar, List[int], Dict]], bdir: Path):
        self.bi = bi
        self.groups = groups
        self.src = bdir / f"tu{bi}.cpp"
        self.exe = bdir / f"tu{bi}"
        self.idx: Dict[Tuple[str, int], int] = {}
        self.compile_err = ''
        self.compile_s = 0.0

    def compile(self):
        src, self.idx = tu_source([(g, roots) for g, roots, _ in self.groups])
        self.src.write_text(src)
        t0 = time.time()
        cp = subprocess.run(['g++'] + cxx_flags() + [str(self.src), '-o', str(self.exe)], capture_output=True, text=True)
        self.compile_s = time.time() - t0
        if cp.returncode != 0:
            self.compile_err = cp.stderr[:3000]
        return self

    def analyze(self) -> Tuple[int, str, str]:
        p = subprocess.run([str(self.exe), 'A'], capture_output=True, text=True, env=RUN_ENV, preexec_fn=big_stack, timeout=600)
        return p.returncode, p.stdout, p.stderr

    def run_cases(self, feed: List[str]) -> Tuple[int, str, str]:
        try:
            p = subprocess.run([str(self.exe), 'R'], input="\n".join(feed) + "\n", capture_output=True, text=True, env=RUN_ENV,
                               preexec_fn=big_stack, timeout=1200)
            return p.returncode, p.stdout, p.stderr
        except subprocess.TimeoutExpired as e:
            out = e.stdout.decode() if isinstance(e.stdout, bytes) else (e.stdout or '')
            return -999, out, 'timeout'


# ---------------------------------------------------------------- tables

class Table:
    """One dumped `m_entries`: idx -> (node id or -1, type, [sub idx], name)."""

    def __init__(self):
        self.entries: Dict[int, Tuple[int, str, List[int], str]] = {}
        self.problems: Optional[int] = None
        self.problems_fn: Optional[int] = None
        self.n: Optional[int] = None


def parse_dump(text: str) -> Dict[Tuple[str, int], Table]:
    out: Dict[Tuple[str, int], Table] = {}
    for line in text.splitlines():
        if line.startswith('T '):
            head, _, name = line.partition(' | ')
            f = head.split()
            t = out.setdefault((f[1], int(f[2])), Table())
            n = int(f[6])
            t.entries[int(f[3])] = (int(f[4]), f[5], [int(x) for x in f[7:7 + n]], name)
        elif line.startswith('P '):
            f = line.split()
            t = out.setdefault((f[1], int(f[2])), Table())
            t.n, t.problems, t.problems_fn = int(f[3]), int(f[4]), int(f[5])
    return out


def compare_tables(cpp: Table, model: Dict[str, Tuple[str, List[str]]], root: int) -> Tuple[Optional[str], bool]:
    """Is the model's table (key -> (type, sub keys); keys `n<i>` / `x<i>.<k>`) the real table, with the
    auxiliary types matched structurally?  Returns (error or None, isomorphic?)."""
    by_node = {nid: i for i, (nid, _, _, _) in cpp.entries.items() if nid >= 0}
    pairs: Dict[str, int] = {}
    todo: List[Tuple[str, int]] = []
    if root not in by_node:
        return f"the real table has no entry for the root node {root}", False
    todo.append((f"n{root}", by_node[root]))
    while todo:
        mk, ci = todo.pop()
        if mk in pairs:
            if pairs[mk] != ci:
                return f"model entry {mk} corresponds to two real entries: {cpp.entries[pairs[mk]][3]} and {cpp.entries[ci][3]}", False
            continue
        pairs[mk] = ci
        if mk not in model:
            return f"model has no entry {mk} (real: {cpp.entries[ci][3]})", False
        mty, msubs = model[mk]
        nid, cty, csubs, cname = cpp.entries[ci]
        if mk.startswith('n') and nid != int(mk[1:]):
            return f"model entry {mk} is matched with real entry {cname} (node {nid})", False
        if mty != cty:
            return f"entry {mk} / {cname}: model type {mty}, real type {cty}", False
        if len(msubs) != len(csubs):
            return f"entry {mk} / {cname}: model subs {msubs}, real subs {[cpp.entries[s][3] for s in csubs]}", False
        for ms, cs in zip(msubs, csubs):
            if ms.startswith('n'):
                if cpp.entries[cs][0] != int(ms[1:]):
                    return (f"entry {mk} / {cname}: model sub {ms}, real sub {cpp.entries[cs][3]} (node {cpp.entries[cs][0]})"), False
            todo.append((ms, cs))
    if set(pairs) != set(model):
        return f"model entries not reached by the comparison: {sorted(set(model) - set(pairs))}", False
    if set(pairs.values()) != set(cpp.entries):
        miss = [cpp.entries[i][3] for i in set(cpp.entries) - set(pairs.values())]
        return f"real entries the model does not have: {miss}", False
    iso = len(set(pairs.values())) == len(pairs)
    return None, iso


def run_lean_analysis(drv: Path, items: List[Tuple[Grammar, List[int], Dict[Tuple[str, int], Table]]]) -> Tuple[Dict, Dict, Dict, str]:
    """-> (AN: (gid, root) -> (entries, problems), AE: (gid, root) -> {key: (type, subs)}, TP: (gid, root) -> (entries, problems))"""
    lines: List[str] = []
    for g, roots, tabs in items:
        lines += g.proto_lines()
        for r in roots:
            lines.append(f"AN {g.gid} {r}")
            t = tabs.get((g.gid, r))
            if t is not None and t.entries:
                for i, (nid, ty, subs, name) in sorted(t.entries.items()):
                    lines.append(f"T {i} {ty} {len(subs)} " + " ".join(map(str, subs)))
                lines.append(f"TP {g.gid}:{r}")
    p = subprocess.run([str(drv)], input="\n".join(lines) + "\n", capture_output=True, text=True)
    an, ae, tp = {}, {}, {}
    err = p.stderr if p.returncode != 0 else ''
    for l in p.stdout.splitlines():
        f = l.split()
        if not f:
            continue
        if f[0] == 'AN':
            an[(f[1], int(f[2]))] = (int(f[3]), int(f[4]))
            ae[(f[1], int(f[2]))] = {}
        elif f[0] == 'AE':
            n = int(f[5])
            ae[(f[1], int(f[2]))][f[3]] = (f[4], f[6:6 + n])
        elif f[0] == 'TP':
            gid, _, r = f[1].partition(':')
            tp[(gid, int(r))] = (int(f[2]), int(f[3]))
        elif f[0] == 'BAD':
            err += l + "\n"
    return an, ae, tp, err


# ---------------------------------------------------------------- matcher model (loop cross-check)

def model_fuel(g: Grammar, maxlen: int) -> int:
    """A run that nests deeper than (|input| + 1) * |nodes| repeats a (rule, position) pair on the
    call stack; loops add at most |input| + 1 iterations per level."""
    return (maxlen + 2) * (len(g.nodes) + 2) + 8


def run_matcher_model(cases: List[Tuple[str, Grammar, int, bytes]], maxlen: int) -> Dict[str, str]:
    """The matcher model (lean exe `pegtl_drv`) on the same cases, through the shared driver protocol of
    vlib/diffrun.py; one fuel for all: the largest pigeonhole bound.  -> cid -> `R …` line (`R none` = out of fuel)."""
    if not cases:
        return {}
    fuel = max(model_fuel(g, maxlen) for _, g, _, _ in cases)
    dcases = [diffrun.Case(cid, g, diffrun.Config(root, 0, 'r'), data) for cid, g, root, data in cases]
    traces, _ = diffrun.run_model(dcases, fuel, False, jobs=JOBS)
    return {cid: tr.result for cid, tr in traces.items()}


# ---------------------------------------------------------------- rules outside the node-table model (C++ only)

NATIVE_PRELUDE = '#include <tao/pegtl/contrib/raw_string.hpp>\nnamespace nat { using namespace tao::pegtl; struct tag {};\n'
NATIVE = [
    # (name, declarations, root type, does the real parser loop for some input?)
    ('raw_plain', 'struct r0 : raw_string< \'[\', \'=\', \']\' > {};', 'r0'),
    ('raw_consuming', 'struct r1 : raw_string< \'[\', \'=\', \']\', one< \'a\' > > {};', 'r1'),
    ('raw_nullable_opt', 'struct r2 : raw_string< \'[\', \'=\', \']\', opt< one< \'a\' > > > {};', 'r2'),
    ('raw_nullable_star', 'struct r3 : raw_string< \'[\', \'=\', \']\', star< one< \'a\' > > > {};', 'r3'),
    ('raw_nullable_at', 'struct r4 : raw_string< \'[\', \'=\', \']\', at< one< \'a\' > > > {};', 'r4'),
    ('raw_two_contents_nullable', 'struct r5 : raw_string< \'[\', \'=\', \']\', opt< one< \'a\' > >, success > {};', 'r5'),
    ('raw_two_contents_consuming', 'struct r6 : raw_string< \'[\', \'=\', \']\', opt< one< \'a\' > >, any > {};', 'r6'),
    ('raw_in_star', 'struct r7 : star< raw_string< \'[\', \'=\', \']\' > > {};', 'r7'),
    ('raw_recursive_content', 'struct r8; struct r8 : raw_string< \'[\', \'=\', \']\', sor< r8, any > > {};', 'r8'),
    ('raw_left_recursive_sor', 'struct r9; struct r9 : sor< seq< r9, one< \'a\' > >, raw_string< \'[\', \'=\', \']\' > > {};', 'r9'),
]
NATIVE_ALPHA = [ord('['), ord('='), ord(']'), ord('a')]


def evaluate_native(v: common.Verdict, stats: Dict[str, Any], maxlen: int) -> None:
    """`raw_string< Open, Marker, Close, Contents... >` has traits (contrib/raw_string.hpp) but no node kind in the
    model: only the property's own oracle is applied — analyze() == 0 must imply that no input overruns."""
    bdir = common.BUILD / 'c11_native'
    if bdir.exists():
        subprocess.run(['rm', '-rf', str(bdir)])
    bdir.mkdir(parents=True, exist_ok=True)
    o = ['#include "leaf_c11.hpp"', '#include <iostream>', '#include <sstream>', NATIVE_PRELUDE]
    for _, decl, _ in NATIVE:
        o.append(decl)
    o.append('}')
    o.append('static void analyze_all() {')
    for k, (name, _, root) in enumerate(NATIVE):
        o.append(f'  c11::dumper< nat::tag, nat::{root} >().dump( "{name}", {k} );')
    o.append('}')
    o.append('static void dispatch( int cfg, const char* cid, const std::string& bytes ) {\n  switch( cfg ) {')
    for k, (name, _, root) in enumerate(NATIVE):
        o.append(f'  case {k}: c11::run_light< nat::{root} >( cid, bytes ); break;')
    o.append('  }\n}')
    o.append(r"""
static int hv( char c ) { return ( c >= '0' && c <= '9' ) ? c - '0' : ( c >= 'a' && c <= 'f' ) ? c - 'a' + 10 : 0; }
int main( int argc, char** argv ) {""")
    o.append(f"  c11::g_budget = {STEP_BUDGET}; c11::g_depth_limit = {DEPTH_LIMIT};")
    o.append(r"""  if( argc > 1 && argv[ 1 ][ 0 ] == 'A' ) { analyze_all(); return 0; }
  std::string line;
  while( std::getline( std::cin, line ) ) {
    std::istringstream is( line );
    int cfg; std::string cid, hex;
    if( !( is >> cfg >> cid >> hex ) ) continue;
    std::string bytes;
    if( hex != "-" ) for( std::size_t i = 0; i + 1 < hex.size(); i += 2 ) bytes.push_back( char( hv( hex[ i ] ) * 16 + hv( hex[ i + 1 ] ) ) );
    dispatch( cfg, cid.c_str(), bytes );
  }
  return 0;
}""")
    src = bdir / 'native.cpp'
    exe = bdir / 'native'
    src.write_text("\n".join(o) + "\n")
    cp = subprocess.run(['g++'] + cxx_flags() + [str(src), '-o', str(exe)], capture_output=True, text=True)
    if cp.returncode != 0:
        v.broke("native (raw_string) harness no longer compiles against the repo headers: " + cp.stderr[:1500])
        return
    p = subprocess.run([str(exe), 'A'], capture_output=True, text=True, env=RUN_ENV, preexec_fn=big_stack, timeout=600)
    if p.returncode != 0:
        v.broke(f"native analysis harness died rc={p.returncode}: {p.stderr[:800]}")
        return
    tabs = parse_dump(p.stdout)
    inputs = corpus.all_strings(NATIVE_ALPHA, maxlen)
    feed = []
    res_of = {}
    for k, (name, decl, root) in enumerate(NATIVE):
        t = tabs.get((name, k))
        if t is None or t.problems_fn is None:
            v.broke(f"no analysis output for native grammar {name}")
            continue
        res_of[name] = t.problems_fn
        ins = inputs if t.problems_fn == 0 else [b for b in inputs if len(b) <= 2]
        for data in ins:
            feed.append(f"{k} {name}.{data.hex() or '-'} {data.hex() if data else '-'}")
    try:
        rp = subprocess.run([str(exe), 'R'], input="\n".join(feed) + "\n", capture_output=True, text=True, env=RUN_ENV,
                            preexec_fn=big_stack, timeout=1200)
    except subprocess.TimeoutExpired:
        v.broke("native run harness timed out")
        return
    st = stats.setdefault('native', {'grammars': len(NATIVE), 'analyze': res_of, 'runs': 0, 'overruns_flagged': 0, 'oracle_hits': 0})
    for l in rp.stdout.splitlines():
        f = l.split()
        if not f or f[0] != 'RUN':
            continue
        st['runs'] += 1
        stats['run_cases'] = stats.get('run_cases', 0) + 1
        name, _, hx = f[1].partition('.')
        if f[2] in ('B', 'D'):
            if res_of.get(name) == 0:
                st['oracle_hits'] += 1
                stats['oracle_hits'] = stats.get('oracle_hits', 0) + 1
                decl = [d for n, d, r in NATIVE if n == name][0]
                v.failing_input({'native_grammar': name, 'cpp': decl, 'input_hex': '' if hx == '-' else hx,
                                 'what': f"analyze() == 0 but parsing overran ({' '.join(f)})"})
            else:
                st['overruns_flagged'] += 1
        elif int(f[3]) > 0:
            stats.setdefault('nontrivial', set()).add('native:' + f[1])
    if rp.returncode != 0:
        v.broke(f"native run harness died rc={rp.returncode}: {rp.stderr[:800]}")


# ---------------------------------------------------------------- the check

def all_inputs(maxlen: int) -> List[bytes]:
    return corpus.all_strings(ALPHA, maxlen)


def payload_for(g: Grammar, root: int, meta: Dict, extra: Dict) -> Dict:
    d = {'grammar_def': grammar_to_json(g), 'root': root,
         'grammar_cpp': [f"n{nid}: {nd.cpp} [{nd.flavour}]" for nid, nd in sorted(g.nodes.items())],
         'grammar_rules': {f"n{rid}": repr_type(t) for rid, t in sorted(g.named.items())},
         'grammar': g.proto_lines(), 'meta': meta}
    d.update(extra)
    return d


def repr_type(t) -> str:
    from .gram import spell
    return spell(t, 'g')


def evaluate(v: common.Verdict, groups: List[Tuple[Grammar, List[int], Dict]], maxlen: int, stats: Dict[str, Any], tag: str,
             per_tu: int = 6, inputs: Optional[List[bytes]] = None, flagged_inputs: Optional[List[bytes]] = None) -> None:
    """inputs: what every certified (analyze() == 0) grammar is run on (default: all strings up to maxlen);
    flagged_inputs: what the grammars with problems are run on, to confirm that the witness search sees loops
    and that the matcher model loops exactly when the real parser does (default: all strings up to length 1)."""
    bdir = common.BUILD / f"c11_{tag}"
    if bdir.exists():
        subprocess.run(['rm', '-rf', str(bdir)])
    bdir.mkdir(parents=True, exist_ok=True)
    drv = leaf.lean_exe('drv_c11')
    batches = [Batch(i, groups[k:k + per_tu], bdir) for i, k in enumerate(range(0, len(groups), per_tu))]
    with ThreadPoolExecutor(max_workers=JOBS) as ex:
        list(ex.map(lambda bt: bt.compile(), batches))
    meta_of = {g.gid: meta for g, _, meta in groups}
    gram_of = {g.gid: g for g, _, _ in groups}
    st = stats
    for k in ('grammars', 'roots', 'tables_equal', 'tables_isomorphic', 'count_equal', 'zero', 'nonzero', 'work_on_real_table_equal',
              'run_cases', 'overruns', 'model_loop_agree', 'oracle_hits', 'mismatch', 'entries_total'):
        st.setdefault(k, 0)
    st.setdefault('families', {})
    st.setdefault('kinds', {})
    st.setdefault('samples', [])
    st.setdefault('nontrivial', set())
    st.setdefault('compile_cpu_s', 0.0)
    st.setdefault('max_steps_terminating', 0)
    st.setdefault('max_depth_terminating', 0)

    def analyze_batch(bt: Batch):
        if bt.compile_err:
            return bt, None
        return bt, bt.analyze()

    with ThreadPoolExecutor(max_workers=JOBS) as ex:
        analysed = list(ex.map(analyze_batch, batches))

    certified = set()
    run_feed: Dict[int, List[str]] = {}
    run_cases: List[Tuple[str, Grammar, int, bytes]] = []
    case_of: Dict[str, Tuple[Grammar, int, bytes]] = {}
    if inputs is None:
        inputs = all_inputs(maxlen)
    if flagged_inputs is None:
        flagged_inputs = all_inputs(1)
    for bt, res in analysed:
        st['compile_cpu_s'] += bt.compile_s
        if res is None:
            v.broke(f"harness no longer compiles against the repo headers (batch {bt.bi}: {[g.gid for g, _, _ in bt.groups]}): {bt.compile_err[:1500]}")
            continue
        rc, out, err = res
        if rc != 0:
            v.broke(f"correspondence: the analysis harness died (batch {bt.bi}): rc={rc} {err[:1500]}")
        tabs = parse_dump(out)
        an, ae, tp, lerr = run_lean_analysis(drv, [(g, roots, tabs) for g, roots, _ in bt.groups])
        if lerr:
            v.broke(f"lean driver drv_c11 failed: {lerr[:800]}")
        for g, roots, meta in bt.groups:
            st['grammars'] += 1
            st['families'][meta.get('family', '?')] = st['families'].get(meta.get('family', '?'), 0) + 1
            for nd in g.nodes.values():
                st['kinds'][nd.kind] = st['kinds'].get(nd.kind, 0) + 1
            for r in roots:
                key = (g.gid, r)
                t = tabs.get(key)
                if t is None or t.problems is None:
                    if rc == 0:
                        v.broke(f"correspondence: no analysis output for {key}")
                    continue
                st['roots'] += 1
                st['entries_total'] += t.n
                real = t.problems_fn
                problem_notes = []
                if t.problems != t.problems_fn:
                    problem_notes.append(f"problems() of the dumped object = {t.problems}, analyze<>() = {t.problems_fn}")
                # (1) work/problems on the real table
                if key in tp and tp[key] == (t.n, real):
                    st['work_on_real_table_equal'] += 1
                else:
                    problem_notes.append(f"model `problems` on the real entry table gives {tp.get(key)}, real (entries, problems) = {(t.n, real)}")
                # (2) abstract vs real table
                err_t, iso = compare_tables(t, ae.get(key, {}), r)
                if err_t is None:
                    st['tables_equal'] += 1
                    if iso:
                        st['tables_isomorphic'] += 1
                else:
                    problem_notes.append("trait table: " + err_t)
                # (3) problems (abstractFrom g root) vs analyze<>()
                m_entries, m_problems = an.get(key, (None, None))
                if m_problems is None or (m_problems == 0) != (real == 0):
                    problem_notes.append(f"model analyze = {m_problems}, real analyze = {real}")
                elif err_t is None and iso and m_problems != real:
                    problem_notes.append(f"isomorphic tables but model count {m_problems} != real count {real}")
                elif m_problems == real:
                    st['count_equal'] += 1
                st['zero' if real == 0 else 'nonzero'] += 1
                h = json.dumps([g.proto_lines()[1:], r])
                st['nontrivial'].add(h) if (real != 0 or any(nd.kind in ('starPartial', 'plus', 'until2', 'seq', 'sor') for nd in g.nodes.values())) else None
                if problem_notes:
                    st['mismatch'] += 1
                    if st['mismatch'] <= 3:
                        v.broke("correspondence: " + "; ".join(problem_notes) + " :: " + json.dumps(payload_for(g, r, meta, {
                            'real_table': [f"{i}: node={e[0]} {e[1]} {e[2]} {e[3]}" for i, e in sorted(t.entries.items())],
                            'model_table': ae.get(key)}))[:5000])
                if len(st['samples']) < 6 and (st['roots'] % 37 == 1 or (real != 0 and len([s for s in st['samples'] if s['analyze'] != 0]) < 2)):
                    st['samples'].append({'rules': {f"n{rid}": repr_type(tt) for rid, tt in sorted(g.named.items())}, 'root': r,
                                          'entries': t.n, 'analyze': real, 'model_analyze': m_problems, 'meta': meta})
                # oracle cases: every grammar the real analysis certifies
                for data in (inputs if real == 0 else flagged_inputs):
                    cid = f"{g.gid}.{r}.{data.hex() or '-'}"
                    run_feed.setdefault(bt.bi, []).append(f"{bt.idx[key]} {cid} {data.hex() if data else '-'}")
                    case_of[cid] = (g, r, data)
                    run_cases.append((cid, g, r, data))
                    if real == 0:
                        certified.add(key)

    # (4) the oracle: run the real parser on every certified grammar
    def run_batch(bt: Batch):
        feed = run_feed.get(bt.bi)
        if not feed:
            return bt, None
        return bt, bt.run_cases(feed)

    results: Dict[str, List[str]] = {}
    with ThreadPoolExecutor(max_workers=JOBS) as ex:
        for bt, res in ex.map(run_batch, batches):
            if res is None:
                continue
            rc, out, err = res
            got = set()
            for l in out.splitlines():
                f = l.split()
                if f and f[0] == 'RUN':
                    results[f[1]] = f
                    got.add(f[1])
            if rc != 0:
                # the process died: the first case without a RUN line is the culprit
                missing = [l.split()[1] for l in run_feed[bt.bi] if l.split()[1] not in got]
                cid = missing[0] if missing else None
                if cid is not None and cid in case_of:
                    g, r, data = case_of[cid]
                    st['oracle_hits'] += 1
                    v.failing_input(payload_for(g, r, meta_of[g.gid], {
                        'input_hex': data.hex(), 'what': f"analyze() == 0 but the parsing run died (rc={rc}): {err[:600]}", 'observed': 'crash'}))
                else:
                    v.broke(f"run harness died (batch {bt.bi}) rc={rc}: {err[:800]}")
    looping_flagged = set()
    for cid, f in results.items():
        g, r, data = case_of[cid]
        st['run_cases'] += 1
        res, used, steps, depth = f[2], int(f[3]), int(f[4]), int(f[5])
        if res in ('B', 'D'):
            st['overruns'] += 1
            if (g.gid, r) not in certified:
                looping_flagged.add((g.gid, r))
            else:
                st['oracle_hits'] += 1
                if len(v.violations) < 6:
                    v.failing_input(payload_for(g, r, meta_of[g.gid], {
                        'input_hex': data.hex(),
                        'what': f"analyze< n{r} >() == 0 but parsing input {data!r} "
                                + (f"made more than {STEP_BUDGET} rule invocations" if res == 'B' else
                                   f"nested rule invocations deeper than {DEPTH_LIMIT} (> (|input|+1) * |rules| = {(len(data) + 1) * len(g.nodes)}: a (rule, position) pair repeats on the call stack)"),
                        'observed': ' '.join(f)}))
        else:
            st['max_steps_terminating'] = max(st['max_steps_terminating'], steps)
            st['max_depth_terminating'] = max(st['max_depth_terminating'], depth)
            if used > 0 or res == '2':
                st['nontrivial'].add(json.dumps([g.proto_lines()[1:], r, data.hex()]))
    st['flagged_with_confirmed_loop'] = st.get('flagged_with_confirmed_loop', 0) + len(looping_flagged)
    # (5) matcher model: out of fuel exactly when the real run overruns
    mres = run_matcher_model(run_cases, maxlen)
    for cid, g, r, data in run_cases:
        f = results.get(cid)
        m = mres.get(cid)
        if f is None:
            continue            # the run harness died on this batch: reported above
        if m is None:
            st['mismatch'] += 1
            if st['mismatch'] <= 3:
                v.broke(f"matcher model driver gave no result for case {cid}")
            continue
        real_loop = f[2] in ('B', 'D')
        model_loop = (m == 'R none')
        if real_loop == model_loop:
            st['model_loop_agree'] += 1
        else:
            st['mismatch'] += 1
            if st['mismatch'] <= 3:
                v.broke(f"correspondence: matcher model {'runs out of fuel' if model_loop else 'terminates'} but the real run "
                        f"{'overruns' if real_loop else 'terminates'} ({' '.join(f)}; model {m}) :: "
                        + json.dumps(payload_for(g, r, meta_of[g.gid], {'input_hex': data.hex()}))[:3000])


def build(v: common.Verdict) -> bool:
    ok, out = common.lake_build(['drv_c11', 'pegtl_drv'])
    if not ok:
        v.broke('lean drivers drv_c11 / pegtl_drv do not build: ' + out[-600:])
    return ok


def evidence(rep: common.LeanReport, stats: Dict[str, Any], tier: str, maxlen: int) -> Dict[str, Any]:
    st = dict(stats)
    nontrivial = st.pop('nontrivial', set())
    return {
        'level': 'proof',
        'coverage': {
            'obligations': rep.obligations, 'discharged': rep.discharged, 'checker_cmd': rep.checker_cmd,
            'trusted_base': common.TRUSTED_BASE + [
                "C11: the demangled-name keys of m_entries are modelled as `AId` (node id / auxiliary type of a node); std::map iteration order is irrelevant because every DFS of problems() starts with an empty stack",
                "C11: loop witnesses are searched with inputs up to the stated length; the proof is what covers all inputs",
            ],
            'theorems': rep.theorems, 'axioms': rep.axioms, 'examples': rep.examples,
            'evaluations': st.get('roots', 0) + st.get('run_cases', 0),
            'distinct_nontrivial': len(nontrivial),
            'rule': "one evaluation = one (grammar, root) analysed by the real analyze_cycles (entry table + count compared with the model) or one "
                    "(certified grammar, root, input) run by the real parser under the step/depth budget; non-trivial = an analysed grammar that has "
                    "problems or contains a sequence/choice/repetition, or a run that consumed input or threw; distinct = distinct (node table, root[, input])",
            'samples': st.pop('samples', []),
            'exhaustive': False,
            'input_bound': maxlen, 'alphabet': ''.join(map(chr, ALPHA)),
            'step_budget': STEP_BUDGET, 'depth_limit': DEPTH_LIMIT,
            'stats': st,
            'lean_problems': rep.problems,
        },
        'assumptions': [
            "agreement of model and implementation is observed on the generated grammars, not proved",
            "C11_terminates covers every rule kind that has analyze_traits (23 kinds); strict / star_strict have none (analyze<> does not compile) and are excluded from the generated grammars; raw_string, the integer rules and the ICU/predicates traits are not modelled",
            "actions with a match() of their own (change_action) are assumed not to switch the action family in a cycle (ActionsWF)",
        ],
    }


def fam_leaves(rng: random.Random) -> List[Tuple[Grammar, List[int], Dict]]:
    """Every leaf rule X of the library under the repetitions whose certification rests on X's own trait ("consumes on success" /
    "may succeed without consuming"): star< X >, plus< X >, until< eof, X >, list< X, '!' >, star< seq< opt< 'a' >, X > >.  A leaf whose
    match() contradicts its analyze_traits entry makes a certified grammar loop."""
    out = []
    zoo = [z for z in corpus.atom_zoo() if z[0] not in ('bol',)]
    for gi in range(0, len(zoo), 4):
        g = Grammar(f"lv{gi // 4}")
        roots = []
        names = []
        for name, x in zoo[gi:gi + 4]:
            names.append(name)
            for t in (P('star', x), P('plus', x), P('until', P('eof'), x), P('list', x, P('one', C(33))), P('star', P('seq', P('opt', P('one', C(97))), x))):
                roots.append(g.rule(t).id)
        g.resolve()
        out.append((g, roots, {'family': 'leaves', 'kind': 'leaves', 'atoms': names}))
    return out


LEAF_INPUTS = None


def leaf_inputs() -> List[bytes]:
    global LEAF_INPUTS
    if LEAF_INPUTS is None:
        LEAF_INPUTS = corpus.all_strings(corpus.ZOO_ALPHA, 2) + [b'255', b'256', b'26', b'99', b'111', b'1a1', b'12!5', b'\xc3\xa9\xc3\xa9', b'a1 ', b'...', b'a1a1']
    return LEAF_INPUTS


def families(rng: random.Random, tier: str):
    if tier == 'quick':
        return [('corpus', fam_corpus(rng, 14, 10), 3), ('nl', fam_nullable_loops(rng, 80), 3), ('lr', fam_left_recursion(rng, 230), 3)]
    return [('corpus', fam_corpus(rng, 120, 80), 4), ('nl', fam_nullable_loops(rng, None), 4), ('lr', fam_left_recursion(rng, None), 4)]


def run(tier: str) -> int:
    v = common.Verdict(PROP, tier)
    t0 = time.time()
    rep = common.check_lean(['PegtlVerif.Props.C11'], leanchecker=(tier == 'thorough'))
    for p in rep.problems:
        v.broke('lean: ' + p)
    print(f"[C11] lean obligations {rep.discharged}/{rep.obligations} ({time.time() - t0:.1f}s)")
    stats: Dict[str, Any] = {}
    rng = random.Random(common.seed() * 7919 + 11)
    maxlen = 3
    if build(v):
        for name, groups, ml in families(rng, tier):
            maxlen = ml
            evaluate(v, groups, ml, stats, name)
            print(f"[C11] {name}: grammars {stats['grammars']} roots {stats['roots']} zero {stats['zero']} nonzero {stats['nonzero']} "
                  f"tables equal {stats['tables_equal']} (isomorphic {stats['tables_isomorphic']}) runs {stats['run_cases']} "
                  f"overruns {stats['overruns']} oracle hits {stats['oracle_hits']} mismatches {stats['mismatch']} ({time.time() - t0:.1f}s)")
        for name, groups, ml in [('leaves', fam_leaves(rng), 3)]:
            evaluate(v, groups, ml, stats, name, inputs=leaf_inputs(), flagged_inputs=leaf_inputs()[:40])
            print(f"[C11] {name}: grammars {stats['grammars']} roots {stats['roots']} zero {stats['zero']} nonzero {stats['nonzero']} "
                  f"tables equal {stats['tables_equal']} (isomorphic {stats['tables_isomorphic']}) runs {stats['run_cases']} "
                  f"overruns {stats['overruns']} oracle hits {stats['oracle_hits']} mismatches {stats['mismatch']} ({time.time() - t0:.1f}s)")
        evaluate_native(v, stats, 4 if tier == 'quick' else 6)
        print(f"[C11] native raw_string family: {stats.get('native')} ({time.time() - t0:.1f}s)")
    return v.finish(evidence(rep, stats, tier, maxlen))


def replay(path: str) -> int:
    d = json.loads(Path(path).read_text())
    if d.get('kind') != 'failing-input' or 'grammar_def' not in d:
        print(f"replay {path}: no failing input recorded (broken: {d.get('broken')}); re-running the check")
        return run('quick')
    g = grammar_from_json(d['grammar_def'])
    root = int(d['root'])
    data = bytes.fromhex(d.get('input_hex', ''))

    class ReplayVerdict(common.Verdict):
        def failing_input(self, pl):
            self.violations.append(Path(path))
            self.lines.append(f"VIOLATION property={PROP} replay={path}")

    v = ReplayVerdict(PROP, 'quick')
    stats: Dict[str, Any] = {}
    if build(v):
        evaluate(v, [(g, [root], d.get('meta', {}))], len(data), stats, 'replay', per_tu=1, inputs=[data], flagged_inputs=[data])
        print(f"[C11] replay: analyze zero={stats.get('zero')} nonzero={stats.get('nonzero')} runs={stats.get('run_cases')} "
              f"overruns={stats.get('overruns')} oracle hits={stats.get('oracle_hits')}")
    for l in v.lines:
        print(l)
    for bmsg in v.broken:
        print("broken:", bmsg[:600])
    return 1 if (v.violations or v.broken) else 0
