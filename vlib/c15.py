"""c15.py — check for property C15: integer rules and conversions are exact or report overflow.

1. Lean obligations: PegtlVerif.Props.C15 (theorems about Model/Integer.lean vs Spec/Numeral.lean).
2. Correspondence: harness/leaf_c15.cpp (real contrib/integer.hpp, one executable per integer width,
   ASan + UBSan with report hook, inputs in exact-size heap buffers) against the native Lean driver
   drv_c15 (the model), same cases, same canonical lines, compared field by field.
3. Oracle: Python big-integer arithmetic + the documented numeral syntax as a regular expression,
   evaluated on every observation of the implementation (independent of the Lean model).
"""
from __future__ import annotations
import itertools
import json
import os
import random
import re
import subprocess
import time
from collections import Counter
from concurrent.futures import ThreadPoolExecutor, ProcessPoolExecutor
from pathlib import Path
from typing import Any, Dict, List, Optional, Tuple

from . import common, leaf

PROP = 'C15'
WIDTHS = (8, 16, 32, 64)
SRC = common.VERIF / 'harness' / 'leaf_c15.cpp'
BDIR = common.BUILD / 'c15'
JOBS = 4
MAX_REPORT = 12          # failing inputs written out per run (the rest is counted)

# the documented syntax (integer.hpp: unsigned_rule_new / signed_rule_new, "does not allow leading zeros")
RE_U = re.compile(rb'0(?![0-9])|[1-9][0-9]*')
RE_S = re.compile(rb'[-+]?(?:0(?![0-9])|[1-9][0-9]*)')
RE_DIGITS = re.compile(rb'[0-9]+\Z')
RE_SDIGITS = re.compile(rb'[-+]?[0-9]+\Z')

DIGIT_TAILS = [b'0', b'1', b'5', b'9']
OTHER_TAILS = [b'x', b'-', b'+', b' ', b'/', b':', b'.', b'\xff', b'\x00', b'\n', b'e']


def hexs(b: bytes) -> str:
    return b.hex() if b else '-'


def unhex(h: str) -> bytes:
    return b'' if h == '-' else bytes.fromhex(h)


# ---------------------------------------------------------------- oracle

def expected(op: str, w: int, b: bytes) -> Tuple[str, ...]:
    """What the property demands for one op on one input, as a tuple:
    ('na',) | ('ok', value) | ('ovf',)                       for conversions
    ('ok', consumed, value|None) | ('fail',) | ('thr',)      for rules."""
    umax, smax, smin = 2 ** w - 1, 2 ** (w - 1) - 1, -(2 ** (w - 1))
    name, _, arg = op.partition(':')
    M = int(arg) if arg else None
    if name in ('cu', 'cp', 'cn'):
        if not RE_DIGITS.match(b):
            return ('na',)
        v = int(b)
        if name == 'cu':
            return ('ok', v) if v <= M else ('ovf',)
        if name == 'cp':
            return ('ok', v) if v <= smax else ('ovf',)
        return ('ok', -v) if -v >= smin else ('ovf',)
    if name == 'cs':
        if not RE_SDIGITS.match(b):
            return ('na',)
        v = int(b)
        return ('ok', v) if smin <= v <= smax else ('ovf',)
    if name in ('ur', 'urn', 'uwn', 'ua', 'uw', 'mr', 'ma', 'um', 'mw', 'mwn'):
        m = RE_U.match(b)
        if not m:
            return ('fail',)
        n, v = m.end(), int(m.group())
        if name in ('ur', 'urn', 'uwn'):
            return ('ok', n, None)
        if name in ('ua', 'uw'):
            return ('ok', n, v) if v <= umax else ('thr',)
        if name == 'mr':
            return ('ok', n, None) if v <= M else ('fail',)
        if name == 'ma':
            return ('ok', n, v) if v <= M else ('fail',)
        if name in ('mw', 'um'):
            return ('ok', n, v) if v <= M else ('thr',)
        return ('ok', n, None) if v <= M else ('thr',)          # mwn
    if name in ('sr', 'srn', 'swn', 'sa', 'sw'):
        m = RE_S.match(b)
        if not m:
            return ('fail',)
        n, v = m.end(), int(m.group())
        if name in ('sr', 'srn', 'swn'):
            return ('ok', n, None)
        return ('ok', n, v) if smin <= v <= smax else ('thr',)
    return ('unknown-op',)


def conforms(op: str, exp: Tuple, obs: str) -> bool:
    """Does the observed field satisfy the expectation?  A thrown overflow may carry any position
    (the property does not fix where the exception points); everything else is exact."""
    parts = obs.split(':')
    kind = parts[0]
    if exp[0] == 'na':
        return obs == 'na'
    if exp[0] == 'ovf':
        return obs == 'ovf'
    if exp[0] == 'fail':
        return obs == 'fail:0'                       # local failure, nothing consumed
    if exp[0] == 'thr':
        return kind == 'thr' and len(parts) == 4 and parts[3] in ('io', 'uo', 'so')
    if exp[0] == 'ok':
        if len(exp) == 2:                            # conversion
            return obs == f"ok:{exp[1]}"
        val = '-' if exp[2] is None else str(exp[2])
        return obs == f"ok:{exp[1]}:{val}"
    return False


def show_exp(exp: Tuple) -> str:
    if exp[0] == 'ok':
        return 'ok:' + ':'.join('-' if x is None else str(x) for x in exp[1:])
    if exp[0] == 'fail':
        return 'fail:0'
    if exp[0] == 'thr':
        return 'thr:<any position>:<overflow message>'
    return exp[0]


def oracle_line(w: int, line: str) -> Tuple[List[Dict[str, Any]], Counter, int]:
    """Evaluate the property on one observation line of the implementation."""
    toks = line.split(' ')
    hits: List[Dict[str, Any]] = []
    kinds: Counter = Counter()
    if len(toks) < 3 or toks[0] == 'BAD':
        return [{'op': '?', 'observed': line, 'expected': 'a well-formed observation line'}], kinds, 0
    b = unhex(toks[1])
    n = 0
    for f in toks[2:]:
        op, _, obs = f.partition('=')
        if op == 'ub':
            if obs != '0':
                hits.append({'op': 'ub', 'observed': f, 'expected': 'ub=0 (no undefined behaviour reported by UBSan)'})
            continue
        n += 1
        exp = expected(op, w, b)
        kinds[op.partition(':')[0] + '/' + obs.partition(':')[0]] += 1
        if not conforms(op, exp, obs):
            hits.append({'op': op, 'observed': obs, 'expected': show_exp(exp)})
    return hits, kinds, n


# ---------------------------------------------------------------- input generation

def digit_strings_exhaustive(maxlen: int) -> List[bytes]:
    out = []
    for n in range(1, maxlen + 1):
        for t in itertools.product(b'0123456789', repeat=n):
            out.append(bytes(t))
    return out


def neighbourhood(B: int) -> List[int]:
    vs = set()
    for d in range(-2, 3):
        vs.add(B + d)
    for d in range(-1, 11):
        vs.add(B * 10 + d)
    for d in (-1, 0, 1):
        vs.add(B // 10 + d)
    vs.add(B // 10 * 10)
    vs.add(B // 10 * 10 + 9)
    vs.add(B + 10)
    vs.add(B * 100)
    return sorted(v for v in vs if v >= 0)


def bounds_for(w: int, maxes: List[int]) -> List[int]:
    bs = set(maxes)
    bs.update([2 ** w - 1, 2 ** (w - 1) - 1, 2 ** (w - 1), 2 ** w])
    nd = len(str(2 ** w - 1))
    for k in range(0, nd + 2):
        bs.add(10 ** k)
    return sorted(bs)


def with_tails(rng: random.Random, s: bytes, all_tails: bool = False) -> List[bytes]:
    if all_tails:
        return [s] + [s + t for t in DIGIT_TAILS + OTHER_TAILS]
    return [s, s + rng.choice(DIGIT_TAILS), s + rng.choice(OTHER_TAILS)]


EDGE = [b'', b'0', b'00', b'000', b'01', b'0x', b'0:', b'0/', b'09', b'1', b'9', b'10', b'/', b':', b'x', b'\xff', b'\x00',
        b' 1', b'a1', b'-', b'+', b'--1', b'-+1', b'+-1', b'++1', b'-0', b'+0', b'-00', b'+00', b'-01', b'-0x', b'+0:',
        b'-x', b'+x', b'- 1', b'-1', b'+1', b'-9', b'1-', b'1+', b'1-1', b'-/', b'-:', b'+\xff', b'0\xff', b'1\xff']


def generate(tier: str, seed: int, groups: Dict[str, Tuple[int, List[str]]]) -> Tuple[Dict[str, List[bytes]], Dict[str, Any]]:
    """Inputs per group (deduplicated, order deterministic for a seed) and a description."""
    rng = random.Random(seed)
    cases: Dict[str, List[bytes]] = {}
    desc: Dict[str, Any] = {}
    for w in WIDTHS:
        maxes = sorted({int(o.split(':')[1]) for o in groups[f"m{w}"][1] if ':' in o})
        nd = len(str(2 ** w - 1))                      # decimal width of the type
        exhaustive_len = 0
        digit_strs: List[bytes] = []
        if w == 8:
            exhaustive_len = nd + 1
            digit_strs = digit_strings_exhaustive(nd + 1)
        elif w == 16:
            exhaustive_len = nd + 1
            digit_strs = digit_strings_exhaustive(nd + 1)
        # boundary-structured numerals (all widths)
        structured: List[bytes] = []
        for B in bounds_for(w, maxes):
            for v in neighbourhood(B):
                s = str(v).encode()
                structured.append(s)
                if v in (B - 1, B, B + 1):
                    structured.append(b'0' + s)
                    structured.append(b'00' + s)
        # seeded random numerals
        nrand = {'quick': 3000, 'thorough': 40000}[tier]
        rnd: List[bytes] = []
        for _ in range(nrand):
            n = rng.randint(1, nd + 2)
            if rng.random() < 0.5:                     # near the top of the range
                v = rng.choice([2 ** w - 1, 2 ** (w - 1), rng.choice(maxes)]) + rng.randint(-300, 300)
                rnd.append(str(max(v, 0)).encode())
            else:
                rnd.append(bytes(rng.choice(b'0123456789') for _ in range(n)))

        def dedupe(xs: List[bytes]) -> List[bytes]:
            return list(dict.fromkeys(xs))

        # u-group: default maximum only — every numeral, three tails
        u_in: List[bytes] = list(EDGE)
        for s in digit_strs:
            # quick tier: the 10^6 six-digit strings of the 16-bit family only at end of input
            u_in += [s] if (len(s) > 5 and tier == 'quick') else with_tails(rng, s)
        for s in structured:
            u_in += with_tails(rng, s, all_tails=True)
        for s in rnd:
            u_in += with_tails(rng, s)
        for s in rng.sample(structured, min(40, len(structured))):
            u_in += [b'-' + s, b'+' + s]
        cases[f"u{w}"] = dedupe(u_in)

        # m-group: every Maximum — exhaustive numerals for 8 bit, structured + sample otherwise
        m_in: List[bytes] = list(EDGE)
        if w == 8:
            for s in digit_strs:
                m_in += with_tails(rng, s)
        else:
            samp = rng.sample(digit_strs, min(len(digit_strs), {'quick': 3000, 'thorough': 60000}[tier])) if digit_strs else []
            for s in samp:
                m_in += with_tails(rng, s)
        for s in structured:
            m_in += with_tails(rng, s)
        for s in rnd[: len(rnd) // 2]:
            m_in += with_tails(rng, s)
        cases[f"m{w}"] = dedupe(m_in)

        # s-group: signs × numerals
        s_in: List[bytes] = list(EDGE)
        for s in digit_strs:
            if w == 8:
                for sg in (b'', b'-', b'+'):
                    s_in += with_tails(rng, sg + s)
            elif len(s) > 5 and tier == 'quick':
                if rng.random() < 0.03:                # all of them in the thorough tier
                    s_in += [b'-' + s, b'+' + s]
            else:
                t = rng.choice(DIGIT_TAILS) if rng.random() < 0.5 else rng.choice(OTHER_TAILS)
                s_in += [s, b'-' + s, b'+' + s + t, b'-' + s + t]
        for s in structured:
            for sg in (b'', b'-', b'+'):
                s_in += with_tails(rng, sg + s, all_tails=(sg == b'-'))
        for s in rnd:
            sg = rng.choice([b'', b'-', b'+'])
            s_in += with_tails(rng, sg + s)
        cases[f"s{w}"] = dedupe(s_in)
        desc[f"w{w}"] = {
            'maxima': len(maxes), 'exhaustive_digit_strings_up_to_len': exhaustive_len,
            'exhaustive_digit_strings': len(digit_strs), 'structured_numerals': len(set(structured)),
            'random_numerals': len(set(rnd)),
            'inputs': {g: len(cases[g]) for g in (f"u{w}", f"m{w}", f"s{w}")},
        }
    return cases, desc


# ---------------------------------------------------------------- running

def exe_for(w: int) -> Path:
    return BDIR / f"leaf_c15_{w}"


def build_harness() -> Tuple[bool, str]:
    """One executable per width, compiled from /repo's current headers (ASan + UBSan, recover mode so the
    report hook can count undefined behaviour per case)."""
    BDIR.mkdir(parents=True, exist_ok=True)

    def one(w: int) -> Tuple[bool, str]:
        return leaf.compile_cpp(SRC, exe_for(w), san='asan',
                                extra=['-O0', '-fsanitize=undefined', '-fsanitize-recover=undefined', f'-DC15_WIDTH={w}'])

    with ThreadPoolExecutor(JOBS) as ex:
        res = list(ex.map(one, WIDTHS))
    bad = [f"width {w}: {err[-1500:]}" for w, (ok, err) in zip(WIDTHS, res) if not ok]
    return (not bad), '\n'.join(bad)


def list_groups() -> Dict[str, Tuple[int, List[str]]]:
    groups: Dict[str, Tuple[int, List[str]]] = {}
    for w in WIDTHS:
        p = leaf.run_exe(exe_for(w), '', args=['--list'], timeout=60)
        for l in p.stdout.splitlines():
            t = l.split()
            if len(t) >= 3 and t[0] == 'group':
                groups[t[1]] = (int(t[2]), t[3:])
    return groups


def run_harness(w: int, lines: List[str]) -> Tuple[List[Optional[str]], List[Dict[str, Any]]]:
    """Run the implementation on the cases; a sanitizer abort is attributed to the case at which the
    output stops, and the run continues after it."""
    out: List[Optional[str]] = []
    crashes: List[Dict[str, Any]] = []
    start = 0
    while start < len(lines):
        try:
            p = leaf.run_exe(exe_for(w), '\n'.join(lines[start:]) + '\n', timeout=1800)
            got = p.stdout.splitlines()
            rc, err = p.returncode, p.stderr
        except subprocess.TimeoutExpired as e:
            got = (e.stdout or b'').decode(errors='replace').splitlines() if isinstance(e.stdout, bytes) else (e.stdout or '').splitlines()
            rc, err = -999, 'timeout'
        got = got[: len(lines) - start]
        out += got
        start += len(got)
        if start < len(lines):
            if rc == 0:
                err = 'harness produced fewer lines than cases\n' + err
            summary = [l for l in err.splitlines() if 'ERROR' in l or 'SUMMARY' in l or 'runtime error' in l][:4]
            crashes.append({'case': lines[start], 'returncode': rc, 'stderr': ' | '.join(summary) or err[-400:]})
            out.append(None)
            start += 1
            if len(crashes) >= 5:
                out += [None] * (len(lines) - start)
                break
    return out, crashes


def run_model(defs: List[str], lines: List[str]) -> List[str]:
    p = leaf.run_exe(leaf.lean_exe('drv_c15'), '\n'.join(defs + lines) + '\n', timeout=1800)
    return p.stdout.splitlines()


def work(job: Tuple[int, List[str], List[str]]) -> Dict[str, Any]:
    """One chunk: implementation, model, comparison, oracle."""
    w, defs, lines = job
    impl, crashes = run_harness(w, lines)
    model = run_model(defs, lines)
    res: Dict[str, Any] = {'lines': len(lines), 'fields': 0, 'mismatch': [], 'nmismatch': 0, 'hits': [], 'nhits': 0,
                           'crashes': crashes, 'kinds': Counter(), 'nontrivial': 0, 'lens': Counter(), 'samples': []}
    if len(model) != len(lines):
        res['mismatch'].append({'case': lines[0], 'impl': '', 'model': f"model driver returned {len(model)} lines for {len(lines)} cases"})
        res['nmismatch'] += 1
        model = model + [''] * (len(lines) - len(model))
    for i, case in enumerate(lines):
        a = impl[i] if i < len(impl) else None
        if a is None:
            continue
        hits, kinds, n = oracle_line(w, a)
        res['fields'] += n
        res['kinds'].update(kinds)
        b = unhex(case.split(' ')[1])
        res['lens'][len(b)] += 1
        if re.search(rb'[0-9]', b):
            res['nontrivial'] += 1
        if hits:
            res['nhits'] += 1
            if len(res['hits']) < MAX_REPORT:
                res['hits'].append({'case': case, 'line': a[:2000], 'violations': hits[:8]})
        if a != model[i]:
            res['nmismatch'] += 1
            if len(res['mismatch']) < MAX_REPORT:
                fa, fm = a.split(' '), model[i].split(' ')
                diff = [(x, y) for x, y in zip(fa, fm) if x != y][:6]
                res['mismatch'].append({'case': case, 'differing_fields_impl_vs_model': diff or [(a[:300], model[i][:300])]})
        if i % 997 == 0 and len(res['samples']) < 2:
            res['samples'].append(a[:400])
    return res


def payload(w: int, case: str, detail: Dict[str, Any]) -> Dict[str, Any]:
    g, h = case.split(' ')[:2]
    b = unhex(h)
    return {'group': g, 'width': w, 'input_hex': h, 'input_repr': repr(b), 'ops': detail,
            'oracle': 'python big-int value / documented syntax regex vs observation of /repo headers',
            'how': 'harness/leaf_c15.cpp -DC15_WIDTH=<width>; echo "<group> <input_hex>" | build/c15/leaf_c15_<width>'}


def run(tier: str) -> int:
    v = common.Verdict(PROP, tier)
    t0 = time.time()
    rep = common.check_lean(['PegtlVerif.Props.C15'], leanchecker=(tier == 'thorough'))
    for pb in rep.problems:
        v.broke(pb)
    cov: Dict[str, Any] = {
        'obligations': rep.obligations, 'discharged': rep.discharged, 'checker_cmd': rep.checker_cmd,
        'theorems': rep.theorems, 'axioms': rep.axioms,
        'trusted_base': common.TRUSTED_BASE + [
            'harness/leaf_c15.cpp (observation driver), vlib/c15.py (generator, comparison, Python oracle)',
            'the mapping of C++ integer types to (width, signedness) and of `char` digits to bytes in Model/Integer.lean',
        ],
    }
    evidence: Dict[str, Any] = {'level': 'proof', 'coverage': cov, 'assumptions': [
        'g++ converts out-of-range values to signed types modulo 2^w (implementation-defined before C++20)',
        'agreement of model and code is sampled (exhaustive only where stated), not proved']}
    t_lean = time.time() - t0

    ok, out = leaf.build_lean_exe('drv_c15')
    if not ok:
        v.broke('lean driver drv_c15 does not build: ' + out[-400:])
        cov.update({'evaluations': 0, 'distinct_nontrivial': 0})
        return v.finish(evidence)
    t1 = time.time()
    ok, err = build_harness()
    t_cpp = time.time() - t1
    if not ok:
        v.broke('correspondence: harness/leaf_c15.cpp no longer compiles against the headers: ' + err[-600:])
        cov.update({'evaluations': 0, 'distinct_nontrivial': 0, 'explanation': 'harness does not compile'})
        return v.finish(evidence)
    groups = list_groups()
    missing = [f"{k}{w}" for w in WIDTHS for k in 'ums' if f"{k}{w}" not in groups]
    if missing:
        v.broke(f"correspondence: harness lists no group {missing}")
        cov.update({'evaluations': 0, 'distinct_nontrivial': 0})
        return v.finish(evidence)
    defs = [f"def {g} {w} " + ' '.join(ops) for g, (w, ops) in groups.items()]
    cases, desc = generate(tier, common.seed(), groups)

    # chunks of roughly equal work (lines × ops)
    jobs: List[Tuple[int, List[str], List[str]]] = []
    for g, ins in cases.items():
        w, ops = groups[g]
        per = max(200, 400000 // max(1, len(ops)))
        lines = [f"{g} {hexs(b)}" for b in ins]
        for i in range(0, len(lines), per):
            jobs.append((w, defs, lines[i:i + per]))
    jobs.sort(key=lambda j: -len(j[2]) * len(groups[j[2][0].split(' ')[0]][1]))
    t2 = time.time()
    with ProcessPoolExecutor(JOBS) as ex:
        results = list(ex.map(work, jobs))
    t_run = time.time() - t2

    tot_lines = sum(r['lines'] for r in results)
    fields = sum(r['fields'] for r in results)
    nontrivial = sum(r['nontrivial'] for r in results)
    kinds: Counter = Counter()
    lens: Counter = Counter()
    for r in results:
        kinds.update(r['kinds'])
        lens.update(r['lens'])
    nmis = sum(r['nmismatch'] for r in results)
    nhits = sum(r['nhits'] for r in results)
    ncrash = sum(len(r['crashes']) for r in results)

    # known_findings.json holds no entry with status "known" for C15 (F1, F2, F3, F15 are "fixed": they suppress
    # nothing), so every oracle hit and every sanitizer abort is a failing input.
    reported = 0
    # oracle hits on disagreeing inputs first, then the rest
    for (w, _, _), r in sorted(zip(jobs, results), key=lambda jr: -jr[1]['nmismatch']):
        for c in r['crashes']:
            if reported < MAX_REPORT:
                v.failing_input(payload(w, c['case'], {'observed': 'the harness process was aborted by a sanitizer (or died) on this case',
                                                       'returncode': c['returncode'], 'stderr': c['stderr'],
                                                       'expected': 'a result for every op, reads inside the exact-size buffer'}))
                reported += 1
        for h in r['hits']:
            if reported < MAX_REPORT:
                v.failing_input(payload(w, h['case'], {'violations': h['violations'], 'observation_line': h['line']}))
                reported += 1
    if nmis:
        ex_m = [m for r in results for m in r['mismatch']][:5]
        v.broke(f"correspondence: model (drv_c15) and implementation disagree on {nmis} cases, e.g. {json.dumps(ex_m)[:900]}")

    w8 = desc['w8']['exhaustive_digit_strings_up_to_len']
    w16 = desc['w16']['exhaustive_digit_strings_up_to_len']
    cov.update({
        'evaluations': fields,
        'cases': tot_lines,
        'distinct_nontrivial': nontrivial,
        'rule': 'a case = (op group of one integer width, input bytes); inputs are deduplicated per group, so cases are distinct; '
                'non-trivial = the input contains at least one decimal digit (the rule has to decide syntax and range; inputs '
                'without a digit fail at the first byte). evaluations = op results compared and judged (every case runs all ops of its group).',
        'exhaustive': True,
        'exhaustive_scope': f"8-bit types: every digit string of length <= {w8} x (end of input | a digit | a non-digit) x (no sign | - | +) "
                            f"x all {desc['w8']['maxima']} Maximum values; 16-bit types: every digit string of length <= {w16} "
                            f"(default Maximum and signed ops; in the quick tier the six-digit strings only unsigned and at end of input, plus a 3% signed sample); 32/64-bit and the other Maximum values: boundary neighbourhoods + seeded random",
        'generator': desc,
        'input_length_histogram': dict(sorted(lens.items())),
        'outcomes_by_op': dict(sorted(kinds.items())),
        'model_vs_implementation_mismatches': nmis,
        'oracle_hits': nhits,
        'sanitizer_aborts': ncrash,
        'samples': [s for r in results for s in r['samples']][:6],
        'timing_s': {'lean': round(t_lean, 1), 'compile_harness': round(t_cpp, 1), 'run_and_judge': round(t_run, 1)},
    })
    print(f"C15: {rep.discharged}/{rep.obligations} Lean obligations; {tot_lines} cases, {fields} op evaluations "
          f"({nontrivial} non-trivial cases); mismatches={nmis} oracle_hits={nhits} aborts={ncrash}; "
          f"lean {t_lean:.0f}s compile {t_cpp:.0f}s run {t_run:.0f}s")
    for g in sorted(cases):
        print(f"   {g}: {len(cases[g])} inputs x {len(groups[g][1])} ops")
    return v.finish(evidence)


def replay(path: str) -> int:
    """Re-evaluate one replay file: rebuild the harness for its width from /repo, run the input, judge it."""
    pl = json.loads(Path(path).read_text())
    if pl.get('kind') != 'failing-input':
        print(f"replay {path}: kind={pl.get('kind')} broken={pl.get('broken')} — no input to re-run; run ./check C15")
        return 1
    w, g, h = int(pl['width']), pl['group'], pl['input_hex']
    BDIR.mkdir(parents=True, exist_ok=True)
    ok, err = leaf.compile_cpp(SRC, exe_for(w), san='asan',
                               extra=['-O0', '-fsanitize=undefined', '-fsanitize-recover=undefined', f'-DC15_WIDTH={w}'])
    if not ok:
        print('replay: harness does not compile: ' + err[-600:])
        return 1
    out, crashes = run_harness(w, [f"{g} {h}"])
    if crashes:
        print(f"replay {path}: input {pl.get('input_repr')} still aborts the harness: {crashes[0]['stderr']}")
        return 1
    hits, _, _ = oracle_line(w, out[0])
    print(f"replay {path}: input {pl.get('input_repr')} group {g}")
    print('   observed: ' + out[0][:1500])
    if hits:
        for x in hits[:10]:
            print(f"   VIOLATES {x['op']}: observed {x['observed']} expected {x['expected']}")
        return 1
    print('   conforms to the property now')
    return 0
