"""c10.py — check for property C10: character-class and encoding rules accept exactly the
documented sets.

1. Lean obligations: Props/C10.lean (theorems + examples) and Audit/C10Sync.lean
   (`Gen.asciiTable = Expected.asciiTable`; Gen/AsciiTable.lean is re-translated from
   ascii.hpp / abnf.hpp / internal/identifier.hpp on every run, before `lake build`).
2. Correspondence: harness/leaf_c10.cpp (real `Peek::peek`, real rules through `parse<>` on
   exact-size heap buffers, ASan+UBSan) against the Lean driver `drv_c10` on the same lines.
3. Oracle: Python's codecs (`bytes.decode(..., 'strict')`), `struct.unpack`, `bytes` class
   predicates / `curses.ascii`, evaluated on every implementation result.
"""
from __future__ import annotations
import concurrent.futures
import curses.ascii
import hashlib
import json
import random
import re
import struct
import sys
import time
from pathlib import Path
from typing import Any, Dict, List, Optional, Tuple

from . import common, leaf

PROP = 'C10'
HARNESS = common.VERIF / 'harness' / 'leaf_c10.cpp'
GEN_FILE = common.LEAN / 'PegtlVerif' / 'Gen' / 'AsciiTable.lean'
EXPECTED_FILE = common.LEAN / 'PegtlVerif' / 'Expected' / 'AsciiTable.lean'
BUILD = common.BUILD / 'c10'
WORKERS = 4

# ============================================================== C++ type-expression translator

_TOK = re.compile(r"""\s*(?:
    (?P<chr>'(?:\\.|[^\\'])')
  | (?P<num>0[xX][0-9a-fA-F]+|\d+)[uUlL]*
  | (?P<id>[A-Za-z_][A-Za-z_0-9]*(?:\s*::\s*[A-Za-z_][A-Za-z_0-9]*)*)
  | (?P<op>[<>(),])
)""", re.X)

_ESC = {'n': 10, 't': 9, 'r': 13, 'v': 11, 'f': 12, '0': 0, 'a': 7, 'b': 8, '\\': 92, "'": 39, '"': 34}


class CppParseError(Exception):
    pass


def tokenize(s: str) -> List[Tuple[str, str]]:
    out, i = [], 0
    s = s.strip()
    while i < len(s):
        m = _TOK.match(s, i)
        if not m:
            raise CppParseError(f"cannot tokenize {s[i:i+20]!r}")
        i = m.end()
        for k in ('chr', 'num', 'id', 'op'):
            if m.group(k) is not None:
                v = m.group(k)
                if k == 'id':
                    v = re.sub(r'\s+', '', v)
                out.append((k, v))
                break
    return out


class Node:
    """name< args >  |  integer literal (value)."""

    def __init__(self, name: Optional[str] = None, args: Optional[list] = None, value: Optional[int] = None, cast: Optional[str] = None):
        self.name, self.args, self.value, self.cast = name, args, value, cast

    def __repr__(self):
        if self.value is not None:
            return f"{self.value}" + (f":{self.cast}" if self.cast else '')
        return f"{self.name}<{self.args}>" if self.args is not None else str(self.name)


def parse_expr(toks: List[Tuple[str, str]], i: int = 0) -> Tuple[Node, int]:
    k, v = toks[i]
    if k == 'chr':
        body = v[1:-1]
        val = _ESC[body[1]] if body[0] == '\\' else ord(body)
        return Node(value=val, cast='charlit'), i + 1
    if k == 'num':
        return Node(value=int(v, 0)), i + 1
    if k == 'id':
        if v == 'static_cast':
            # static_cast< T >( expr )
            assert toks[i + 1] == ('op', '<')
            ty = toks[i + 2][1]
            j = i + 3
            while toks[j] != ('op', '>'):
                ty += ' ' + toks[j][1]
                j += 1
            assert toks[j + 1] == ('op', '(')
            inner, j2 = parse_expr(toks, j + 2)
            assert toks[j2] == ('op', ')')
            return Node(value=inner.value, cast=ty), j2 + 1
        if i + 1 < len(toks) and toks[i + 1] == ('op', '<'):
            args = []
            j = i + 2
            if toks[j] == ('op', '>'):
                return Node(name=v, args=[]), j + 1
            while True:
                a, j = parse_expr(toks, j)
                args.append(a)
                if toks[j] == ('op', ','):
                    j += 1
                    continue
                if toks[j] == ('op', '>'):
                    return Node(name=v, args=args), j + 1
                raise CppParseError(f"unexpected {toks[j]}")
        return Node(name=v), i + 1
    raise CppParseError(f"unexpected token {toks[i]}")


def parse_type(s: str) -> Node:
    toks = tokenize(s)
    n, j = parse_expr(toks)
    if j != len(toks):
        raise CppParseError(f"trailing tokens in {s!r}")
    return n


def strip_ns(name: str) -> str:
    for p in ('tao::pegtl::', 'TAO_PEGTL_NAMESPACE::', 'pegtl::'):
        if name.startswith(p):
            name = name[len(p):]
    return name


# ---- peeks: description tuples ('char',) ('uint8',) ('maskUint8', m) ('uint', w, e) ('maskUint', w, e, m)
#             ('utf8',) ('utf16', e) ('utf32', e)

def peek_width(p) -> int:
    k = p[0]
    if k in ('char', 'uint8', 'maskUint8'):
        return 1
    if k in ('uint', 'maskUint'):
        return p[1]
    return 0  # variable


def peek_of_internal(n: Node):
    name = strip_ns(n.name)
    if name.startswith('internal::'):
        name = name[len('internal::'):]
    if name == 'peek_char':
        return ('char',)
    if name == 'peek_uint8':
        return ('uint8',)
    if name == 'peek_utf8':
        return ('utf8',)
    m = re.fullmatch(r'peek_utf(16|32)_(be|le)', name)
    if m:
        return ('utf' + m.group(1), 'big' if m.group(2) == 'be' else 'little')
    m = re.fullmatch(r'peek_uint(16|32|64)_(be|le)', name)
    if m:
        return ('uint', int(m.group(1)) // 8, 'big' if m.group(2) == 'be' else 'little')
    if name == 'peek_mask_uint8':
        return ('maskUint8', n.args[0].value)
    m = re.fullmatch(r'peek_mask_uint(16|32|64)_(be|le)', name)
    if m:
        return ('maskUint', int(m.group(1)) // 8, 'big' if m.group(2) == 'be' else 'little', n.args[0].value)
    raise CppParseError(f"unknown peek {n}")


def data_value(peek, v: int) -> int:
    """A template argument of type `data_t`: `char` is signed, the others are unsigned."""
    if peek[0] == 'char':
        return ((v + 128) % 256) - 128
    return v


def peek_desc(p) -> str:
    return ' '.join(str(x) for x in p)


def peek_lean(p) -> str:
    k = p[0]
    if k in ('char', 'uint8', 'utf8'):
        return '.' + k
    if k == 'maskUint8':
        return f"(.maskUint8 {p[1]})"
    if k == 'uint':
        return f"(.uint {p[1]} .{p[2]})"
    if k == 'maskUint':
        return f"(.maskUint {p[1]} .{p[2]} {p[3]})"
    return f"(.{k} .{p[1]})"


# ---- rules: ('any', peek) ('one', found, peek, [cs]) ('range', found, peek, lo, hi) ('ranges', peek, [cs])
#             ('istring', [bytes]) ('class', name)

def rule_of_internal(n: Node, aliases: Dict[str, Node]):
    """`internal::one< internal::result_on_found::success, internal::peek_char, ' ', '\\t' >` etc."""
    name = strip_ns(n.name)
    if name.startswith('internal::'):
        name = name[len('internal::'):]
    if n.args is None:
        if name in aliases:
            return rule_of_internal(aliases[name], aliases)
        return None
    if name == 'any' and len(n.args) == 1:
        return ('any', peek_of_internal(n.args[0]))
    if name in ('one', 'range'):
        r = strip_ns(n.args[0].name or '')
        if not r.endswith('result_on_found::success') and not r.endswith('result_on_found::failure'):
            raise CppParseError(f"bad result_on_found in {n}")
        found = 1 if r.endswith('success') else 0
        pk = peek_of_internal(n.args[1])
        vals = [data_value(pk, a.value) for a in n.args[2:]]
        if name == 'one':
            return ('one', found, pk, vals)
        if len(vals) != 2:
            raise CppParseError(f"range needs Lo, Hi: {n}")
        return ('range', found, pk, vals[0], vals[1])
    if name == 'ranges':
        pk = peek_of_internal(n.args[0])
        return ('ranges', pk, [data_value(pk, a.value) for a in n.args[1:]])
    return None


_NS_PEEK = {
    'ascii': ('char',), 'utf8': ('utf8',), 'uint8': ('uint8',),
    'utf16_be': ('utf16', 'big'), 'utf16_le': ('utf16', 'little'),
    'utf32_be': ('utf32', 'big'), 'utf32_le': ('utf32', 'little'),
    'uint16_be': ('uint', 2, 'big'), 'uint16_le': ('uint', 2, 'little'),
    'uint32_be': ('uint', 4, 'big'), 'uint32_le': ('uint', 4, 'little'),
    'uint64_be': ('uint', 8, 'big'), 'uint64_le': ('uint', 8, 'little'),
}


def rule_of_public(n: Node, class_names: List[str]):
    """The documented meaning of the public wrappers (doc/Rule-Reference.md): `utf8::not_one< … >`,
    `uint16_be::mask_range< M, Lo, Hi >`, `ascii::alnum`, `abnf::ALPHA`, `ascii::istring< … >` …"""
    name = strip_ns(n.name)
    if '::' not in name:
        raise CppParseError(f"unqualified rule {name}")
    ns, base = name.rsplit('::', 1)
    if n.args is None:
        cname = ('abnf.' + base) if ns == 'abnf' else base
        if ns in ('ascii', 'abnf') and cname in class_names:
            return ('class', cname)
        if base == 'any' and ns in _NS_PEEK:
            return ('any', _NS_PEEK[ns])
        if base == 'bom' and ns in _NS_PEEK:
            return ('one', 1, _NS_PEEK[ns], [0xFEFF])
        raise CppParseError(f"unknown rule {name}")
    if ns == 'ascii' and base == 'istring':
        return ('istring', [a.value % 256 for a in n.args])
    pk = _NS_PEEK[ns]
    args = [a.value for a in n.args]
    if base.startswith('mask_'):
        base = base[len('mask_'):]
        m, args = args[0], args[1:]
        pk = ('maskUint8', m) if pk == ('uint8',) else ('maskUint', pk[1], pk[2], m)
    vals = [data_value(pk, v) for v in args]
    if base == 'one':
        return ('one', 1, pk, vals)
    if base == 'not_one':
        return ('one', 0, pk, vals)
    if base == 'range':
        return ('range', 1, pk, vals[0], vals[1])
    if base == 'not_range':
        return ('range', 0, pk, vals[0], vals[1])
    if base == 'ranges':
        return ('ranges', pk, vals)
    raise CppParseError(f"unknown rule {name}")


def rule_desc(r) -> str:
    k = r[0]
    if k == 'any':
        return 'any ' + peek_desc(r[1])
    if k == 'one':
        return f"one {r[1]} {peek_desc(r[2])} {len(r[3])} " + ' '.join(map(str, r[3]))
    if k == 'range':
        return f"range {r[1]} {peek_desc(r[2])} {r[3]} {r[4]}"
    if k == 'ranges':
        return f"ranges {peek_desc(r[1])} {len(r[2])} " + ' '.join(map(str, r[2]))
    if k == 'istring':
        return f"istring {len(r[1])} " + ' '.join(map(str, r[1]))
    if k == 'class':
        return f"class {r[1]}"
    raise ValueError(r)


def _lean_int(v: int) -> str:
    return f"({v})" if v < 0 else str(v)


def rule_lean(r) -> str:
    k = r[0]
    b = lambda x: 'true' if x else 'false'
    if k == 'any':
        return f".any {peek_lean(r[1])}"
    if k == 'one':
        return f".one {b(r[1])} {peek_lean(r[2])} [{', '.join(map(_lean_int, r[3]))}]"
    if k == 'range':
        return f".range {b(r[1])} {peek_lean(r[2])} {_lean_int(r[3])} {_lean_int(r[4])}"
    if k == 'ranges':
        return f".ranges {peek_lean(r[1])} [{', '.join(map(_lean_int, r[2]))}]"
    raise ValueError(r)


# ============================================================== ascii.hpp / abnf.hpp -> Gen/AsciiTable.lean

_STRUCT = re.compile(r'^\s*(template<[^{;]*?>\s*)?struct\s+(\w+)\s*:\s*(.*?)\s*\{[^}]*\}\s*;', re.M)
_USING = re.compile(r'^\s*using\s+(\w+)\s*=\s*(.*?);', re.M)


def _strip_cpp_comments(s: str) -> str:
    s = re.sub(r'/\*.*?\*/', '', s, flags=re.S)
    return re.sub(r'//[^\n]*', '', s)


def translate_class_table() -> Tuple[List[Tuple[str, Any]], List[str]]:
    """Single-unit classes (name, rule) and the names of every other struct of the two headers."""
    inc = common.REPO / 'include' / 'tao' / 'pegtl'
    aliases: Dict[str, Node] = {}
    for m in _USING.finditer(_strip_cpp_comments((inc / 'internal' / 'identifier.hpp').read_text())):
        try:
            aliases[m.group(1)] = parse_type(m.group(2))
        except (CppParseError, AssertionError, IndexError, KeyError):
            pass
    table, other = [], []
    for fn, prefix in (('ascii.hpp', ''), ('contrib/abnf.hpp', 'abnf.')):
        src = _strip_cpp_comments((inc / fn).read_text())
        for m in _STRUCT.finditer(src):
            is_template, name, base = m.group(1), m.group(2), m.group(3)
            rule = None
            if not is_template:
                try:
                    rule = rule_of_internal(parse_type(base), aliases)
                except (CppParseError, AssertionError, IndexError, KeyError, TypeError):
                    rule = None
            if rule is None:
                other.append(prefix + name)
            else:
                table.append((prefix + name, rule))
    return table, other


def render_table(namespace: str, table, other) -> str:
    lines = [
        "/-",
        f"  {'Gen' if namespace == 'Gen' else 'Expected'}/AsciiTable.lean — the single-character classes of ascii.hpp and contrib/abnf.hpp",
        "  (and internal/identifier.hpp), translated by vlib/c10.py `translate_class_table`." if namespace == 'Gen' else
        "  (and internal/identifier.hpp): the committed copy the C10 theorems are about.  The check",
        "  REGENERATED ON EVERY RUN — do not edit." if namespace == 'Gen' else
        "  re-translates the headers into Gen/AsciiTable.lean and proves `Gen = Expected` (Audit/C10Sync.lean).",
        "-/",
        "import PegtlVerif.Model.AsciiClasses",
        "",
        f"namespace Pegtl.{namespace}",
        "open Pegtl.Utf",
        "",
        "/-- `struct <name> : internal::<rule>< … > {};` for every class that matches one `char`. -/",
        "def asciiTable : ClassTable := [",
    ]
    rows = [f'  ("{n}", {rule_lean(r)})' for n, r in table]
    lines.append(",\n".join(rows))
    lines.append("]")
    lines.append("")
    lines.append("/-- Every other struct declared in the two headers (multi-character or templated rules). -/")
    lines.append("def asciiOther : List String := [" + ", ".join(f'"{n}"' for n in other) + "]")
    lines.append("")
    lines.append(f"end Pegtl.{namespace}")
    return "\n".join(lines) + "\n"


def write_gen() -> Tuple[List[Tuple[str, Any]], List[str]]:
    table, other = translate_class_table()
    GEN_FILE.parent.mkdir(parents=True, exist_ok=True)
    GEN_FILE.write_text(render_table('Gen', table, other))
    return table, other



# ============================================================== harness tables

_ENTRY = re.compile(r'^\s*(PEEK|RULE)\(\s*([\w.]+)\s*,\s*(.*?)\s*\)\s*\\?\s*$', re.M)


def parse_harness(class_names: List[str]):
    """PEEK( id, type ) / RULE( id, type ) entries of harness/leaf_c10.cpp -> model-side objects."""
    src = HARNESS.read_text()
    peeks: Dict[str, Any] = {}
    rules: Dict[str, Any] = {}
    cpp: Dict[str, str] = {}
    for m in _ENTRY.finditer(src):
        kind, ident, ty = m.group(1), m.group(2), m.group(3)
        if ident == 'ID':
            continue
        node = parse_type(ty)
        if kind == 'PEEK':
            peeks[ident] = peek_of_internal(node)
        else:
            rules[ident] = rule_of_public(node, class_names)
        cpp[ident] = ty
    return peeks, rules, cpp


# ============================================================== independent oracle

def oracle_utf8(bs: bytes) -> Optional[Tuple[int, int]]:
    for n in (1, 2, 3, 4):
        if n > len(bs):
            break
        try:
            s = bs[:n].decode('utf-8', 'strict')
        except UnicodeDecodeError:
            continue
        if len(s) == 1:
            return ord(s), n
    return None


def oracle_utf16(bs: bytes, e: str) -> Optional[Tuple[int, int]]:
    codec = 'utf-16-be' if e == 'big' else 'utf-16-le'
    for n in (2, 4):
        if n > len(bs):
            break
        try:
            s = bs[:n].decode(codec, 'strict')
        except UnicodeDecodeError:
            continue
        if len(s) == 1:
            return ord(s), n
        return None
    return None


def oracle_utf32(bs: bytes, e: str) -> Optional[Tuple[int, int]]:
    if len(bs) < 4:
        return None
    try:
        s = bs[:4].decode('utf-32-be' if e == 'big' else 'utf-32-le', 'strict')
    except UnicodeDecodeError:
        return None
    return (ord(s), 4) if len(s) == 1 else None


_FMT = {1: 'B', 2: 'H', 4: 'I', 8: 'Q'}


def oracle_peek(pk, bs: bytes) -> Optional[Tuple[int, int]]:
    k = pk[0]
    if k == 'char':
        return (struct.unpack('b', bs[:1])[0], 1) if bs else None
    if k == 'uint8':
        return (bs[0], 1) if bs else None
    if k == 'maskUint8':
        return (bs[0] & pk[1], 1) if bs else None
    if k in ('uint', 'maskUint'):
        w = pk[1]
        if len(bs) < w:
            return None
        v = struct.unpack(('>' if pk[2] == 'big' else '<') + _FMT[w], bs[:w])[0]
        if k == 'maskUint':
            v &= pk[3]
        return v, w
    if k == 'utf8':
        return oracle_utf8(bs)
    if k == 'utf16':
        return oracle_utf16(bs, pk[1])
    if k == 'utf32':
        return oracle_utf32(bs, pk[1])
    raise ValueError(pk)


_HEX = set(b'0123456789abcdefABCDEF')
_OCT = set(b'01234567')


def _b(c: int) -> bytes:
    return bytes([c])


CLASS_SETS = {
    'alnum': lambda c: _b(c).isalnum(),
    'alpha': lambda c: _b(c).isalpha(),
    'any': lambda c: True,
    'blank': lambda c: bool(curses.ascii.isblank(c)),
    'digit': lambda c: _b(c).isdigit(),
    'identifier_first': lambda c: _b(c).isalpha() or c == ord('_'),
    'identifier_other': lambda c: _b(c).isalnum() or c == ord('_'),
    'lower': lambda c: _b(c).islower(),
    'nul': lambda c: c == 0,
    'odigit': lambda c: c in _OCT,
    'print': lambda c: bool(curses.ascii.isprint(c)),
    'seven': lambda c: bool(curses.ascii.isascii(c)),
    'space': lambda c: _b(c).isspace(),
    'upper': lambda c: _b(c).isupper(),
    'xdigit': lambda c: c in _HEX,
    'abnf.ALPHA': lambda c: _b(c).isalpha(),
    'abnf.BIT': lambda c: c in (0x30, 0x31),
    'abnf.CHAR': lambda c: 1 <= c <= 0x7F,
    'abnf.CR': lambda c: c == 0x0D,
    'abnf.CTL': lambda c: bool(curses.ascii.iscntrl(c)),
    'abnf.DIGIT': lambda c: _b(c).isdigit(),
    'abnf.DQUOTE': lambda c: c == 0x22,
    'abnf.HEXDIG': lambda c: c in _HEX,
    'abnf.HTAB': lambda c: c == 0x09,
    'abnf.LF': lambda c: c == 0x0A,
    'abnf.OCTET': lambda c: True,
    'abnf.SP': lambda c: c == 0x20,
    'abnf.VCHAR': lambda c: bool(curses.ascii.isgraph(c)),
    'abnf.WSP': lambda c: c in (0x20, 0x09),
}


def oracle_ichar(C: int, c: int) -> bool:
    """Case-insensitive comparison folds exactly the ASCII letters (`bytes.lower` is ASCII-only)."""
    if _b(C).isalpha():
        return _b(C).lower() == _b(c).lower()
    return C == c


def oracle_rule(r, bs: bytes) -> Optional[int]:
    """Documented meaning of a rule: bytes consumed on success, None on failure."""
    k = r[0]
    if k == 'class':
        if not bs:
            return None
        return 1 if CLASS_SETS[r[1]](bs[0]) else None
    if k == 'istring':
        lit = r[1]
        if len(bs) < len(lit):
            return None
        return len(lit) if all(oracle_ichar(C, c) for C, c in zip(lit, bs)) else None
    if k == 'any':
        t = oracle_peek(r[1], bs)
        return t[1] if t else None
    if k == 'one':
        t = oracle_peek(r[2], bs)
        if not t:
            return None
        return t[1] if ((t[0] in r[3]) == bool(r[1])) else None
    if k == 'range':
        t = oracle_peek(r[2], bs)
        if not t:
            return None
        return t[1] if ((r[3] <= t[0] <= r[4]) == bool(r[1])) else None
    if k == 'ranges':
        t = oracle_peek(r[1], bs)
        if not t:
            return None
        cs = r[2]
        hit = any(cs[2 * i] <= t[0] <= cs[2 * i + 1] for i in range(len(cs) // 2))
        if len(cs) % 2 == 1:
            hit = hit or t[0] == cs[-1]
        return t[1] if hit else None
    raise ValueError(r)


def peek_token(t) -> str:
    return '-' if t is None else f"{t[0]}/{t[1]}"


def rule_token(n) -> str:
    return '-' if n is None else str(n)


# ============================================================== one line = one job

def unhex(h: str) -> bytes:
    return b'' if h == '-' else bytes.fromhex(h)


def hx(b: bytes) -> str:
    return b.hex() if b else '-'


def fillings(pre: bytes, k: int, suf: bytes):
    if k == 0:
        yield pre + suf
    elif k == 1:
        for x in range(256):
            yield pre + bytes([x]) + suf
    else:
        for x in range(256):
            px = pre + bytes([x])
            for y in range(256):
                yield px + bytes([y]) + suf


def check_line(job) -> Dict[str, Any]:
    """Evaluate the oracle on every case of one line.  job = (left-part of line, object, impl output)."""
    left, obj, out = job
    w = left.split()
    kind = w[0]
    res = {'cases': 0, 'accepted': 0, 'bad': [], 'sizes': {}, 'malformed': None}
    sizes: Dict[int, int] = {}
    if kind == 'I':
        C = int(w[1])
        if len(out) != 256 or set(out) - {'0', '1'}:
            res['malformed'] = out[:80]
            return res
        for c in range(256):
            exp = oracle_ichar(C, c)
            got = out[c] == '1'
            res['cases'] += 1
            res['accepted'] += int(got)
            if exp != got and len(res['bad']) < 3:
                res['bad'].append({'op': 'ichar_equal', 'C': C, 'c': c, 'got': int(got), 'expected': int(exp)})
        return res
    is_peek = kind in ('P', 'W')
    if kind in ('P', 'M'):
        inputs = [unhex(w[2])]
        toks = [out]
    else:
        pre, k, suf = unhex(w[2]), int(w[3]), unhex(w[4])
        inputs = fillings(pre, k, suf)
        toks = out.split(' ')
        if len(toks) != 256 ** k:
            res['malformed'] = f"{len(toks)} tokens for a sweep of {256 ** k}: " + out[:80]
            return res
    for bs, tok in zip(inputs, toks):
        exp = peek_token(oracle_peek(obj, bs)) if is_peek else rule_token(oracle_rule(obj, bs))
        res['cases'] += 1
        if tok != '-':
            res['accepted'] += 1
            n = tok.rsplit('/', 1)[-1]
            sizes[n] = sizes.get(n, 0) + 1
        if tok != exp and len(res['bad']) < 3:
            res['bad'].append({'op': 'peek' if is_peek else 'match', 'id': w[1], 'input': bs.hex(),
                               'got': tok, 'expected': exp})
    res['sizes'] = sizes
    return res


class DistinctCounter:
    """Counts accepted cases only from lines whose input pattern (fixed bytes + free positions) is
    disjoint from every pattern already counted for the same object: a conservative, measured
    count of DISTINCT (object, input) cases (cases inside one sweep are distinct by construction)."""

    def __init__(self):
        self.idx: Dict[Tuple[str, int], Dict[Optional[int], List[Tuple[bytes, bytes]]]] = {}
        self.count = 0
        self.lines_counted = 0
        self.lines_overlapping = 0

    @staticmethod
    def _pattern(w: List[str]) -> Tuple[bytes, bytes]:
        if w[0] in ('P', 'M'):
            b = unhex(w[2])
            return b, b'\x01' * len(b)
        pre, k, suf = unhex(w[2]), int(w[3]), unhex(w[4])
        return pre + b'\x00' * k + suf, b'\x01' * len(pre) + b'\x00' * k + b'\x01' * len(suf)

    @staticmethod
    def _overlap(a: Tuple[bytes, bytes], b: Tuple[bytes, bytes]) -> bool:
        for x, fx, y, fy in zip(a[0], a[1], b[0], b[1]):
            if fx and fy and x != y:
                return False
        return True

    def add(self, left: str, accepted: int) -> None:
        w = left.split()
        if w[0] == 'I':
            self.count += accepted
            self.lines_counted += 1
            return
        pat = self._pattern(w)
        key = (w[0] in ('P', 'W') and 'peek:' + w[1] or 'rule:' + w[1], len(pat[0]))
        buckets = self.idx.setdefault(key, {})
        first = pat[0][0] if pat[0] and pat[1][0] else None
        cands = buckets.values() if first is None else [buckets.get(first, []), buckets.get(None, [])]
        for lst in cands:
            for q in lst:
                if self._overlap(pat, q):
                    self.lines_overlapping += 1
                    return
        buckets.setdefault(first, []).append(pat)
        self.count += accepted
        self.lines_counted += 1


# ============================================================== stream generation

U8_BOUND = [0x00, 0x7F, 0x80, 0x8F, 0x90, 0x9F, 0xA0, 0xBF, 0xC0, 0xC2, 0xFF]
CP_BOUND = [0, 1, 0x7F, 0x80, 0x7FF, 0x800, 0xFFF, 0x1000, 0xD7FF, 0xD800, 0xDBFF, 0xDC00, 0xDFFF, 0xE000,
            0xFEFF, 0xFFFD, 0xFFFF, 0x10000, 0x10FFFF, 0x110000, 0x1FFFFF]


def raw_utf8(cp: int, n: Optional[int] = None) -> bytes:
    """Bit-distribution encoder WITHOUT validity checks (builds surrogates, overlong forms with
    explicit length n, out-of-range values) — used only to construct inputs."""
    if n is None:
        n = 1 if cp < 0x80 else 2 if cp < 0x800 else 3 if cp < 0x10000 else 4
    if n == 1:
        return bytes([cp & 0x7F])
    lead = {2: 0xC0, 3: 0xE0, 4: 0xF0}[n]
    out = [(lead | (cp >> (6 * (n - 1)))) & 0xFF]
    for i in range(n - 2, -1, -1):
        out.append(0x80 | ((cp >> (6 * i)) & 0x3F))
    return bytes(out)


def raw_unit(pk, v: int) -> List[bytes]:
    """Candidate byte strings for value v under a peek's encoding (valid or not)."""
    k = pk[0]
    if k in ('char', 'uint8', 'maskUint8'):
        return [bytes([v % 256])]
    if k in ('uint', 'maskUint'):
        w = pk[1]
        v %= 256 ** w
        return [v.to_bytes(w, 'big' if pk[2] == 'big' else 'little'), v.to_bytes(w, 'little' if pk[2] == 'big' else 'big')]
    if k == 'utf8':
        v %= 0x200000
        outs = [raw_utf8(v)]
        for n in (2, 3, 4):
            if v < (1 << (5 * n + 1)) and n != len(outs[0]):
                outs.append(raw_utf8(v, n))          # overlong forms
        return outs
    order = 'big' if pk[1] == 'big' else 'little'
    if k == 'utf16':
        if v < 0x10000:
            return [v.to_bytes(2, order)]
        v2 = (v - 0x10000) % 0x100000
        return [(0xD800 + (v2 >> 10)).to_bytes(2, order) + (0xDC00 + (v2 & 0x3FF)).to_bytes(2, order)]
    if k == 'utf32':
        return [(v % 2 ** 32).to_bytes(4, order)]
    raise ValueError(pk)


def peek_of_rule(r):
    k = r[0]
    if k in ('class', 'istring'):
        return ('char',)
    if k in ('any', 'ranges'):
        return r[1]
    return r[2]


def rule_consts(r) -> List[int]:
    k = r[0]
    if k == 'one':
        return list(r[3])
    if k == 'range':
        return [r[3], r[4]]
    if k == 'ranges':
        return list(r[2])
    return []


def gen_stream(tier: str, peeks, rules, rng: random.Random) -> List[Tuple[str, Any]]:
    """[(line-left-part, object)]; the description of the object is appended when the file is written."""
    thorough = tier == 'thorough'
    L: List[Tuple[str, Any]] = []
    seen = set()

    def add(left: str, obj):
        if left not in seen:
            seen.add(left)
            L.append((left, obj))

    def P(i, bs):
        add(f"P {i} {hx(bs)}", peeks[i])

    def W(i, pre, k, suf=b''):
        add(f"W {i} {hx(pre)} {k} {hx(suf)}", peeks[i])

    def M(i, bs):
        add(f"M {i} {hx(bs)}", rules[i])

    def V(i, pre, k, suf=b''):
        add(f"V {i} {hx(pre)} {k} {hx(suf)}", rules[i])

    nrand = 4000 if thorough else 800

    for i, pk in peeks.items():
        k = pk[0]
        P(i, b'')
        W(i, b'', 1)
        if k in ('char', 'uint8', 'maskUint8'):
            W(i, b'', 1, b'\xff')
            W(i, b'', 2)
        elif k in ('uint', 'maskUint'):
            w = pk[1]
            if w == 2:
                W(i, b'', 2)
                W(i, b'', 2, b'\x7f')
                W(i, b'', 1, b'\x80')
            else:
                edge = [0, 1, 0x7F, 0x80, 0xFF, 0x100, 2 ** (8 * w - 1) - 1, 2 ** (8 * w - 1), 2 ** (8 * w) - 1,
                        2 ** (8 * w) - 2, int.from_bytes(bytes(range(1, w + 1)), 'big')]
                if k == 'maskUint':
                    edge = [pk[3] ^ (2 ** (8 * w) - 1), pk[3] + 1, pk[3] - 1, pk[3]] + edge
                for v in edge:
                    b = (v % 2 ** (8 * w)).to_bytes(w, 'big')
                    P(i, b)
                    P(i, b + b'\xee')
                    for n in range(1, w):
                        P(i, b[:n])
                    if thorough or v in edge[-2:] or (k == 'maskUint' and v == pk[3]):
                        W(i, b[:w - 2], 2)           # low 16 bits of a big-endian value / high of little-endian
                        W(i, b'', 2, b[2:])          # the other end
                        if w == 8:
                            W(i, b[:3], 2, b[5:])
                for _ in range(nrand):
                    P(i, rng.randbytes(w))
                for _ in range(nrand // 8):
                    P(i, rng.randbytes(rng.randrange(0, w + 3)))
        elif k == 'utf8':
            W(i, b'', 2)
            full3 = range(256) if thorough else range(0xE0, 0xF0)
            for b0 in full3:
                W(i, bytes([b0]), 2)
            for b0 in range(256):
                if b0 not in full3:
                    for b2 in (0x7F, 0x80, 0xBF, 0xC0):
                        W(i, bytes([b0]), 1, bytes([b2]))
            for b0 in range(0xF0, 0xF8):
                for b2 in (0x00, 0x7F, 0x80, 0x8F, 0x90, 0xBF, 0xC0, 0xFF):
                    for b3 in (0x00, 0x7F, 0x80, 0x8F, 0x90, 0xBF, 0xC0, 0xFF):
                        W(i, bytes([b0]), 1, bytes([b2, b3]))
            lead4 = ([(0xF0, 0x8F), (0xF0, 0x90), (0xF4, 0x8F), (0xF4, 0x90), (0xF1, 0x80), (0xF3, 0xBF)] if not thorough else
                     [(a, b) for a in range(0xF0, 0xF8) for b in (0x7F, 0x80, 0x8F, 0x90, 0x9F, 0xA0, 0xBF, 0xC0)])
            for a, b in lead4:
                W(i, bytes([a, b]), 2)
            for b0 in (0xF8, 0xFB, 0xFC, 0xFD, 0xFE, 0xFF, 0xC0, 0xC1, 0x80, 0xBF):
                W(i, bytes([b0]), 2, b'\x80\x80')      # 5/6-byte forms, stray continuation bytes
            for cp in CP_BOUND + [c + d for c in CP_BOUND for d in (-1, 1) if c + d >= 0]:
                for enc in raw_unit(pk, cp):
                    P(i, enc)
                    P(i, enc + b'\x80')
                    P(i, enc + b'A')
                    for n in range(1, len(enc)):
                        P(i, enc[:n])
                        P(i, enc[:n] + b'A')
            for _ in range(nrand):
                cp = rng.choice([rng.randrange(0x110000), rng.randrange(0x200000), rng.randrange(0x800, 0x10000)])
                enc = rng.choice(raw_unit(pk, cp))
                P(i, enc + rng.randbytes(rng.randrange(0, 3)))
                P(i, rng.randbytes(rng.randrange(1, 6)))
        elif k == 'utf16':
            order = 'big' if pk[1] == 'big' else 'little'
            W(i, b'', 2)
            W(i, b'', 2, b'\xdc')
            W(i, b'', 2, b'\x00')
            highs = [0xD800, 0xDBFF, 0xD7FF, 0xDC00, 0xE000] + ([0xD801, 0xDABC, 0xDBFE, 0xDFFF, 0x0041, 0xFFFF] if thorough else [])
            lows = [0xDC00, 0xDFFF, 0xDBFF] + ([0xE000, 0x0000, 0xD800, 0xDC01] if thorough else [])
            for h in highs:
                W(i, h.to_bytes(2, order), 2)
                W(i, h.to_bytes(2, order), 1)
            for lo in lows:
                W(i, b'', 2, lo.to_bytes(2, order))
            for h in (0xD800, 0xDBFF, 0xD9AB):
                for lo in (0xDC00, 0xDFFF, 0xDDEF):
                    pair = h.to_bytes(2, order) + lo.to_bytes(2, order)
                    P(i, pair)
                    P(i, pair + b'\x00')
                    P(i, pair + pair)
                    for n in range(1, 4):
                        P(i, pair[:n])
            for _ in range(nrand):
                P(i, rng.randbytes(rng.randrange(0, 7)))
                a, b = rng.randrange(0xD700, 0xE100), rng.randrange(0xD700, 0xE100)
                P(i, a.to_bytes(2, order) + b.to_bytes(2, order))
        elif k == 'utf32':
            order = 'big' if pk[1] == 'big' else 'little'
            hi16 = [0x0000, 0x0001, 0x000F, 0x0010, 0x0011, 0x00FF, 0x0100, 0x7FFF, 0x8000, 0xFFFF, 0xD800, 0x1000, 0x1100]
            if not thorough:
                hi16 = hi16[:5] + [0xFFFF, 0xD800, 0x1000]
            for h in hi16:
                W(i, h.to_bytes(2, 'big'), 2)            # be: planes; le: low half fixed
                W(i, b'', 2, h.to_bytes(2, 'big'))
                W(i, b'', 2, h.to_bytes(2, 'little'))
            for cp in CP_BOUND + [0x7FFFFFFF, 0x80000000, 0xFFFFFFFF, 0xFFFF0000, 0x00D80000, 0xFFFF1000]:
                for d in (-2, -1, 0, 1, 2):
                    v = (cp + d) % 2 ** 32
                    b = v.to_bytes(4, order)
                    P(i, b)
                    P(i, b + b'\x00')
                    P(i, b[::-1])
                    for n in range(1, 4):
                        P(i, b[:n])
            for _ in range(nrand):
                P(i, rng.randbytes(rng.randrange(0, 7)))
                P(i, rng.randrange(0x120000).to_bytes(4, order))

    for i, r in rules.items():
        k = r[0]
        pk = peek_of_rule(r)
        M(i, b'')
        if k == 'istring':
            lit = bytes(r[1])
            M(i, lit)
            M(i, lit + b'x')
            for n in range(len(lit)):
                M(i, lit[:n])
            M(i, lit.swapcase())
            M(i, lit.upper())
            M(i, lit.lower())
            M(i, bytes(c ^ 0x20 for c in lit))
            M(i, bytes(c | 0x20 for c in lit))
            M(i, bytes(c & 0xDF for c in lit))
            for j in range(len(lit)):
                V(i, lit[:j], 1, lit[j + 1:])
                V(i, lit[:j], 1, lit[j + 1:] + b'!')
            if len(lit) <= 1:
                V(i, b'', 1)
                V(i, b'', 2)
            continue
        V(i, b'', 1)
        pw = peek_width(pk)
        consts = rule_consts(r)
        near = sorted({c + d for c in consts for d in (-1, 0, 1)})
        if pw == 1:
            V(i, b'', 1, b'\x41')
            if pk[0] != 'char' or k != 'class' or thorough:
                V(i, b'', 2)
            continue
        if pw == 2:
            V(i, b'', 2)
            V(i, b'', 2, b'\x01')
            continue
        if pw in (4, 8):
            vals = near + [0, 2 ** (8 * pw) - 1, 2 ** (8 * pw - 1)]
            if pk[0] == 'maskUint':
                vals += [c | (~pk[3] % 2 ** (8 * pw)) for c in consts] + [c ^ (1 << rng.randrange(8 * pw)) for c in consts for _ in range(8)]
            for v in vals:
                for j, b in enumerate(raw_unit(pk, v)):
                    M(i, b)
                    M(i, b + b'\x55')
                    for n in range(1, pw):
                        M(i, b[:n])
                    if v in consts and (thorough or j == 0):
                        # sweep the 16 bits that hold the least significant end of the constant
                        if (pk[2] == 'big') == (j == 0):
                            V(i, b[:pw - 2], 2)
                        else:
                            V(i, b'', 2, b[2:])
                        if thorough:
                            V(i, b[:pw - 2], 2)
                            V(i, b'', 2, b[2:])
            for _ in range(nrand // 2):
                M(i, rng.randbytes(rng.randrange(pw - 1, pw + 2)))
            continue
        # variable-width encodings
        vals = sorted(set(near + CP_BOUND))
        for v in vals:
            if v < 0:
                continue
            for b in raw_unit(pk, v):
                M(i, b)
                M(i, b + b'\x80')
                for n in range(1, len(b)):
                    M(i, b[:n])
        if pk[0] == 'utf8':
            V(i, b'', 2)
            sw = vals if thorough else [v for v in near if v >= 0]
            for b0 in sorted({raw_utf8(v)[0] for v in sw if 0x800 <= v < 0x200000} | {0xED}):
                if b0 < 0xF0:
                    V(i, bytes([b0]), 2)
                else:
                    for v in sw:
                        e = raw_utf8(v % 0x200000, 4) if v >= 0x10000 else None
                        if e and e[0] == b0:
                            V(i, e[:2], 2)
        elif pk[0] == 'utf16':
            order = 'big' if pk[1] == 'big' else 'little'
            V(i, b'', 2)
            V(i, b'', 2, b'\xdc\xdc')
            for h in (0xD800, 0xDBFF, 0xD7FF, 0xDC00):
                V(i, h.to_bytes(2, order), 2)
            for v in (vals if thorough else near):
                if v >= 0x10000:
                    for e in raw_unit(pk, v):
                        V(i, e[:2], 2)
        elif pk[0] == 'utf32':
            for v in (vals if thorough else [v for v in near if v >= 0]):
                b = (v % 2 ** 32).to_bytes(4, 'big' if pk[1] == 'big' else 'little')
                if thorough or pk[1] == 'big':
                    V(i, b[:2], 2)
                if thorough or pk[1] != 'big':
                    V(i, b'', 2, b[2:])
        for _ in range(nrand // 2):
            M(i, rng.randbytes(rng.randrange(1, 6)))

    for C in range(256):
        add(f"I {C}", None)
    return L


def desc_of(left: str, obj) -> str:
    k = left[0]
    if k in ('P', 'W'):
        return peek_desc(obj)
    if k in ('M', 'V'):
        return rule_desc(obj)
    return ''


def write_stream(path: Path, stream) -> None:
    with path.open('w') as f:
        for left, obj in stream:
            d = desc_of(left, obj)
            f.write(left + (' ; ' + d if d else '') + '\n')


# ============================================================== running the two sides

def run_side(exe: Path, path: Path) -> Tuple[int, List[str], str]:
    with path.open('rb') as f:
        import subprocess, os
        env = dict(os.environ, ASAN_OPTIONS='detect_leaks=0', UBSAN_OPTIONS='print_stacktrace=1')
        p = subprocess.run([str(exe)], stdin=f, capture_output=True, env=env, timeout=3600)
    return p.returncode, p.stdout.decode('latin-1').split('\n')[:-1], p.stderr.decode('latin-1')


def run_impl(exe: Path, stream, tag: str) -> Tuple[List[Optional[str]], List[Dict[str, Any]]]:
    """Run the C++ harness; if a sanitizer aborts it, record the crashing line and resume after it."""
    outs: List[Optional[str]] = []
    crashes: List[Dict[str, Any]] = []
    start = 0
    rounds = 0
    while start < len(stream) and rounds < 6:
        rounds += 1
        path = BUILD / f"stream_{tag}_{rounds}.txt"
        write_stream(path, stream[start:])
        rc, lines, err = run_side(exe, path)
        outs += lines
        if rc == 0 and len(outs) == len(stream):
            break
        idx = len(outs)
        if idx < len(stream):
            m = re.search(r'(ERROR: AddressSanitizer: [\w-]+|runtime error: [^\n]+)', err)
            crashes.append({'line': stream[idx][0], 'what': m.group(1) if m else f"exit code {rc}", 'stderr_tail': err[-1500:]})
            outs.append(None)
        start = len(outs)
    while len(outs) < len(stream):
        outs.append(None)
    return outs, crashes


def first_diff_case(left: str, a: str, b: str) -> Dict[str, Any]:
    w = left.split()
    if w[0] in ('W', 'V'):
        ta, tb = a.split(' '), b.split(' ')
        pre, k, suf = unhex(w[2]), int(w[3]), unhex(w[4])
        for j, bs in enumerate(fillings(pre, k, suf)):
            if j >= len(ta) or j >= len(tb) or ta[j] != tb[j]:
                return {'op': w[0], 'id': w[1], 'input': bs.hex(), 'impl': ta[j] if j < len(ta) else None, 'model': tb[j] if j < len(tb) else None}
    return {'op': w[0], 'id': w[1], 'input': w[2] if len(w) > 2 else '', 'impl': a[:200], 'model': b[:200]}


# ============================================================== the check

def build_all(v: common.Verdict) -> Optional[Tuple[Path, Path]]:
    BUILD.mkdir(parents=True, exist_ok=True)
    exe = BUILD / 'leaf_c10'
    ok, err = leaf.compile_cpp(HARNESS, exe)
    if not ok:
        v.broke("harness/leaf_c10.cpp no longer compiles against the headers: " + err.strip().splitlines()[0][:300] if err.strip() else "harness compile failed")
        return None
    ok, out = leaf.build_lean_exe('drv_c10')
    if not ok:
        v.broke("lean driver drv_c10 does not build: " + out[-300:])
        return None
    return exe, leaf.lean_exe('drv_c10')


def case_line(c: Dict[str, Any]) -> str:
    if c['op'] == 'ichar_equal':
        return f"I {c['C']}"
    return f"{'P' if c['op'] in ('peek', 'P', 'W') else 'M'} {c['id']} {c['input'] or '-'}"


def run(tier: str) -> int:
    v = common.Verdict(PROP, tier)
    t0 = time.time()
    rng = random.Random(common.seed() * 1000003 + 10)

    # ---- 1. Lean obligations (Gen file first)
    table, other = write_gen()
    class_names = [n for n, _ in table]
    rep = common.check_lean(['PegtlVerif.Props.C10'], extra_obligation_modules=['PegtlVerif.Audit.C10Sync'],
                            leanchecker=(tier == 'thorough'))
    if not rep.ok:
        for p in rep.problems[:10]:
            v.broke("lean: " + p)
    missing_sets = [n for n in class_names if n not in CLASS_SETS]
    if missing_sets:
        v.broke(f"class table has classes without a documented set in the oracle: {missing_sets}")
    t_lean = time.time() - t0

    # ---- 2. correspondence
    evidence: Dict[str, Any] = {'level': 'proof', 'coverage': {}}
    cov = evidence['coverage']
    cov.update({'obligations': rep.obligations, 'discharged': rep.discharged, 'checker_cmd': rep.checker_cmd,
                'theorems': rep.theorems, 'axioms': rep.axioms,
                'trusted_base': common.TRUSTED_BASE + [
                    "vlib/c10.py translator of C++ rule type expressions (ascii.hpp / abnf.hpp class table, harness PEEK/RULE tables) and Spec/Unicode.lean documented sets",
                    "little-endian host and signed char (static assertions in harness/leaf_c10.cpp); big-endian branch of endian_gcc.hpp and endian_win.hpp are not modelled",
                    "Python 3 codecs utf-8 / utf-16 / utf-32 strict decoders, struct.unpack, bytes.is* / curses.ascii as independent oracle"]})
    built = build_all(v)
    if built is None:
        cov.update({'evaluations': 0, 'distinct_nontrivial': 0, 'explanation': 'build failed'})
        return v.finish(evidence)
    exe, drv = built
    try:
        peeks, rules, cpp = parse_harness(class_names)
    except (CppParseError, KeyError, AssertionError, IndexError) as e:
        v.broke(f"cannot translate the harness tables: {e}")
        cov.update({'evaluations': 0, 'distinct_nontrivial': 0})
        return v.finish(evidence)
    stream = gen_stream(tier, peeks, rules, rng)
    t1 = time.time()
    impl, crashes = run_impl(exe, stream, 'impl')
    t_impl = time.time() - t1
    t1 = time.time()
    mpath = BUILD / 'stream_model.txt'
    write_stream(mpath, stream)
    rc, model, merr = run_side(drv, mpath)
    t_model = time.time() - t1
    if rc != 0 or len(model) != len(stream):
        v.broke(f"correspondence: lean driver failed (rc={rc}, {len(model)} of {len(stream)} lines): {merr[-200:]}")
        model += [None] * (len(stream) - len(model))

    for c in crashes:
        w = c['line'].split()
        v.failing_input({'what': 'sanitizer abort in the implementation', 'line': c['line'], 'cpp': cpp.get(w[1], ''),
                         'sanitizer': c['what'], 'stderr_tail': c['stderr_tail'], 'replay_lines': [c['line']]})

    mismatches = []
    for (left, obj), a, b in zip(stream, impl, model):
        if a is None or b is None:
            continue
        if a != b:
            mismatches.append(first_diff_case(left, a, b))
    if mismatches:
        ids = sorted({m['id'] for m in mismatches})
        v.broke(f"correspondence: implementation and model disagree on {len(mismatches)} line(s), objects {ids[:8]}; first: {mismatches[0]}")

    # ---- 3. oracle on every implementation result
    t1 = time.time()
    jobs = [(left, obj, a) for (left, obj), a in zip(stream, impl) if a is not None]
    total = {'cases': 0, 'accepted': 0}
    per_kind: Dict[str, Dict[str, int]] = {}
    size_hist: Dict[str, int] = {}
    bad: List[Dict[str, Any]] = []
    malformed: List[str] = []
    distinct = DistinctCounter()
    with concurrent.futures.ProcessPoolExecutor(max_workers=WORKERS) as ex:
        for (left, obj, a), r in zip(jobs, ex.map(check_line, jobs, chunksize=64)):
            total['cases'] += r['cases']
            total['accepted'] += r['accepted']
            distinct.add(left, r['accepted'])
            w = left.split()
            key = w[0] + ':' + (w[1] if w[0] != 'I' else 'ichar_equal')
            d = per_kind.setdefault(key, {'cases': 0, 'accepted': 0})
            d['cases'] += r['cases']
            d['accepted'] += r['accepted']
            for s, n in r['sizes'].items():
                size_hist[s] = size_hist.get(s, 0) + n
            if r['malformed']:
                malformed.append(f"{left}: {r['malformed']}")
            bad += r['bad']
    t_oracle = time.time() - t1
    if malformed:
        v.broke("harness output malformed: " + malformed[0][:200])

    known = [k for k in common.load_known() if k.get('property') == PROP and k.get('status') == 'known']
    reported = set()
    for c in bad:
        key = (c.get('id', 'ichar'), c['op'])
        if key in reported or len(reported) >= 8:
            continue
        reported.add(key)
        kf = next((k for k in known if k.get('match', {}).get('id') == c.get('id')), None)
        if kf:
            v.known(kf['id'], f"{kf['id']} {c}")
            continue
        payload = dict(c)
        payload['cpp'] = cpp.get(c.get('id', ''), 'internal::ichar_equal< C >')
        payload['what'] = ('the implementation result differs from the documented meaning '
                           '(Python codecs / struct / ASCII predicates)')
        payload['replay_lines'] = [case_line(c)]
        v.failing_input(payload)
    if mismatches and not bad and not crashes:
        # disagreeing inputs were evaluated by the oracle above (it covers every line) and are clean:
        # the model is what no longer matches the code
        pass

    # ---- evidence
    objs = len(peeks) + len(rules)
    rejected = total['cases'] - total['accepted']
    samples = []
    for (left, obj), a in list(zip(stream, impl))[:: max(1, len(stream) // 12)][:12]:
        samples.append({'line': left + ' ; ' + desc_of(left, obj), 'impl': (a or '')[:60]})
    cov.update({
        'evaluations': total['cases'],
        'distinct_nontrivial': distinct.count,
        'rule': ("a case = (object, input bytes); sweep lines enumerate all 256^k fillings of k free bytes; a case is non-trivial "
                 "when the implementation ACCEPTED a unit (its value and size are then checked against the independent decoder); "
                 "distinctness is measured conservatively: accepted cases are counted only from lines whose input pattern is disjoint "
                 f"from every pattern counted before for the same object ({distinct.lines_counted} lines counted, "
                 f"{distinct.lines_overlapping} overlapping lines evaluated but not counted); rejected cases ({rejected}) are checked too but not counted"),
        'samples': samples,
        'exhaustive': False,
        'exhaustive_subspaces': ("completely enumerated: " +
                             "every byte for every ASCII/ABNF class and 8-bit rule; every 1- and 2-byte sequence, every 3-byte sequence with lead "
                             + ("00..FF" if tier == 'thorough' else "E0..EF (others: all second bytes x boundary third bytes)") +
                             " for UTF-8; every 16-bit unit alone and every second unit after boundary high surrogates for UTF-16 BE/LE; "
                             "every 16-bit value for uint16 BE/LE plain and masked; ichar_equal for all 65536 (C, c); "
                             "UTF-32 / uint32 / uint64 are NOT exhaustive: 16-bit sub-sweeps around boundary values + seeded random"),
        'stream_lines': len(stream), 'objects': objs, 'peeks': len(peeks), 'rules': len(rules),
        'accepted': total['accepted'], 'rejected': rejected,
        'accepted_size_histogram': size_hist,
        'per_object': {k: per_kind[k] for k in sorted(per_kind)},
        'class_table': {'classes': len(table), 'other_structs': len(other)},
        'mismatching_lines': len(mismatches), 'sanitizer_aborts': len(crashes), 'oracle_hits': len(bad),
        'timing_s': {'lean': round(t_lean, 1), 'impl': round(t_impl, 1), 'model': round(t_model, 1), 'oracle': round(t_oracle, 1)},
    })
    evidence['assumptions'] = ["x86-64 little-endian host, signed char", "memory_input (in.size(n) = bytes available)"]
    print(f"C10 {tier}: {len(stream)} lines, {total['cases']} cases ({total['accepted']} accepted), "
          f"{len(peeks)} peeks, {len(rules)} rules, obligations {rep.discharged}/{rep.obligations}, "
          f"mismatches {len(mismatches)}, oracle hits {len(bad)}, aborts {len(crashes)}; "
          f"lean {t_lean:.0f}s impl {t_impl:.0f}s model {t_model:.0f}s oracle {t_oracle:.0f}s")
    print("distribution (accepted unit sizes): " + json.dumps(size_hist, sort_keys=True))
    return v.finish(evidence)


def replay(path: str) -> int:
    payload = json.loads(Path(path).read_text())
    lines = payload.get('replay_lines') or []
    if not lines:
        print(f"replay {path}: no replayable input recorded ({payload.get('kind')}: {payload.get('broken')})")
        return 1
    v = common.Verdict(PROP, 'quick')
    table, _ = translate_class_table()
    built = build_all(v)
    if built is None:
        print("replay: build failed")
        return 1
    exe, drv = built
    peeks, rules, cpp = parse_harness([n for n, _ in table])
    stream = []
    for ln in lines:
        w = ln.split()
        obj = None if w[0] == 'I' else (peeks[w[1]] if w[0] in ('P', 'W') else rules[w[1]])
        stream.append((' '.join(w[:5]).split(' ;')[0], obj))
    impl, crashes = run_impl(exe, stream, 'replay')
    failing = bool(crashes)
    for c in crashes:
        print(f"replay: {c['line']} -> {c['what']}")
    for (left, obj), a in zip(stream, impl):
        if a is None:
            continue
        r = check_line((left, obj, a))
        print(f"replay: {left}  [{cpp.get(left.split()[1], '')}]  impl={a[:80]!r}  oracle-bad={r['bad']}")
        failing = failing or bool(r['bad'])
    print("replay: still failing" if failing else "replay: passes now")
    return 1 if failing else 0


if __name__ == '__main__':
    # developer entry: python3 -m vlib.c10 --write-expected
    if '--write-expected' in sys.argv:
        t, o = translate_class_table()
        EXPECTED_FILE.parent.mkdir(parents=True, exist_ok=True)
        EXPECTED_FILE.write_text(render_table('Expected', t, o))
        print(f"wrote {EXPECTED_FILE} ({len(t)} classes, {len(o)} other)")
