"""C06 — reported positions are a function of the consumed prefix only.
Proof: lean/PegtlVerif/Props/C06.lean (scan = documented posOf; after any invocation the eager cursor and every position in
every event is the scan position of a consumed prefix; eager = lazy) for all eol policies except cr_crlf (witness theorem, F11).
Tie: full-trace differential run under all 5 eol policies x eager/lazy, with LF / CR / CRLF placed everywhere in the inputs.
Oracle: posOf recomputed in Python from the bytes before each reported position (independent of model and library)."""
from __future__ import annotations
from typing import Optional

from . import common, engine, profiles
from .diffrun import Case, Config, Trace

CH = {'lf': 10, 'cr': 13, 'crlf': 10, 'lf_crlf': 10, 'cr_crlf': 13}


def pos_of(data: bytes, ch: int, init, p: int):
    line, col = init[1], init[2]
    for b in data[:p]:
        if b == ch:
            line += 1
            col = 1
        else:
            col += 1
    return (init[0] + p, line, col)


def positions_of(line: str):
    p = line.split()
    t = p[0]
    if t == 'E':
        return [tuple(map(int, p[4:7]))]
    if t == 'X':
        return [tuple(map(int, p[3:6]))]
    if t == 'ap':
        return [tuple(map(int, p[2:5])), tuple(map(int, p[5:8]))]
    if t in ('st', 'su', 'fa', 'uw', 'ra', 'a0'):
        return [tuple(map(int, p[2:5]))]
    return []


def f11_shape(c: Case, got, want) -> bool:
    """Known finding F11: eol::cr_crlf, eager tracking; after `eol`/`eolf` consumed CRLF the eager column lags the
    scan by exactly the LF: same byte, same line, scan column = eager column + 1, and the last CR before the position is followed by LF."""
    if c.cfg.eol != 'cr_crlf' or c.cfg.lazy:
        return False
    if got[0] != want[0] or got[1] != want[1] or want[2] != got[2] + 1:
        return False
    p = got[0] - c.init[0]
    k = c.data.rfind(b'\r', 0, p)
    return k >= 0 and k + 1 < p and c.data[k + 1] == 10


def make_oracle(v_known):
    def oracle(c: Case, tr: Trace) -> Optional[str]:
        ch = CH[c.cfg.eol]
        lines = tr.events + [' '.join(['X', '-1'] + tr.result.split()[1:5])] if tr.result else tr.events
        for l in lines:
            for got in positions_of(l):
                p = got[0] - c.init[0]
                if p < 0 or p > len(c.data):
                    return f"position {got} in '{l}' is outside the input"
                want = pos_of(c.data, ch, c.init, p)
                if got != want:
                    if f11_shape(c, got, want):
                        v_known.append(1)
                        continue
                    return f"'{l}' reports {got}; byte/line/column of the consumed prefix of length {p} are {want}"
        # parse errors carry a position too
        r = tr.result.split()
        if len(r) > 5 and r[1] == '2' and r[5] in ('P', 'N'):
            got = tuple(map(int, r[7:10]))
            p = got[0] - c.init[0]
            if 0 <= p <= len(c.data):
                want = pos_of(c.data, ch, c.init, p)
                if got != want and not f11_shape(c, got, want):
                    return f"parse_error position {got}, consumed prefix gives {want}"
        return None
    return oracle


def make_pair_oracle():
    """Eager and lazy tracking report identical positions: the two runs of the same case must produce the same trace
    (up to the known cr_crlf column lag)."""
    seen = {}

    def oracle(c: Case, tr: Trace) -> Optional[str]:
        key = (c.g.gid, c.cfg.root, c.cfg.a, c.cfg.m, c.cfg.eol, c.data, c.init)
        if key not in seen:
            seen[key] = (c.cfg.lazy, tr)
            return None
        olazy, otr = seen[key]
        if olazy == c.cfg.lazy:
            return None
        if otr.events == tr.events and otr.result == tr.result:
            return None
        if c.cfg.eol == 'cr_crlf':
            return None      # F11: eager columns lag; judged position by position by the posOf oracle
        for a, b in zip(otr.events + [otr.result], tr.events + [tr.result]):
            if a != b:
                return f"eager and lazy inputs report different things: '{a}' vs '{b}'"
        return "eager and lazy traces differ in length"
    return oracle


def run(tier: str) -> int:
    hits = []
    ORACLES = [('posOf', make_oracle(hits)), ('eager=lazy', make_pair_oracle())]
    alpha = [97, 10, 13, 120]
    cfg = profiles.amr_configs(ams=((1, 'r'), (1, 'o')), eols=('lf', 'cr', 'crlf', 'lf_crlf', 'cr_crlf'), lazies=(0, 1))
    ps = [
        profiles.random_profile('eol', False, True, 14, 70, ORACLES, actions_mode='void', alphabet=(97, 10, 13), eol_atoms=True,
                                inputs=profiles.inputs_exhaustive(4, 6, cap_q=260, cap_t=1400, alpha=alpha, longer=6), per_tu=1, configs=cfg, fuel=300),
        profiles.systematic_profile('sys', lambda k, f: k in ('rematch2', 'rematch3', 'minus', 'until1', 'until2', 'star1', 'list', 'pad', 'seq2', 'sor2', 'at1', 'tcrf', 'must1'),
                                    True, 10, 60, ORACLES, actions_mode='void', heavy=True,
                                    inputs=profiles.inputs_exhaustive(3, 5, cap_q=90, cap_t=600, alpha=[97, 98, 10, 13]), per_tu=1,
                                    configs=profiles.amr_configs(ams=((1, 'r'),), eols=('lf_crlf', 'cr', 'cr_crlf'), lazies=(0, 1)),
                                    ctx_names=['top', 'seq-tail', 'in-at']),
        profiles.systematic_profile('rematch', lambda k, f: k in ('rematch2', 'rematch3', 'minus'), True, 8, 30, ORACLES, actions_mode='void', heavy=True,
                                    inputs=profiles.inputs_exhaustive(4, 5, cap_q=160, cap_t=700, alpha=[97, 98, 99, 10]), per_tu=1,
                                    configs=profiles.amr_configs(ams=((1, 'r'),), eols=('lf_crlf', 'cr'), lazies=(0, 1)),
                                    ctx_names=['top', 'seq-tail', 'seq-head']),
        # every rule kind over end-of-line probes (eol, eolf, lone LF / CR, any), under all five policies: the first grammar of each kind
        # has `eol` in every slot (until< eol >, star< eol >, list< eol, eol >, …)
        profiles.systematic_profile('syseol', lambda k, f: k in ('seq2', 'sor2', 'star1', 'plus1', 'opt1', 'at1', 'not_at1', 'until1', 'until2', 'until3', 'list', 'list_tail', 'pad', 'pad_opt', 'minus',
                                                                    'rematch2', 'if_then_else', 'rep2', 'rep_opt2', 'rep_min_max1_2', 'partial2', 'star_partial2', 'strict2', 'star_strict2'), False, 30, 150, ORACLES,
                                    actions_mode='void', eol_probes=True,
                                    inputs=profiles.inputs_exhaustive(4, 5, cap_q=80, cap_t=500, alpha=[97, 10, 13], longer=2), per_tu=2,
                                    configs=profiles.amr_configs(ams=((1, 'r'),), eols=('lf', 'cr', 'crlf', 'lf_crlf', 'cr_crlf'), lazies=(0, 1)),
                                    ctx_names=['top', 'seq-tail']),
        # every leaf rule: each one's bump_in_this_line / bump_to_next_line shortcut, under three eol policies, eager and lazy
        profiles.atoms_profile('atoms', ORACLES, cap_q=70, cap_t=300, per_tu=3, exclude=('bol',),   # bol needs column(): no lazy inputs
                               configs=profiles.amr_configs(ams=((1, 'r'),), eols=('lf_crlf', 'cr', 'crlf'), lazies=(0, 1))),
    ]

    def extra(v, cov, rng):
        cov['f11_positions_tolerated'] = len(hits)
        if hits:
            v.known('F11', f"eol::cr_crlf with eager tracking: after eol/eolf consumed CRLF the eager column is one less than the scan column ({len(hits)} reported positions; e.g. `eol` on \"\\r\\nX\")")
    return engine.run_engine('C06', tier, ['PegtlVerif.Props.C06'], ps, extra=extra)


def replay(path: str) -> int:
    return engine.replay('C06', path, [('posOf', make_oracle([]))])
