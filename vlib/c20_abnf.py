"""c20_abnf.py — ABNF (RFC 5234) as data: parser for spec/*.abnf, a language-exact memoised span
recogniser (no PEG commitments: every alternative and every repetition count is explored), a
random sampler of derivable strings, and the renderer of the rule table as Lean data
(`Gen/Rfc3986.lean`, compared with the hand-written `Spec/Rfc3986.lean` on every run).

Expressions:  ('lit', bytes)  case-insensitive quoted string      ('rng', lo, hi)  %xLO-HI
              ('ref', name)   ('cat', [e...])   ('alt', [e...])   ('rep', lo, hi|None, e)
"""
from __future__ import annotations
import re
from typing import Any, Dict, FrozenSet, List, Optional, Tuple


class AbnfError(Exception):
    pass


_TOK = re.compile(r'''\s*(?:
    (?P<name>[A-Za-z][A-Za-z0-9-]*)
  | (?P<str>"[^"]*")
  | (?P<hex>%x[0-9A-Fa-f]+(?:-[0-9A-Fa-f]+|(?:\.[0-9A-Fa-f]+)+)?)
  | (?P<rep>\d*\*\d*|\d+)
  | (?P<prose><[^>]*>)
  | (?P<op>[/()\[\]=])
)''', re.X)


def _logical_lines(text: str) -> List[str]:
    out: List[str] = []
    for raw in text.splitlines():
        # strip comments (a ';' inside a quoted string is kept)
        line, inq = '', False
        for ch in raw:
            if ch == '"':
                inq = not inq
            if ch == ';' and not inq:
                break
            line += ch
        if not line.strip():
            continue
        if line[0] in ' \t':
            if not out:
                raise AbnfError("continuation line without a rule")
            out[-1] += ' ' + line.strip()
        else:
            out.append(line.rstrip())
    return out


def _tokens(s: str) -> List[Tuple[str, str]]:
    out, i = [], 0
    while i < len(s):
        if s[i:].strip() == '':
            break
        m = _TOK.match(s, i)
        if not m or m.end() == i:
            raise AbnfError(f"cannot tokenize {s[i:i + 20]!r}")
        i = m.end()
        for k in ('name', 'str', 'hex', 'rep', 'prose', 'op'):
            if m.group(k) is not None:
                out.append((k, m.group(k)))
                break
    return out


class _P:
    def __init__(self, toks):
        self.t, self.i = toks, 0

    def peek(self):
        return self.t[self.i] if self.i < len(self.t) else (None, None)

    def take(self):
        x = self.peek()
        self.i += 1
        return x

    def alternation(self):
        alts = [self.concatenation()]
        while self.peek() == ('op', '/'):
            self.take()
            alts.append(self.concatenation())
        return alts[0] if len(alts) == 1 else ('alt', alts)

    def concatenation(self):
        items = []
        while True:
            k, v = self.peek()
            if k is None or (k == 'op' and v in '/)]'):
                break
            items.append(self.repetition())
        if not items:
            raise AbnfError("empty concatenation")
        return items[0] if len(items) == 1 else ('cat', items)

    def repetition(self):
        k, v = self.peek()
        if k == 'rep':
            self.take()
            if '*' in v:
                lo_s, hi_s = v.split('*')
                lo, hi = (int(lo_s) if lo_s else 0), (int(hi_s) if hi_s else None)
            else:
                lo = hi = int(v)
            return ('rep', lo, hi, self.element())
        return self.element()

    def element(self):
        k, v = self.take()
        if k == 'name':
            return ('ref', v)
        if k == 'str':
            return ('lit', v[1:-1].encode('latin-1'))
        if k == 'hex':
            body = v[2:]
            if '-' in body:
                lo, hi = body.split('-')
                return ('rng', int(lo, 16), int(hi, 16))
            if '.' in body:
                parts = [int(x, 16) for x in body.split('.')]
                return ('cat', [('rng', c, c) for c in parts])
            return ('rng', int(body, 16), int(body, 16))
        if k == 'prose':       # `0<pchar>`: the bracketed text names a rule
            return ('ref', v[1:-1].strip())
        if k == 'op' and v == '(':
            e = self.alternation()
            if self.take() != ('op', ')'):
                raise AbnfError("expected )")
            return e
        if k == 'op' and v == '[':
            e = self.alternation()
            if self.take() != ('op', ']'):
                raise AbnfError("expected ]")
            return ('rep', 0, 1, e)
        raise AbnfError(f"unexpected token {k} {v}")


def parse_abnf(text: str) -> Dict[str, Any]:
    """rule name -> expression, in file order (dict preserves insertion order)."""
    rules: Dict[str, Any] = {}
    for line in _logical_lines(text):
        toks = _tokens(line)
        if len(toks) < 3 or toks[0][0] != 'name' or toks[1] != ('op', '='):
            raise AbnfError(f"not a rule: {line!r}")
        p = _P(toks[2:])
        e = p.alternation()
        if p.i != len(p.t):
            raise AbnfError(f"trailing tokens in {line!r}")
        if toks[0][1] in rules:
            raise AbnfError(f"duplicate rule {toks[0][1]}")
        rules[toks[0][1]] = e
    for e in rules.values():
        for r in refs_of(e):
            if r not in rules:
                raise AbnfError(f"undefined rule {r}")
    return rules


def refs_of(e) -> List[str]:
    k = e[0]
    if k == 'ref':
        return [e[1]]
    if k in ('cat', 'alt'):
        return [r for x in e[1] for r in refs_of(x)]
    if k == 'rep':
        return refs_of(e[3])
    return []


def _lower(c: int) -> int:
    return c + 32 if 65 <= c <= 90 else c


class Recogniser:
    """`ends(e, i)`: every j such that s[i:j] is derivable from e.  Exact for any grammar
    without left recursion (repetition bodies that derive the empty string are handled by
    ignoring non-advancing iterations, which does not change the set of end positions)."""

    def __init__(self, rules: Dict[str, Any], overrides: Optional[Dict[str, Any]] = None):
        self.rules = dict(rules)
        if overrides:
            self.rules.update(overrides)
        self.s = b''
        self.memo: Dict[Tuple[int, int], FrozenSet[int]] = {}
        self.keep: List[Any] = []

    def accepts(self, name: str, s: bytes) -> bool:
        self.s = s
        self.memo = {}
        self.keep = []
        return len(s) in self.ends(('ref', name), 0)

    def ends(self, e, i: int) -> FrozenSet[int]:
        key = (id(e), i)
        r = self.memo.get(key)
        if r is not None:
            return r
        self.keep.append(e)
        r = frozenset(self._ends(e, i))
        self.memo[key] = r
        return r

    def _ends(self, e, i):
        k, s = e[0], self.s
        if k == 'lit':
            t = e[1]
            n = len(t)
            if i + n <= len(s) and all(_lower(s[i + j]) == _lower(t[j]) for j in range(n)):
                return {i + n}
            return set()
        if k == 'rng':
            return {i + 1} if i < len(s) and e[1] <= s[i] <= e[2] else set()
        if k == 'ref':
            return self.ends(self.rules[e[1]], i)
        if k == 'alt':
            out = set()
            for x in e[1]:
                out |= self.ends(x, i)
            return out
        if k == 'cat':
            cur = {i}
            for x in e[1]:
                nxt = set()
                for p in cur:
                    nxt |= self.ends(x, p)
                cur = nxt
                if not cur:
                    break
            return cur
        if k == 'rep':
            lo, hi, body = e[1], e[2], e[3]
            out = set()
            # states: positions reachable after exactly c iterations (c capped at lo once beyond it)
            seen = set()
            frontier = {(0, i)}
            while frontier:
                nxt = set()
                for c, p in frontier:
                    if (c, p) in seen:
                        continue
                    seen.add((c, p))
                    if c >= lo:
                        out.add(p)
                    if hi is not None and c >= hi:
                        continue
                    for q in self.ends(body, p):
                        c2 = c + 1 if (hi is not None or c < lo) else c
                        if q == p and c >= lo:
                            continue
                        nxt.add((c2, q))
                frontier = nxt - seen
            return out
        raise AbnfError(f"bad expression {e!r}")


# ---------------------------------------------------------------- sampling derivable strings

def sample(rules: Dict[str, Any], name: str, rng, max_rep: int = 3, depth: int = 0) -> bytes:
    return _sample(rules, ('ref', name), rng, max_rep, depth)


def _sample(rules, e, rng, max_rep, depth) -> bytes:
    k = e[0]
    if k == 'lit':
        return bytes((c ^ 0x20) if (chr(c).isalpha() and rng.random() < 0.3) else c for c in e[1])
    if k == 'rng':
        return bytes([rng.randint(e[1], e[2])])
    if k == 'ref':
        return _sample(rules, rules[e[1]], rng, max_rep, depth + 1)
    if k == 'alt':
        return _sample(rules, rng.choice(e[1]), rng, max_rep, depth)
    if k == 'cat':
        return b''.join(_sample(rules, x, rng, max_rep, depth) for x in e[1])
    if k == 'rep':
        lo, hi = e[1], e[2]
        top = hi if hi is not None else lo + max_rep
        if depth > 6:
            top = min(top, lo + 1)
        # prefer the extremes now and then
        r = rng.random()
        n = lo if r < 0.25 else top if r < 0.4 else rng.randint(lo, top)
        return b''.join(_sample(rules, e[3], rng, max_rep, depth) for _ in range(n))
    raise AbnfError(f"bad expression {e!r}")


# ---------------------------------------------------------------- Lean rendering

def lean_name(n: str) -> str:
    return n.replace('-', '_')


def lean_expr(e) -> str:
    k = e[0]
    if k == 'lit':
        return f'.lit [{", ".join(str(c) for c in e[1])}]'
    if k == 'rng':
        return f'.rng {e[1]} {e[2]}'
    if k == 'ref':
        return f'.ref .{lean_name(e[1])}'
    if k in ('cat', 'alt'):
        xs = e[1]
        out = lean_expr(xs[-1])
        for x in reversed(xs[:-1]):
            out = f'.{k} ({lean_expr(x)}) ({out})'
        return out
    if k == 'rep':
        hi = 'none' if e[2] is None else f'(some {e[2]})'
        return f'.rep {e[1]} {hi} ({lean_expr(e[3])})'
    raise AbnfError(f"bad expression {e!r}")


def render_lean_rules(rules: Dict[str, Any], fn_name: str, indent: str = '  ') -> str:
    lines = [f"def {fn_name} : RuleName → AExp RuleName"]
    for n, e in rules.items():
        lines.append(f"{indent}| .{lean_name(n)} => {lean_expr(e)}")
    return "\n".join(lines)
