"""C05: the must_if< Errors, Control > control (custom messages, raise_on_failure).  The control is in the Lean model
(`Ctx.msgs`, `failureHook`; theorems C05_must_if, C08_must_if_never_fails) and compared trace by trace (profile `mi`); this
oracle judges the implementation's own trace independently: identity of the blamed rule (the first invocation that ends in an exception), the custom message / what() string
(checked inside the harness), the position interval, and that a rule with a message never fails locally."""
from __future__ import annotations
import random
from typing import Dict, List, Optional

from . import corpus, diffrun
from .diffrun import Case, Config, Trace
from .gram import ActSpec, grammar_to_json


def oracle_mustif(c: Case, tr: Trace) -> Optional[str]:
    mi = set(c.g.mi_msgs) if getattr(c.g, 'mi_rof', None) is None else set(c.g.mi_rof)      # the rules whose failure hook raises
    has_catch = any(nd.kind in ('tcrf', 'tcrn') for nd in c.g.nodes.values())
    stack = []        # [id, begin byte, max byte, id of the last raise hook called directly in this invocation]
    first_exc = None  # (id, begin, max, own raise) of the first invocation that ended in an exception
    for l in tr.events:
        p = l.split()
        if p[0] == 'E':
            stack.append([int(p[1]), int(p[4]), int(p[4]), None])
        elif p[0] == 'X':
            fr = stack.pop()
            fr[2] = max(fr[2], int(p[3]))
            if stack:
                stack[-1][2] = max(stack[-1][2], fr[2])
            if p[2] == '0' and fr[0] in mi:
                return f"rule {fr[0]} has a must_if message but failed locally (every local failure of such a rule must become a parse_error)"
            if p[2] == '2' and first_exc is None:
                first_exc = tuple(fr)
        elif p[0] in ('st', 'su', 'fa', 'uw', 'ap', 'a0', 'ra') and stack:
            pos = int(p[2]) if p[0] != 'ap' else int(p[5])
            stack[-1][2] = max(stack[-1][2], pos)
            if p[0] == 'ra':
                stack[-1][3] = int(p[1])
    r = tr.result.split()
    if has_catch:
        return None       # which exception is the first one to reach parse() is judged only where nothing can catch or nest it
    if r[1] != '2':
        if first_exc is not None:
            return "an invocation ended in an exception but parse() returned normally (no try_catch in this corpus)"
        return None
    if 'WHAT-MISMATCH' in tr.result:
        return f"what() is not 'source:line:column: message': {tr.result}"
    if len(r) < 10 or r[5] != 'P':
        return f"unexpected exception report '{tr.result}'"
    rid, byte = int(r[6]), int(r[7])
    if first_exc is None:
        return "parse() threw but no invocation ended in an exception"
    j, b, mx, own = first_exc
    nd = c.g.nodes.get(j)
    # who raised: a must / raise rule blames its sub-rule; a rule with a message blames itself from its own failure hook — which a
    # must rule with a message does too when its own action vetoes the match
    if own is not None and own == j and j in mi:
        want = j
    elif nd is not None and nd.kind in ('must', 'raise'):
        want = nd.params[0]
    else:
        want = j
        if j not in mi:
            return f"the first invocation that ended in an exception is of rule {j}, which is neither a must/raise rule nor has a message"
    if own is not None and own != want:
        return f"the raise hook inside rule {j} was called for rule {own}, expected {want}"
    if rid != want:
        return f"parse_error names rule {rid}; the first failing must/raise/message rule in evaluation order is {want}"
    if not (b <= byte <= mx):
        return f"parse_error position byte {byte} outside [{b}, {mx}] (where rule {j}'s attempt began .. the furthest point it reached)"
    return None


def mustif_part(v, cov, rng: random.Random, tier: str):
    n = 14 if tier == 'quick' else 70
    cases: List[Case] = []
    for gi in range(n):
        rg = corpus.RandGen(rng, False, True, rng.randint(3, 6))
        g, roots = rg.grammar(f"mi{gi}")
        corpus.attach_actions(rng, g, 'void')
        # no try_catch in this part (the oracle identifies the first exception); messages on a third of the visible rules
        if any(nd.kind in ('tcrf', 'tcrn') for nd in g.nodes.values()):
            continue
        g.mi_msgs = {nid: f"custom-message-{nid}" for nid, nd in g.nodes.items() if nd.ctl and rng.random() < 0.33}
        inputs = corpus.sample_inputs(rng, [97, 98, 99], 4, 70 if tier == 'quick' else 250, 3)
        for root in roots[:2]:
            for (a_, m_) in ((1, 'r'), (1, 'o'), (0, 'o')):
                cfg = Config(root, a_, m_, 'lf_crlf', 0, 1, 0, 0, 1)
                for j, d in enumerate(inputs):
                    cases.append(Case(f"{g.gid}_{root}_{a_}{m_}_{j}", g, cfg, d))
    res = diffrun.run_impl(cases, per_tu=2, tag='C05_mi')
    st = {'grammars': len({c.g.gid for c in cases}), 'cases': len(cases), 'traces': len(res.traces), 'parse_errors': 0,
          'custom_message_errors': 0, 'raise_on_failure_errors': 0, 'compile_errors': len(res.compile_errors)}
    for e in res.compile_errors[:3]:
        v.broke("must_if driver no longer compiles against /repo: " + e[:2000])
    for cid, msg in res.crashes[:3]:
        v.broke(f"must_if driver aborted ({cid}): " + msg[:1500])
    by_id = {c.cid: c for c in cases}
    for cid, tr in res.traces.items():
        c = by_id.get(cid)
        if c is None or not tr.result:
            continue
        r = tr.result.split()
        if r[1] == '2' and len(r) > 6 and r[5] == 'P':
            st['parse_errors'] += 1
            if int(r[6]) in c.g.mi_msgs:
                st['custom_message_errors'] += 1
                if not any(l.startswith('ra ') for l in tr.events):
                    st['raise_on_failure_errors'] += 1
        msg = oracle_mustif(c, tr)
        if msg and len(v.violations) < 5:
            gd = grammar_to_json(c.g)
            gd['mi_msgs'] = {str(k): m for k, m in c.g.mi_msgs.items()}
            v.failing_input({'oracle': 'must_if', 'what': msg, 'grammar_def': gd, 'grammar': c.g.proto_lines(),
                             'config': {k: getattr(c.cfg, k) for k in ('root', 'a', 'm', 'eol', 'lazy', 'unwind', 'fam', 'tree', 'mi')},
                             'input_hex': c.data.hex(), 'observed': {'events': tr.events[:300], 'result': tr.result}})
    cov['must_if_control'] = st
    cov['evaluations'] += st['traces']
