"""translate_grammar.py — translator for PEGTL's *declarative* grammar headers
(contrib/json.hpp, contrib/uri.hpp, contrib/abnf.hpp, ascii.hpp): C++ declarations of the form

    struct X : template-id { ...member aliases... };
    struct X;                                            (forward declaration)
    using X = template-id;                               (alias: the same type)
    template< typename R, typename P = ws > struct padr : seq< R, star< P > > {};   (local template)

are parsed into `vlib.gram` expressions (public rule names), resolved by `gram.Grammar.resolve()`
into the flat node table of the matcher model, and emitted as a Lean `Grammar` literal.

The translation is purely syntactic + the template/alias resolver of vlib/gram.py; it is part of
the trusted tie.  What protects it: (1) `Gen = Expected` is re-proved on every run, so any change
of the header changes the table the theorems are about; (2) the differential run compares the
real `parse<>` of the header's grammar with the model evaluating the translated table.

Entry points:  parse_header(text) -> Header;  Translator(...).add_header(...), .grammar(roots);
               lean_grammar(g, ...) -> str.
"""
from __future__ import annotations
import re
from dataclasses import dataclass, field
from pathlib import Path
from typing import Any, Dict, List, Optional, Tuple

from . import gram
from .gram import C, I, N, P, Ref, T, X


class TranslateError(Exception):
    pass


# vlib/gram.py needs a registry for the parameterless library rules that the headers define
# (`xdigit`, `abnf::HEXDIG`, …): design-notes/c14_gram.patch adds `PUBLIC_EXTRA` and consults it in
# `public_base` / `spell`.  Until that patch is applied the same (additive) behaviour is installed here.
if not hasattr(gram, 'PUBLIC_EXTRA'):
    gram.PUBLIC_EXTRA = {}
    _gram_public_base = gram.public_base

    def _public_base_with_extra(t):
        try:
            return _gram_public_base(t)
        except ValueError:
            if t.name in gram.PUBLIC_EXTRA and not t.args:
                return gram.PUBLIC_EXTRA[t.name]
            raise

    gram.public_base = _public_base_with_extra


# ============================================================== lexer

_ESC = {'n': 10, 't': 9, 'r': 13, 'v': 11, 'f': 12, '0': 0, 'a': 7, 'b': 8, '\\': 92, "'": 39, '"': 34, '?': 63}

_TOK = re.compile(r"""\s*(?:
    (?P<chr>'(?:\\x[0-9a-fA-F]+|\\[0-7]{1,3}|\\.|[^\\'])')
  | (?P<num>0[xX][0-9a-fA-F']+|\d[\d']*)[uUlL]*
  | (?P<id>(?:::)?[A-Za-z_][A-Za-z_0-9]*(?:\s*::\s*[A-Za-z_][A-Za-z_0-9]*)*)
  | (?P<str>"(?:\\.|[^\\"])*")
  | (?P<op>\.\.\.|[<>(),{};:=*&\[\]!+\-/%|^~?.])
)""", re.X)


def strip_comments(s: str) -> str:
    """Remove comments and preprocessor lines (string/char literals containing `//` do not occur in
    the declarative headers except inside char literals, which are protected)."""
    out, i, n = [], 0, len(s)
    while i < n:
        c = s[i]
        if c == "'":
            m = re.match(r"'(?:\\.[^']*|[^\\'])'", s[i:])
            if m:
                out.append(m.group(0))
                i += m.end()
                continue
        if c == '"':
            m = re.match(r'"(?:\\.|[^\\"])*"', s[i:])
            if m:
                out.append(m.group(0))
                i += m.end()
                continue
        if s.startswith('//', i):
            while i < n and s[i] != '\n':
                i += 1
            continue
        if s.startswith('/*', i):
            j = s.find('*/', i + 2)
            i = n if j < 0 else j + 2
            continue
        out.append(c)
        i += 1
    txt = ''.join(out)
    return re.sub(r'(?m)^[ \t]*#.*$', '', txt)


def char_value(lit: str) -> int:
    body = lit[1:-1]
    if body[0] != '\\':
        return ord(body)
    if body[1] == 'x':
        return int(body[2:], 16) % 256
    if body[1] in '01234567' and (len(body) > 2 or body[1] != '0'):
        return int(body[1:], 8) % 256
    return _ESC[body[1]]


def tokenize(s: str) -> List[Tuple[str, str]]:
    out, i = [], 0
    n = len(s)
    while i < n:
        m = _TOK.match(s, i)
        if not m:
            if s[i:].strip() == '':
                break
            raise TranslateError(f"cannot tokenize at {s[i:i+30]!r}")
        i = m.end()
        for k in ('chr', 'num', 'id', 'str', 'op'):
            v = m.group(k)
            if v is not None:
                if k == 'id':
                    v = re.sub(r'\s+', '', v)
                out.append((k, v))
                break
    return out


# ============================================================== syntax tree of a type expression

@dataclass
class TExpr:
    """name< args > | name | integer (`value`, `is_char` when written as a character literal)."""
    name: Optional[str] = None
    args: Optional[List['TExpr']] = None     # None = no template argument list
    value: Optional[int] = None
    is_char: bool = False
    pack: bool = False                        # followed by `...`

    def __repr__(self):
        if self.value is not None:
            return (f"'{self.value}'" if self.is_char else str(self.value))
        if self.args is None:
            return self.name + ('...' if self.pack else '')
        return f"{self.name}< {', '.join(map(repr, self.args))} >"


class _P:
    def __init__(self, toks):
        self.t = toks
        self.i = 0

    def peek(self, k=0):
        return self.t[self.i + k] if self.i + k < len(self.t) else ('eof', '')

    def next(self):
        tok = self.peek()
        self.i += 1
        return tok

    def accept(self, kind, val=None):
        k, v = self.peek()
        if k == kind and (val is None or v == val):
            self.i += 1
            return True
        return False

    def expect(self, kind, val=None):
        k, v = self.peek()
        if k != kind or (val is not None and v != val):
            raise TranslateError(f"expected {val or kind}, found {v!r} (token {self.i})")
        self.i += 1
        return v

    # type-expression  ::=  char | number | static_cast< T >( expr ) | id [ < args > ]
    def texpr(self) -> TExpr:
        k, v = self.peek()
        if k == 'chr':
            self.i += 1
            return TExpr(value=char_value(v), is_char=True)
        if k == 'num':
            self.i += 1
            return TExpr(value=int(v.replace("'", ''), 0))
        if k == 'op' and v == '-':
            self.i += 1
            e = self.texpr()
            if e.value is None:
                raise TranslateError("unary minus on a non-literal")
            return TExpr(value=-e.value, is_char=e.is_char)
        if k != 'id':
            raise TranslateError(f"unexpected token {v!r} in a type expression")
        self.i += 1
        if v == 'static_cast':
            self.expect('op', '<')
            ty = []
            while not (self.peek() == ('op', '>')):
                ty.append(self.next()[1])
            self.expect('op', '>')
            self.expect('op', '(')
            inner = self.texpr()
            self.expect('op', ')')
            if inner.value is None:
                raise TranslateError("static_cast of a non-literal")
            is_char = ' '.join(ty) in ('char', 'signed char', 'unsigned char')
            return TExpr(value=inner.value % 256 if is_char else inner.value, is_char=is_char)
        # multi-word builtin types: `unsigned char`, `unsigned long long` …
        if v in ('unsigned', 'signed', 'long', 'short'):
            words = [v]
            while self.peek()[0] == 'id' and self.peek()[1] in ('char', 'int', 'long', 'short', 'unsigned', 'signed'):
                words.append(self.next()[1])
            return TExpr(name=' '.join(words))
        e = TExpr(name=v)
        if self.peek() == ('op', '<'):
            self.i += 1
            e.args = []
            if not self.accept('op', '>'):
                while True:
                    e.args.append(self.texpr())
                    if self.accept('op', ','):
                        continue
                    self.expect('op', '>')
                    break
        if self.accept('op', '...'):
            e.pack = True
        return e


def parse_texpr(s: str) -> TExpr:
    p = _P(tokenize(s))
    e = p.texpr()
    if p.peek()[0] != 'eof':
        raise TranslateError(f"trailing tokens in type expression {s!r}")
    return e


# ============================================================== declarations

@dataclass
class Decl:
    kind: str                       # 'struct' | 'forward' | 'using'
    name: str
    base: Optional[TExpr] = None    # struct: the base class; using: the aliased type
    tparams: Optional[List[Tuple[str, str, Optional[TExpr], bool]]] = None   # (kind, name, default, is_pack)
    members: Dict[str, TExpr] = field(default_factory=dict)                  # member aliases `using content = …;`
    ns: str = ''


@dataclass
class Header:
    decls: List[Decl]
    namespaces: List[str]


def parse_header(text: str) -> Header:
    """All namespace-level `struct` / `using` declarations of a declarative grammar header."""
    toks = tokenize(strip_comments(text))
    p = _P(toks)
    decls: List[Decl] = []
    ns_stack: List[Tuple[str, int]] = []     # (name, brace depth at which it was opened)
    seen_ns: List[str] = []
    depth = 0

    def skip_braces():
        d = 0
        while True:
            k, v = p.next()
            if k == 'eof':
                raise TranslateError("unbalanced braces")
            if (k, v) == ('op', '{'):
                d += 1
            elif (k, v) == ('op', '}'):
                d -= 1
                if d == 0:
                    return

    def cur_ns():
        return '::'.join(n for n, _ in ns_stack if n)

    def tparams() -> List[Tuple[str, str, Optional[TExpr], bool]]:
        out = []
        p.expect('op', '<')
        if p.accept('op', '>'):
            return out
        while True:
            k, v = p.next()
            kind = v                           # typename | class | char | unsigned | std::size_t | …
            while p.peek()[0] == 'id' and p.peek(1) not in (('op', ','), ('op', '>'), ('op', '=')) and p.peek(1) != ('op', '...'):
                kind += ' ' + p.next()[1]
            pack = p.accept('op', '...')
            name = p.expect('id') if p.peek()[0] == 'id' else ''
            dflt = None
            if p.accept('op', '='):
                dflt = p.texpr()
            out.append((kind, name, dflt, pack))
            if p.accept('op', ','):
                continue
            p.expect('op', '>')
            return out

    def struct_decl(tps):
        name = p.expect('id')
        if p.accept('op', ';'):
            decls.append(Decl('forward', name, tparams=tps, ns=cur_ns()))
            return
        base = None
        if p.accept('op', ':'):
            while p.peek() in (('id', 'public'), ('id', 'private'), ('id', 'protected')):
                p.next()
            base = p.texpr()
            if p.peek() == ('op', ','):
                raise TranslateError(f"struct {name}: multiple base classes are not declarative grammar")
        members: Dict[str, TExpr] = {}
        if p.peek() != ('op', '{'):
            raise TranslateError(f"struct {name}: expected a body")
        # body: collect `using a = T;`, skip everything else
        p.expect('op', '{')
        d = 1
        while d:
            k, v = p.peek()
            if k == 'eof':
                raise TranslateError("unbalanced braces")
            if d == 1 and (k, v) == ('id', 'using') and p.peek(2) == ('op', '='):
                p.next()
                an = p.next()[1]
                p.next()
                try:
                    members[an] = p.texpr()
                except TranslateError:
                    pass
                while p.peek() != ('op', ';'):
                    p.next()
                p.next()
                continue
            p.next()
            if (k, v) == ('op', '{'):
                d += 1
            elif (k, v) == ('op', '}'):
                d -= 1
        p.expect('op', ';')
        if base is not None:
            decls.append(Decl('struct', name, base, tps, members, cur_ns()))

    while p.peek()[0] != 'eof':
        k, v = p.peek()
        if (k, v) == ('id', 'namespace'):
            p.next()
            name = ''
            if p.peek()[0] == 'id':
                name = p.next()[1]
            if p.accept('op', '='):          # namespace alias
                while not p.accept('op', ';'):
                    p.next()
                continue
            p.expect('op', '{')
            depth += 1
            parts = [x for x in name.split('::') if x and x not in ('TAO_PEGTL_NAMESPACE', 'tao', 'pegtl')]
            if name.startswith('inline'):
                parts = []
            ns_stack.append(('::'.join(parts), depth))
            if cur_ns() not in seen_ns:
                seen_ns.append(cur_ns())
            continue
        if (k, v) == ('id', 'inline') and p.peek(1) == ('id', 'namespace'):
            p.next()
            p.next()
            if p.peek()[0] == 'id':
                p.next()
            p.expect('op', '{')
            depth += 1
            ns_stack.append(('', depth))     # inline namespace: transparent
            continue
        if (k, v) == ('op', '}'):
            p.next()
            if ns_stack and ns_stack[-1][1] == depth:
                ns_stack.pop()
            depth -= 1
            continue
        if (k, v) == ('id', 'template'):
            p.next()
            tps = tparams()
            if p.accept('id', 'struct') or p.accept('id', 'class'):
                struct_decl(tps)
            elif p.accept('id', 'using'):
                name = p.expect('id')
                p.expect('op', '=')
                base = p.texpr()
                p.expect('op', ';')
                decls.append(Decl('using', name, base, tps, ns=cur_ns()))
            else:                             # function / variable template: skip to `;` or body
                while p.peek() not in (('op', ';'), ('op', '{'), ('eof', '')):
                    p.next()
                if p.peek() == ('op', '{'):
                    skip_braces()
                else:
                    p.next()
            continue
        if (k, v) == ('id', 'struct') or (k, v) == ('id', 'class'):
            p.next()
            struct_decl(None)
            continue
        if (k, v) == ('id', 'using'):
            p.next()
            if p.peek() == ('id', 'namespace'):
                while not p.accept('op', ';'):
                    p.next()
                continue
            name = p.expect('id')
            if p.accept('op', '='):
                base = p.texpr()
                p.expect('op', ';')
                decls.append(Decl('using', name, base, None, ns=cur_ns()))
            else:                             # using-declaration
                while not p.accept('op', ';'):
                    p.next()
            continue
        # anything else at namespace level: skip one token, or a whole brace block
        if (k, v) == ('op', '{'):
            skip_braces()
        else:
            p.next()
    return Header(decls, seen_ns)


# ============================================================== translation to gram expressions

_CPP_TYPES = {'char', 'int', 'unsigned', 'bool', 'void', 'long', 'short'}
_NS_PREFIXES = ('::tao::pegtl::', 'tao::pegtl::', 'TAO_PEGTL_NAMESPACE::', 'pegtl::', '::')


def strip_ns(name: str) -> str:
    changed = True
    while changed:
        changed = False
        for p in _NS_PREFIXES:
            if name.startswith(p):
                name = name[len(p):]
                changed = True
    if name.startswith('ascii::'):
        name = name[len('ascii::'):]
    return name


class Translator:
    """Collects the declarations of one or more headers and turns rule names into gram expressions.

    * structs declared in the *grammar namespace* (e.g. `json`) become named rules (`gram.Ref`),
      in declaration order (a forward declaration fixes the id);
    * `using X = T;` is the type `T`;
    * a local template is instantiated by substitution; when a struct derives from an
      instantiation (`struct begin_array : padr< one< '[' > > {}`) it inherits the `match()` of the
      instantiated base (`seq< one< '[' >, star< ws > >`), exactly like C++ inheritance; an
      instantiation used as a template *argument* is a rule type of its own and becomes a named rule;
    * names of library namespaces (`digit`, `abnf::HEXDIG`, `utf8::range`, `one`, …) stay public
      rule expressions `gram.P(name, …)`; parameterless library structs whose base is spelled with
      `internal::` templates (ascii.hpp, abnf.hpp) are registered in `gram.PUBLIC_EXTRA`.
    """

    def __init__(self, grammar_ns: str, gid: str):
        self.ns = grammar_ns
        self.g = gram.Grammar(gid)
        self.structs: Dict[str, Decl] = {}       # local non-template structs
        self.aliases: Dict[str, Decl] = {}       # local non-template usings
        self.templates: Dict[str, Decl] = {}     # local struct / alias templates
        self.refs: Dict[str, Ref] = {}
        self.order: List[str] = []               # named rules in id order
        self.inst: Dict[str, Ref] = {}           # instantiations used as arguments
        self.library: Dict[str, TExpr] = {}      # qualified library struct -> internal base
        self._defined: set = set()

    # ---- library headers (ascii.hpp, abnf.hpp): parameterless structs with internal:: bases
    def add_library(self, text: str, prefix: str = ''):
        for d in parse_header(text).decls:
            if d.kind != 'struct' or d.tparams is not None:
                continue
            q = (prefix + d.name) if prefix else d.name
            try:
                t = self._internal(d.base)
            except TranslateError:
                continue
            self.library[q] = d.base
            have = None
            try:
                have = gram.public_base(T('pub', q, ()))
            except (ValueError, IndexError):
                pass
            if have is None:
                gram.PUBLIC_EXTRA[q] = t
            elif gram.canon(have) != gram.canon(t):
                raise TranslateError(f"library rule {q}: header says {t}, vlib/gram.py says {have}")

    def _internal(self, e: TExpr):
        """`internal::ranges< internal::peek_char, 'a', 'z' >` -> gram.I(...)"""
        if e.value is not None:
            return C(e.value % 256) if e.is_char else N(e.value)
        name = strip_ns(e.name)
        if not name.startswith('internal::'):
            raise TranslateError(f"not an internal:: type: {e}")
        base = name[len('internal::'):]
        if base in ('peek_char', 'peek_utf8') or base.startswith('result_on_found::'):
            return X('tao::pegtl::internal::' + base)
        return I(base, *[self._internal(a) for a in (e.args or [])])

    # ---- the grammar header
    def add_header(self, text: str):
        hdr = parse_header(text)
        for d in hdr.decls:
            if d.ns != self.ns:
                continue
            if d.tparams is not None:
                if d.kind != 'forward':
                    self.templates[d.name] = d
                continue
            if d.kind == 'using':
                self.aliases[d.name] = d
                continue
            if d.name not in self.refs:
                self.refs[d.name] = self.g.declare()
                self.order.append(d.name)
            if d.kind == 'struct':
                if d.name in self.structs:
                    raise TranslateError(f"struct {d.name} defined twice")
                self.structs[d.name] = d
        for name in list(self.order):
            if name not in self.structs:
                raise TranslateError(f"struct {name} is declared but never defined")
        for name in list(self.order):
            self._define(name)
        return self

    def _define(self, name: str):
        if name in self._defined:
            return
        self._defined.add(name)
        self.g.define(self.refs[name], self._base_expr(self.structs[name].base, {}, [name]))

    def _local(self, raw: str) -> Optional[str]:
        """The unqualified name if `raw` can name a declaration of the grammar namespace:
        `x`, `json::x`, `TAO_PEGTL_NAMESPACE::json::x` — but not `TAO_PEGTL_NAMESPACE::x`."""
        name = strip_ns(raw)
        if name.startswith(self.ns + '::'):
            return name[len(self.ns) + 2:]
        if name != raw and not raw.startswith('ascii::'):
            return None                      # explicitly qualified with the library namespace
        return name if '::' not in name else None

    def _base_expr(self, e: TExpr, env: Dict[str, Any], chain: List[str]) -> T:
        """The public rule expression whose `match()` a struct with base `e` inherits."""
        if e.value is not None:
            raise TranslateError("a literal is not a base class")
        name = strip_ns(e.name)
        local = self._local(e.name)
        if e.args is None and local in env:
            v = env[local]
            if isinstance(v, Ref):
                return self._base_of_ref(v, chain)
            if isinstance(v, T):
                return v
            raise TranslateError(f"template parameter {local} used as a base is not a rule")
        if e.args is None and local in self.structs:
            if local in chain:
                raise TranslateError(f"inheritance cycle through {local}")
            return self._base_expr(self.structs[local].base, {}, chain + [local])
        if e.args is None and local in self.aliases:
            return self._base_expr(self.aliases[local].base, {}, chain)
        if local in self.templates:
            d = self.templates[local]
            return self._base_expr(d.base, self._bind(d, e, env), chain)
        t = self._arg(e, env)
        if isinstance(t, Ref):
            return self._base_of_ref(t, chain)
        if not isinstance(t, T) or t.ns != 'pub':
            raise TranslateError(f"base {e} is not a public rule")
        return t

    def _base_of_ref(self, r: Ref, chain):
        for n, rr in self.refs.items():
            if rr == r:
                return self._base_expr(self.structs[n].base, {}, chain + [n])
        for key, rr in self.inst.items():
            if rr == r:
                return self.g.named[r.id]
        raise TranslateError("unknown rule reference")

    def _bind(self, d: Decl, e: TExpr, env) -> Dict[str, Any]:
        args = [self._arg(a, env) for a in (e.args or [])]
        out: Dict[str, Any] = {}
        i = 0
        for kind, pname, dflt, pack in d.tparams:
            if pack:
                out[pname] = ('pack', args[i:])
                i = len(args)
            elif i < len(args):
                out[pname] = args[i]
                i += 1
            elif dflt is not None:
                out[pname] = self._arg(dflt, out)
            else:
                raise TranslateError(f"template {d.name}: missing argument for {pname}")
        if i < len(args):
            raise TranslateError(f"template {d.name}: too many arguments")
        return out

    def _args(self, es: List[TExpr], env) -> list:
        out = []
        for a in es:
            if a.pack and a.args is None and a.name in env and isinstance(env[a.name], tuple) and env[a.name][0] == 'pack':
                out.extend(env[a.name][1])
            else:
                out.append(self._arg(a, env))
        return out

    def _arg(self, e: TExpr, env: Dict[str, Any]):
        """A template argument: rule type, number, character or C++ type."""
        if e.value is not None:
            return C(e.value % 256) if e.is_char else N(e.value)
        name = strip_ns(e.name)
        local = self._local(e.name)
        if e.args is None and local in env:
            return env[local]
        if e.args is None and local in self.refs:
            return self.refs[local]
        if e.args is None and local in self.aliases:
            return self._arg(self.aliases[local].base, {})
        if local in self.templates:
            d = self.templates[local]
            benv = self._bind(d, e, env)
            if d.kind == 'using':
                return self._arg(d.base, benv)
            key = local + '<' + ','.join(map(repr, (benv[p[1]] for p in d.tparams))) + '>'
            if key not in self.inst:
                r = self.g.declare()
                self.inst[key] = r
                self.order.append(key)
                self.g.define(r, self._base_expr(d.base, benv, [key]))
            return self.inst[key]
        if name.startswith('std::') or name in _CPP_TYPES or ' ' in name:
            return X(name)
        if name.startswith('internal::'):
            return self._internal(e)
        # a library rule: keep the public name, translate the arguments
        args = self._args(e.args or [], env)
        return P(name, *args)

    # ---- result
    def ref(self, name: str) -> Ref:
        return self.refs[name]

    def add_rule(self, label: str, t: T) -> Ref:
        """An extra named rule that is not in the header (the rule the harness parses)."""
        r = self.g.rule(t)
        self.refs[label] = r
        self.order.append(label)
        return r

    def grammar(self) -> gram.Grammar:
        self.g.resolve()
        return self.g

    def names(self) -> List[Tuple[str, int]]:
        out = []
        ids = dict(self.refs)
        ids.update(self.inst)
        for n in self.order:
            if n in ids:
                out.append((n, ids[n].id))
        return out


# ============================================================== Lean emitter

def _lb(b) -> str:
    return 'true' if b else 'false'


def atom_lean(p: list) -> str:
    a = p[0]
    if a == 'one':
        return f"(.one {_lb(p[1])} [{', '.join(map(str, p[2]))}])"
    if a == 'range':
        return f"(.range {_lb(p[1])} {p[2]} {p[3]})"
    if a == 'ranges':
        pairs = ', '.join(f"({lo}, {hi})" for lo, hi in p[1])
        return f"(.ranges [{pairs}] {'none' if p[2] is None else f'(some {p[2]})'})"
    if a in ('string', 'istring'):
        return f"(.{a} [{', '.join(map(str, p[1]))}])"
    if a in ('bytes', 'require', 'maxDigits'):
        return f"(.{a} {p[1]})"
    if a == 'utf8Range':
        return f"(.utf8Range {_lb(p[1])} {p[2]} {p[3]})"
    if a in ('any', 'eof', 'bof', 'bol', 'eol', 'eolf', 'success', 'failure', 'everything'):
        return f".{a}"
    raise TranslateError(f"atom {a} has no Lean spelling")


def _ids(xs) -> str:
    return '[' + ', '.join(map(str, xs)) + ']'


def kind_lean(nd: gram.NodeRec) -> str:
    k, p = nd.kind, nd.params
    if k == 'atom':
        return f".atom {atom_lean(p)}"
    if k in ('seq', 'sor', 'starPartial', 'partialR'):
        return f".{k} {_ids(p[0])}"
    if k in ('plus', 'atR', 'notAt', 'until1', 'must', 'enable', 'disable', 'raise'):
        return f".{k} {p[0]}"
    if k in ('until2', 'strict', 'starStrict', 'rep', 'repOpt'):
        return f".{k} {p[0]} {p[1]}"
    if k == 'repMinMax':
        return f".repMinMax {p[0]} {p[1]} {p[2]} {p[3]}"
    if k == 'ifThenElse':
        return f".ifThenElse {p[0]} {p[1]} {p[2]}"
    if k == 'rematch':
        return f".rematch {p[0]} {_ids(p[1])}"
    if k == 'ifMust':
        return f".ifMust {_lb(p[0])} {p[1]} {p[2]}"
    if k == 'tcrf':
        return f".tryCatchReturnFalse .{p[0]} {p[1]}"
    if k == 'tcrn':
        return f".tryCatchRaiseNested .{p[0]} {p[1]}"
    if k == 'action':
        fam = p[0]
        return f".action {fam[1] if isinstance(fam, tuple) else fam} {p[1]}"
    raise TranslateError(f"kind {k} has no Lean spelling")


def lean_ident(s: str) -> str:
    s = re.sub(r'[^A-Za-z0-9_]', '_', s)
    return s if re.match(r'[A-Za-z_]', s) else '_' + s


def lean_grammar(g: gram.Grammar, names: List[Tuple[str, int]], namespace: str, defname: str,
                 header_lines: List[str], source: str) -> str:
    """`def <defname> : Grammar := #[ … ]`, `<defname>Names`, and one `Nat` constant per named rule
    in namespace `<Defname>Id`."""
    o = ["/-"] + ["  " + l for l in header_lines] + ["-/", "import PegtlVerif.Model.Basic", "",
         f"namespace Pegtl.{namespace}", ""]
    o.append(f"/-- The node table of {source}: entry `i` is the `match()` body of rule `i`; the comment gives the C++ type. -/")
    o.append(f"def {defname} : Grammar := #[")
    ids = sorted(g.nodes)
    if ids != list(range(len(ids))):
        raise TranslateError("node ids are not contiguous")
    label = {i: n for n, i in names}
    rows = []
    for nid in ids:
        nd = g.nodes[nid]
        cm = label.get(nid) or nd.cpp.replace('tao::pegtl::', '').replace(g.ns + '::', '')
        for n, i in names:
            cm = re.sub(rf'\bn{i}\b', n, cm)
        rows.append((f"  ⟨{_lb(nd.ctl)}, {{}}, {kind_lean(nd)}⟩", f"-- {nid} {cm}"))
    for j, (row, cm) in enumerate(rows):
        o.append(row + (',' if j + 1 < len(rows) else '') + '   ' + cm)
    o.append("]")
    o.append("")
    o.append(f"/-- Named rules of {source} and their node ids. -/")
    o.append(f"def {defname}Names : List (String × Nat) := [")
    o.append(",\n".join(f'  ("{n}", {i})' for n, i in names))
    o.append("]")
    o.append("")
    o.append(f"namespace {defname[0].upper() + defname[1:]}Id")
    for n, i in names:
        if re.fullmatch(r'[A-Za-z_][A-Za-z_0-9]*', n):
            o.append(f"abbrev {lean_ident(n)} : Nat := {i}")
    o.append(f"end {defname[0].upper() + defname[1:]}Id")
    o.append("")
    o.append(f"end Pegtl.{namespace}")
    return "\n".join(o) + "\n"


# ============================================================== convenience: the shipped grammars

def load_library(tr: Translator, include: Path):
    tr.add_library((include / 'ascii.hpp').read_text())
    tr.add_library((include / 'contrib' / 'abnf.hpp').read_text(), prefix='abnf::')


def translate_json(include: Path) -> Tuple[gram.Grammar, List[Tuple[str, int]], Translator]:
    """contrib/json.hpp plus the rule the C14 harness parses: `seq< json::text, eof >`."""
    tr = Translator('json', 'json')
    load_library(tr, include)
    tr.add_header((include / 'contrib' / 'json.hpp').read_text())
    tr.add_rule('top', P('seq', tr.ref('text'), P('eof')))
    g = tr.grammar()
    return g, tr.names(), tr
