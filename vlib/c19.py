"""c19.py — C19: error-reporting helpers (memory_input::at / begin_of_line / end_of_line / line_at)
return the exact source line of any position.

1. Lean obligations: lean/PegtlVerif/Props/C19.lean (theorems for every input, every k <= size, the five
   policies, eager and lazy, any initial byte and line counter; initial column 1 as far as really needed; witnesses
   for the known findings F10 — its column part; the byte part was repaired by fix F19 of at() — and F11).
2. Correspondence: harness/leaf_c19.cpp (the real memory_input, ASan+UBSan) against lean/DrvC19.lean (the
   model) on every input up to a length bound over {'a', LF, CR} plus seeded random longer inputs, every
   position 0..size obtained by in.bump(k), by parse< bytes< k > > and during a run of
   seq< mark, star< sor< eol, any >, mark > >, 5 policies, eager/lazy, default and non-default initial counters.
3. Oracle: an independent Python line splitter evaluated on the implementation's records: at = k,
   begin_of_line = index after the last line-break byte before k, end_of_line = first index >= k where the
   policy's end-of-line sequence starts or the data ends, line_at = exactly [begin, end), every pointer inside
   [0, size].  Failures that are exactly F10 (initial column != 1, first line) or F11 (eol::cr_crlf, eager,
   CR LF consumed by `eol`) are reported as KNOWN-FINDING; anything else is a VIOLATION with a replay file.
"""
from __future__ import annotations
import itertools
import json
import random
import time
from collections import Counter
from concurrent.futures import ThreadPoolExecutor, ProcessPoolExecutor
from pathlib import Path
from typing import Any, Dict, List, Optional, Tuple

from . import common, leaf

PROP = 'C19'
POLICIES = ['lf', 'cr', 'crlf', 'lf_crlf', 'cr_crlf']
BREAK = {'lf': 10, 'cr': 13, 'crlf': 10, 'lf_crlf': 10, 'cr_crlf': 13}
ALPHA = [0x61, 0x0a, 0x0d]
YMAX = 12
WORKERS = 4

DEFAULT_INIT = (0, 1, 1)
LINE_ONLY = (0, 7, 1)                    # the property must hold: theorems need byte 0 and column 1 only
F10_INITS = [(0, 1, 4), (2, 1, 3), (3, 2, 5), (10, 1, 1)]   # byte and/or column non-default (column: finding F10; byte: repaired by F19)

Case = Tuple[str, int, Tuple[int, int, int], bytes]


# ---------------------------------------------------------------- the independent meaning (oracle)

def eol_len(policy: str, data: bytes, q: int) -> int:
    """Length of the end-of-line sequence of `policy` starting at q, 0 if none (documented accept sets)."""
    n = len(data)
    c = data[q] if q < n else -1
    d = data[q + 1] if q + 1 < n else -1
    if policy == 'lf':
        return 1 if c == 10 else 0
    if policy == 'cr':
        return 1 if c == 13 else 0
    if policy == 'crlf':
        return 2 if (c == 13 and d == 10) else 0
    if policy == 'lf_crlf':
        return 1 if c == 10 else (2 if (c == 13 and d == 10) else 0)
    if policy == 'cr_crlf':
        return (2 if d == 10 else 1) if c == 13 else 0
    raise ValueError(policy)


def spec_begin(policy: str, data: bytes, k: int) -> int:
    """Index directly after the last line-break byte before k (0 if none)."""
    return data.rfind(bytes([BREAK[policy]]), 0, k) + 1


def spec_end(policy: str, data: bytes, k: int) -> int:
    """First index >= k where an end-of-line sequence starts, or the size."""
    q = k
    while q < len(data) and eol_len(policy, data, q) == 0:
        q += 1
    return q


def token_bounds(policy: str, data: bytes) -> List[int]:
    """Offsets after 0, 1, 2, ... tokens of sor< eol, any >."""
    out = [0]
    q = 0
    while q < len(data):
        q += eol_len(policy, data, q) or 1
        out.append(q)
    return out


def parse_record(rec: str) -> Optional[Dict[str, Any]]:
    f = rec.split(':')
    if len(f) != 11 or f[0] not in ('B', 'Y', 'T', 'R', 'U'):
        return None
    try:
        r = {'mode': f[0], 'i': int(f[1]), 'off': int(f[2]), 'byte': int(f[3]), 'line': int(f[4]), 'col': int(f[5]),
             'at': int(f[6]), 'bol': int(f[7])}
        if f[8] == 'x':
            if f[9] != 'x' or f[10] != 'x':
                return None
            r['eol'] = r['lb'] = r['ll'] = None
        else:
            r['eol'], r['lb'], r['ll'] = int(f[8]), int(f[9]), int(f[10])
        return r
    except ValueError:
        return None


def judge(case: Case, r: Dict[str, Any]) -> Tuple[List[str], Optional[str], Dict[str, Any]]:
    """Evaluate the property on one record of the implementation.
    Returns (list of what fails, known finding id or None, expected values)."""
    policy, lazy, (ib, il, ic), data = case
    lazy &= 1            # bit 1: the input came from basic_node::as_memory_input — same expectations
    n = len(data)
    k = r['off']
    fails: List[str] = []
    exp: Dict[str, Any] = {}
    # the position was really obtained where we think it was
    if r['mode'] in ('B', 'Y'):
        if k != r['i']:
            fails.append(f"cursor offset {k} after consuming {r['i']} bytes")
    elif r['mode'] == 'U':
        ends = [0] + [j + 1 for j, b in enumerate(data) if b == 97]
        if r['i'] >= len(ends) or ends[r['i']] != k:
            fails.append(f"cursor offset {k} behind the {r['i']}-th 'a'")
    else:
        tb = token_bounds(policy, data)
        if r['i'] >= len(tb) or tb[r['i']] != k:
            fails.append(f"cursor offset {k} after {r['i']} tokens")
    if not (0 <= k <= n):
        fails.append('cursor outside the data')
        return fails, None, exp
    if r['byte'] != ib + k:
        fails.append(f"position.byte {r['byte']} != initial byte {ib} + offset {k}")
    b, e = spec_begin(policy, data, k), spec_end(policy, data, k)
    exp = {'at': k, 'begin_of_line': b, 'end_of_line': e, 'line_at': [b, e - b], 'line_hex': data[b:e].hex()}
    if r['at'] != k:
        fails.append(f"at()={r['at']} expected {k}")
    if not (0 <= r['at'] <= n):
        fails.append(f"at() outside [0,{n}]")
    if r['bol'] != b:
        fails.append(f"begin_of_line()={r['bol']} expected {b}")
    if not (0 <= r['bol'] <= n):
        fails.append(f"begin_of_line() outside [0,{n}]")
    if r['eol'] is None:
        fails.append('end_of_line()/line_at() not callable: at() outside the data (skipped-oob)')
    else:
        if r['eol'] != e:
            fails.append(f"end_of_line()={r['eol']} expected {e}")
        if not (0 <= r['eol'] <= n):
            fails.append(f"end_of_line() outside [0,{n}]")
        if (r['lb'], r['ll']) != (b, e - b):
            fails.append(f"line_at()=({r['lb']},{r['ll']}) expected ({b},{e - b})")
        if not (0 <= r['lb'] and 0 <= r['ll'] and r['lb'] + r['ll'] <= n):
            fails.append(f"line_at() view outside [0,{n}]")
    if not fails:
        return fails, None, exp
    # ---- is it exactly a known finding?
    first_line = (b == 0)
    known = None
    if ic != 1 and first_line:
        # F10 (what is left of it after fix F19 of at()): begin_of_line = at - (column - 1) subtracts the initial column on the
        # first line.  at() and end_of_line() must be right; line_at() must follow from the wrong begin.
        ok = (r['at'] == k and r['bol'] == r['at'] - (r['col'] - 1) and r['byte'] == ib + k and r['eol'] == e
              and r['lb'] == r['bol'] and r['ll'] == r['eol'] - r['bol']
              and not any(f.startswith('cursor') for f in fails))
        if ok:
            known = 'F10'
    elif (policy == 'cr_crlf' and lazy == 0 and r['mode'] in ('T', 'R') and b >= 1 and b < k
          and data[b - 1] == 13 and data[b] == 10
          and r['at'] == k and r['byte'] == ib + k and r['eol'] == e and r['bol'] == b + 1
          and r['lb'] == b + 1 and r['ll'] == e - (b + 1)
          and not any(f.startswith('cursor') for f in fails)):
        # F11: `eol` consumed CR LF with bump_to_next_line( 2 ): eager column restarts after the LF,
        # the scan rule (line-break byte CR) restarts after the CR.
        known = 'F11'
    return fails, known, exp


def judge_chunk(chunk: List[Tuple[Case, str]]) -> Dict[str, Any]:
    """Oracle over a chunk of (case, implementation output line)."""
    st = {'records': 0, 'ok': 0, 'known': Counter(), 'bad': [], 'nontrivial': set(), 'modes': Counter(),
          'at_end': 0, 'first_line': 0, 'unparsable': [], 'known_samples': {}, 'positions': set()}
    for case, line in chunk:
        policy, lazy, init, data = case
        recs = line.split()
        if line.startswith('CRASHED'):
            if line != 'CRASHED not-run':
                st['bad'].append({'case': case_json(case), 'record': line, 'expected': {},
                                  'fails': ['the driver over the real memory_input died on this case (sanitizer report or signal)']})
            continue
        if not recs:
            st['unparsable'].append((case, line))
            continue
        seen_b = 0
        for rec in recs:
            r = parse_record(rec)
            if r is None:
                st['unparsable'].append((case, rec))
                continue
            st['records'] += 1
            st['modes'][r['mode']] += 1
            if r['mode'] == 'B':
                seen_b += 1
            fails, known, exp = judge(case, r)
            k = r['off']
            if exp:
                if exp['begin_of_line'] > 0 or exp['end_of_line'] < len(data):
                    st['nontrivial'].add((policy, data, k))
                st['positions'].add((policy, data, k))
                if k == len(data):
                    st['at_end'] += 1
                if exp['begin_of_line'] == 0:
                    st['first_line'] += 1
            if not fails:
                st['ok'] += 1
            elif known:
                st['known'][known] += 1
                cur = st['known_samples'].get(known)
                if cur is None:
                    st['known_samples'][known] = {'case': case_json(case), 'record': rec, 'fails': fails, 'expected': exp}
            else:
                if len(st['bad']) < 20:
                    st['bad'].append({'case': case_json(case), 'record': rec, 'fails': fails, 'expected': exp})
                else:
                    st['bad_more'] = st.get('bad_more', 0) + 1
        if seen_b != len(data) + 1:
            st['unparsable'].append((case, f"expected {len(data) + 1} B records, got {seen_b}"))
    st['nontrivial'] = list(st['nontrivial'])
    st['positions'] = len(st['positions'])
    return st


def case_json(case: Case) -> Dict[str, Any]:
    policy, lazy, init, data = case
    return {'policy': policy, 'tracking': 'lazy' if lazy & 1 else 'eager', 'init_byte_line_column': list(init),
            'input_hex': data.hex() or '-', 'via_parse_tree_node': bool(lazy & 2)}


def case_line(case: Case) -> str:
    policy, lazy, (ib, il, ic), data = case
    return f"{policy} {lazy} {ib} {il} {ic} {data.hex() or '-'}"


# ---------------------------------------------------------------- generation

def gen_cases(tier: str, rng: random.Random) -> Tuple[List[Case], Dict[str, Any]]:
    lmax = 6 if tier == 'quick' else 8
    lfull = 5 if tier == 'quick' else 6       # up to here every F10 configuration for every input
    cases: List[Case] = []
    dist = {'exhaustive_max_len': lmax, 'alphabet': "a LF CR", 'inputs_by_len': Counter(), 'configs': Counter()}
    idx = 0
    for L in range(0, lmax + 1):
        for tup in itertools.product(ALPHA, repeat=L):
            data = bytes(tup)
            dist['inputs_by_len'][L] += 1
            idx += 1
            inits = [DEFAULT_INIT, LINE_ONLY]
            if L <= lfull:
                inits += F10_INITS
            else:
                inits.append(F10_INITS[idx % len(F10_INITS)])
            for policy in POLICIES:
                for lazy in (0, 1):
                    for init in inits:
                        cases.append((policy, lazy, init, data))
                        dist['configs'][str(init)] += 1
    nrand = 400 if tier == 'quick' else 4000
    dist['random_inputs'] = nrand
    weights = [[6, 2, 2], [2, 4, 4], [1, 1, 8], [1, 8, 1], [10, 1, 1]]
    for j in range(nrand):
        L = rng.randint(lmax + 1, 40)
        w = weights[j % len(weights)]
        data = bytes(rng.choices(ALPHA, weights=w, k=L))
        if j % 7 == 0:   # other bytes too, including NUL and high bytes
            data = bytes(rng.choice([0x61, 0x0a, 0x0d, 0x00, 0xff, 0x20]) for _ in range(L))
        dist['inputs_by_len'][L] += 1
        policy = POLICIES[j % 5]
        for lazy in (0, 1):
            inits = [DEFAULT_INIT, (0, rng.randint(2, 1000), 1),
                     (rng.choice([0, 0, 1, 5, 50]), rng.randint(1, 9), rng.randint(1, 9))]
            for init in inits:
                cases.append((policy, lazy, init, data))
                dist['configs']['default' if init == DEFAULT_INIT else ('line-only' if init[0] == 0 and init[2] == 1 else 'random-nondefault')] += 1
    # the input a parse-tree node hands out (basic_node::as_memory_input: constructed from the node's begin counters): nodes
    # starting on a later line at column 1 (clean) and in the middle of a line (column > 1: F10)
    nnode = 0
    for L in range(0, 5 if tier == 'quick' else 6):
        for tup in itertools.product(ALPHA, repeat=L):
            data = bytes(tup)
            for pi, policy in enumerate(POLICIES):
                for lazy in (2, 3):
                    for init in ((7, 3, 1), (0, 2, 1), (12, 1, 4), (5, 4, 2)):
                        if (pi + lazy + init[0] + len(cases)) % 2 and L > 3:
                            continue
                        cases.append((policy, lazy, init, data))
                        nnode += 1
    for j in range(60 if tier == 'quick' else 600):
        L = rng.randint(5, 30)
        data = bytes(rng.choices(ALPHA, weights=weights[j % len(weights)], k=L))
        cases.append((POLICIES[j % 5], 2 + j % 2, (rng.randint(0, 99), rng.randint(2, 50), 1 if j % 3 else rng.randint(2, 9)), data))
        nnode += 1
    dist['via_parse_tree_node'] = nnode
    # fixed boundary cases (regressions / witnesses of the Lean file)
    fixed = [
        ('lf', 0, (10, 1, 1), b'ab\ncd'),             # C19_initial_counters_witness
        ('lf', 0, (0, 1, 5), b'ab\ncd'),              # C19_initial_column_witness
        ('cr_crlf', 0, DEFAULT_INIT, b'\r\nb'),       # C19_crCrlf_eager_witness
        ('cr_crlf', 1, DEFAULT_INIT, b'\r\nb'),
        ('lf_crlf', 1, (0, 7, 1), b'ab\ncd\r\nef'),   # exLazy
        ('crlf', 0, (0, 1, 3), b'ab\ncd\r\nef'),      # exEager
        ('lf_crlf', 0, DEFAULT_INIT, b'foo\nbar bla blubb\nbaz'),   # src/test/pegtl/parse_error.cpp
    ]
    cases += fixed
    dist['fixed'] = len(fixed)
    dist['inputs_by_len'] = dict(sorted(dist['inputs_by_len'].items()))
    dist['configs'] = dict(dist['configs'])
    return cases, dist


# ---------------------------------------------------------------- running

def run_one_chunk(exe: Path, ch: List[str], max_crashes: int = 8) -> Tuple[List[str], List[str]]:
    """Run a driver over a chunk.  If the process dies (sanitizer report, signal) the case without
    output is marked `CRASHED ...` and the run resumes behind it, so that one crash costs one case."""
    out: List[str] = []
    problems: List[str] = []
    rest = ch
    crashes = 0
    while rest:
        p = leaf.run_exe(exe, "\n".join(rest) + "\n", timeout=3000)
        got = p.stdout.split('\n')
        if got and got[-1] == '':
            got.pop()
        if p.returncode == 0 and len(got) == len(rest):
            out += got
            break
        got = got[:len(rest)]
        crashes += 1
        summary = ' '.join((p.stderr or '').split())[:300]
        problems.append(f"{exe.name}: exit {p.returncode} at case {rest[min(len(got), len(rest) - 1)]!r}: {summary}")
        out += got
        if len(got) < len(rest):
            out.append('CRASHED exit=%d %s' % (p.returncode, summary[:200]))
            rest = rest[len(got) + 1:]
        else:
            rest = []
        if crashes >= max_crashes:
            out += ['CRASHED not-run'] * len(rest)
            break
    return out, problems


def run_stream(exe: Path, lines: List[str], workers: int = WORKERS) -> Tuple[List[str], List[str]]:
    """Run a driver over the case lines in `workers` chunks; returns (output lines, problems)."""
    if not lines:
        return [], []
    n = max(1, min(workers, len(lines) // 200 + 1))
    size = (len(lines) + n - 1) // n
    chunks = [lines[i:i + size] for i in range(0, len(lines), size)]
    with ThreadPoolExecutor(max_workers=n) as ex:
        res = list(ex.map(lambda ch: run_one_chunk(exe, ch), chunks))
    out: List[str] = []
    problems: List[str] = []
    for o, pr in res:
        out += o
        problems += pr
    return out, problems


def build(verdict: common.Verdict) -> Tuple[Optional[Path], Optional[Path]]:
    ok, out = leaf.build_lean_exe('drv_c19')
    if not ok:
        verdict.broke('lean driver drv_c19 does not build: ' + out[-400:])
        return None, None
    cpp = common.BUILD / 'leaf' / 'leaf_c19'
    ok, err = leaf.compile_cpp(common.VERIF / 'harness' / 'leaf_c19.cpp', cpp)
    if not ok:
        verdict.broke('harness/leaf_c19.cpp no longer compiles against the headers: ' + err[-600:])
        return None, None
    return cpp, leaf.lean_exe('drv_c19')


def evaluate(verdict: common.Verdict, cases: List[Case], cpp: Path, drv: Path, want_model: bool = True) -> Dict[str, Any]:
    lines = [case_line(c) for c in cases]
    t0 = time.time()
    impl, prob_i = run_stream(cpp, lines)
    t1 = time.time()
    model, prob_m = run_stream(drv, lines, workers=2) if want_model else (list(impl), [])
    t2 = time.time()
    for p in prob_i + prob_m:
        verdict.broke('correspondence: ' + p)
    # --- diff
    mism = [i for i, (a, b) in enumerate(zip(impl, model)) if a != b]
    info: Dict[str, Any] = {'cases': len(cases), 'mismatching_cases': len(mism), 't_impl_s': round(t1 - t0, 1), 't_model_s': round(t2 - t1, 1)}
    if mism:
        i = mism[0]
        ra, rb = impl[i].split(), model[i].split()
        d = next(((x, y) for x, y in itertools.zip_longest(ra, rb) if x != y), None)
        verdict.broke(f"correspondence: model and memory_input disagree on {len(mism)} cases; first: {lines[i]!r} impl={d[0] if d else None} model={d[1] if d else None}")
        info['first_mismatch'] = {'case': lines[i], 'impl': d[0] if d else None, 'model': d[1] if d else None}
    # --- oracle over the implementation's observations (always; disagreeing cases first)
    ms = set(mism)
    order = mism + [i for i in range(len(cases)) if i not in ms]
    pairs = [(cases[i], impl[i]) for i in order]
    nchunk = max(1, min(WORKERS, len(pairs) // 2000 + 1))
    size = (len(pairs) + nchunk - 1) // nchunk
    chunks = [pairs[i:i + size] for i in range(0, len(pairs), size)]
    if nchunk > 1:
        with ProcessPoolExecutor(max_workers=nchunk) as ex:
            stats = list(ex.map(judge_chunk, chunks))
    else:
        stats = [judge_chunk(c) for c in chunks]
    t3 = time.time()
    info['t_oracle_s'] = round(t3 - t2, 1)
    tot = {'records': 0, 'ok': 0, 'known': Counter(), 'bad': [], 'modes': Counter(), 'at_end': 0, 'first_line': 0,
           'unparsable': [], 'known_samples': {}, 'bad_more': 0}
    nontriv = set()
    for s in stats:
        for key in ('records', 'ok', 'at_end', 'first_line'):
            tot[key] += s[key]
        tot['known'].update(s['known'])
        tot['modes'].update(s['modes'])
        tot['bad'] += s['bad']
        tot['bad_more'] += s.get('bad_more', 0)
        tot['unparsable'] += s['unparsable']
        for kf, v in s['known_samples'].items():
            cur = tot['known_samples'].get(kf)
            if cur is None or (v['record'].endswith('x:x:x') and not cur['record'].endswith('x:x:x')):
                tot['known_samples'][kf] = v
        nontriv.update(tuple(x) for x in s['nontrivial'])
    tot['distinct_nontrivial'] = len(nontriv)
    info['oracle'] = tot
    pick = sorted({0, len(cases) // 5, len(cases) // 3, len(cases) // 2, (2 * len(cases)) // 3, len(cases) - 1})
    info['samples'] = [{'case': case_json(cases[i]), 'records_M:i:off:byte:line:col:at:bol:eol:lb:ll': impl[i].split()[:12]} for i in pick]
    return info


def demote_unlisted(tot: Dict[str, Any]):
    """A failure that matches F10/F11 is tolerated only while known_findings.json lists it as known."""
    listed = {f['id'] for f in common.load_known() if f.get('status') == 'known'}
    for fid in [f for f in tot['known'] if f not in listed]:
        s = tot['known_samples'][fid]
        tot['bad'].insert(0, {'case': s['case'], 'record': s['record'], 'expected': s['expected'],
                              'fails': s['fails'] + [f"matches {fid}, which known_findings.json does not list as known"]})
        del tot['known'][fid]


def report(verdict: common.Verdict, info: Dict[str, Any]):
    tot = info['oracle']
    for case, what in tot['unparsable'][:3]:
        verdict.broke(f"correspondence: unreadable output for {case_line(case)!r}: {str(what)[:200]}")
    demote_unlisted(tot)
    for fid, cnt in tot['known'].items():
        s = tot['known_samples'][fid]
        if fid == 'F10':
            verdict.known('F10', f"F10 memory_input::begin_of_line / line_at on the first line of an input constructed with initial column != 1: {cnt} positions; e.g. "
                                 f"{json.dumps(s['case'])} record {s['record']}: {s['fails'][0]}")
        else:
            verdict.known('F11', f"F11 eol::cr_crlf eager: begin_of_line/line_at after `eol` consumed CR LF starts after the LF, "
                                 f"the scan rule (and the lazy input) after the CR: {cnt} positions; e.g. {json.dumps(s['case'])} "
                                 f"record {s['record']}: {s['fails'][0]}")
        verdict.known_hit[fid] = cnt
    for b in tot['bad'][:5]:
        verdict.failing_input({'input_hex': b['case']['input_hex'], 'config': b['case'], 'observed': b['record'],
                               'record_format': 'M:i:off:byte:line:col:at:bol:eol:lb:ll', 'expected': b['expected'],
                               'what_fails': b['fails'], 'oracle': 'vlib/c19.py judge(): independent line splitter',
                               'broken': verdict.broken[:3]})


def run(tier: str) -> int:
    verdict = common.Verdict(PROP, tier)
    rng = random.Random(common.seed() * 1000003 + 19)
    lean = common.check_lean(['PegtlVerif.Props.C19'], leanchecker=(tier == 'thorough'))
    for p in lean.problems:
        verdict.broke('lean: ' + p)
    coverage: Dict[str, Any] = {
        'obligations': lean.obligations, 'discharged': lean.discharged if lean.ok else min(lean.discharged, max(0, lean.obligations - 1)),
        'checker_cmd': lean.checker_cmd, 'theorems': lean.theorems, 'axioms': lean.axioms,
        'trusted_base': common.TRUSTED_BASE + [
            "lean/PegtlVerif/Spec/Lines.lean (IsLineBegin / IsLineEnd / IsLine: the meaning of 'the line containing k'); "
            "vlib/c19.py judge() re-states it in Python for the oracle",
            "harness/leaf_c19.cpp + lean/DrvC19.lean line protocol; pointers are compared as integer offsets from the first data byte",
        ],
    }
    cpp, drv = build(verdict)
    evaluations = 0
    if cpp is not None:
        cases, dist = gen_cases(tier, rng)
        info = evaluate(verdict, cases, cpp, drv)
        report(verdict, info)
        tot = info['oracle']
        evaluations = tot['records']
        print(f"C19 {tier}: {len(cases)} cases, {tot['records']} positions ({dict(tot['modes'])}), ok {tot['ok']}, "
              f"known {dict(tot['known'])}, bad {len(tot['bad']) + tot['bad_more']}, model/impl mismatching cases {info['mismatching_cases']}; "
              f"impl {info['t_impl_s']}s model {info['t_model_s']}s oracle {info['t_oracle_s']}s")
        print(f"  distribution: inputs by length {dist['inputs_by_len']}; configs {dist['configs']}")
        coverage.update({
            'evaluations': evaluations,
            'distinct_nontrivial': tot['distinct_nontrivial'],
            'rule': "one evaluation = one position (policy, tracking, initial counters, input, way of obtaining it, offset k) for which all four "
                    "helpers were observed on the real memory_input and compared with the model and the oracle; distinct = distinct "
                    "(policy, input, k); non-trivial = the line containing k is a proper part of the input (begin > 0 or end < size)",
            'exhaustive': True,
            'exhaustive_scope': f"all inputs over {{a, LF, CR}} of length 0..{dist['exhaustive_max_len']}, every k in 0..size, 5 policies, eager+lazy, "
                                f"default and line-only initial counters (every F10 configuration up to length {5 if tier == 'quick' else 6}, one rotating beyond); "
                                f"plus {dist['random_inputs']} seeded random inputs of length up to 40",
            'cases': len(cases), 'positions_by_mode': dict(tot['modes']), 'positions_at_very_end': tot['at_end'],
            'positions_on_first_line': tot['first_line'], 'oracle_ok': tot['ok'],
            'mismatching_cases_model_vs_impl': info['mismatching_cases'],
            'distribution': dist,
            'timing_s': {k: v for k, v in info.items() if k.startswith('t_')},
            'samples': info['samples'] + [
                {'known_finding': k, **v} for k, v in tot['known_samples'].items()],
        })
    else:
        coverage.update({'evaluations': 0, 'distinct_nontrivial': 0, 'rule': 'drivers did not build', 'samples': []})
    evidence = {'level': 'proof', 'coverage': coverage,
                'assumptions': ["column counters never wrap (size_t) and initial line/column are non-zero (asserted by the constructors)",
                                "agreement of model and code is sampled as described in coverage, not proved"]}
    return verdict.finish(evidence)


def replay(path: str) -> int:
    """Re-evaluate the case named by a replay file against the current headers: exit 1 if the
    oracle (or the model comparison) still fails on it, 0 otherwise.  Writes no evidence."""
    payload = json.loads(Path(path).read_text())
    verdict = common.Verdict(PROP, 'quick')
    cfg = payload.get('config')
    if not cfg:
        print('replay file names no input (kind: %s); broken: %s' % (payload.get('kind'), payload.get('broken')))
        return 1
    cpp, drv = build(verdict)
    if cpp is None:
        print('replay: build failed: ' + '; '.join(verdict.broken))
        return 1
    hx = cfg['input_hex']
    case: Case = (cfg['policy'], (1 if cfg['tracking'] == 'lazy' else 0) + (2 if cfg.get('via_parse_tree_node') else 0), tuple(cfg['init_byte_line_column']),
                  bytes.fromhex('' if hx == '-' else hx))
    info = evaluate(verdict, [case], cpp, drv)
    tot = info['oracle']
    demote_unlisted(tot)
    print(f"replay: {case_line(case)}: {tot['records']} positions, ok {tot['ok']}, known {dict(tot['known'])}, "
          f"bad {len(tot['bad'])}, model/impl mismatch {info['mismatching_cases']}")
    for b in tot['bad'][:10]:
        print('  FAILS', b['record'], b['fails'], 'expected', b['expected'])
    for w in verdict.broken:
        print('  BROKEN', w)
    return 1 if (tot['bad'] or verdict.broken or tot['unparsable']) else 0
