"""C04 — actions fire once per surviving successful match with the exact matched span.
Proof: lean/PegtlVerif/Props/C04.lean (survivors = transactional reading of the trace; once, after the match, with the exact span;
nothing with actions disabled; veto = failure + rewind).
Tie: full-trace differential run with void / bool / throwing apply and apply0 on arbitrary rules, enable/disable/at/not_at nesting,
eager and lazy inputs; the model's survivor list is compared with the transactional log computed from the implementation's trace.
Oracle (implementation trace only): every invocation of a rule with an enabled action that returns success has exactly one action
event, after its inner events, whose span is [cursor at enter, cursor at the call); rules without action or with actions disabled
have none; an invocation with a vetoing action returns failure with the cursor where it entered."""
from __future__ import annotations
from typing import Optional

from . import engine, profiles
from .diffrun import Case, Config, Trace


def _spec(c: Case, fam: int, nid: int):
    return c.g.acts.get(nid) if fam == 0 else c.g.fams.get(fam, {}).get(nid)


def oracle_actions(c: Case, tr: Trace) -> Optional[str]:
    """Follows the action family and the apply mode down the implementation's own invocation tree (at / not_at / disable switch
    actions off, enable on, disable_action / enable_action / change_action bases and action< Fam, R > as documented) and
    judges every invocation."""
    stack = []        # frames: dict
    for l in tr.events:
        p = l.split()
        t = p[0]
        if t == 'E':
            nid = int(p[1])
            if stack:
                fam, expA = stack[-1]['cfam'], stack[-1]['cA']
            else:
                fam, expA = c.cfg.fam, ('1' if c.cfg.a else '0')
            if p[2] != expA:
                return f"rule {nid} is invoked with actions {'enabled' if p[2] == '1' else 'disabled'}; its context requires the opposite"
            nd = c.g.nodes.get(nid)
            spec = _spec(c, fam, nid) if (nd is not None and nd.ctl) else None
            bodyA, cfam = p[2], fam
            if spec is not None:
                if spec.wrap == 'da':
                    bodyA = '0'
                elif spec.wrap == 'ea':
                    bodyA = '1'
                elif spec.wrap.startswith('ca:'):
                    cfam = int(spec.wrap[3:])
            cA = bodyA
            if nd is not None:
                if nd.kind in ('atR', 'notAt', 'disable'):
                    cA = '0'
                elif nd.kind == 'enable':
                    cA = '1'
                elif nd.kind == 'action':
                    cfam = nd.params[0][1] if isinstance(nd.params[0], (tuple, list)) else int(nd.params[0])
            has = spec is not None and spec.kind != 'none' and bodyA == '1'
            if spec is not None and spec.wrap.startswith('cas:'):
                # change_action_and_state(s): re-enters through the control with the new family (and a new state object)
                cA, has, cfam = p[2], False, int(spec.wrap.split(':')[1])
            if spec is not None and spec.wrap.startswith('ca:'):
                # change_action re-enters Control< Rule >::match with the new family: the same rule again, same mode; the old
                # family's apply is not used
                cA, has, cfam = p[2], False, int(spec.wrap[3:])
            stack.append({'id': nid, 'pos': p[4:7], 'n': 0, 'rp': 0, 'kind': (nd.kind if nd is not None else None), 'has': has, 'bool': bool(spec and spec.is_bool), 'cA': cA, 'cfam': cfam,
                          'reenter': bool(spec is not None and (spec.wrap.startswith('ca:') or spec.wrap.startswith('cas:')))})
        elif t in ('ap', 'a0'):
            if not stack or stack[-1]['id'] != int(p[1]):
                return f"action event '{l}' outside the invocation of its rule"
            fr = stack[-1]
            if not fr['has']:
                return f"action for rule {p[1]} although it has no enabled action in this invocation"
            fr['n'] += 1
            if fr['n'] > 1:
                return f"action for rule {p[1]} fired twice in one invocation"
            if t == 'ap' and p[2:5] != fr['pos']:
                return f"action span of rule {p[1]} begins at {p[2:5]}, the match began at {fr['pos']}"
        elif t == 'rp':
            # an action class named by apply< … > / apply0< … > / if_apply< R, … >: called inside that rule's own invocation only
            if not stack or stack[-1]['kind'] not in ('ifApply', 'applyR'):
                return f"rule-level action call '{l}' outside an apply / if_apply rule"
            if stack[-1]['cA'] != '1' and False:
                pass
            stack[-1]['rp'] += 1
        elif t == 'X':
            fr = stack.pop()
            if fr['kind'] in ('ifApply', 'applyR') and fr['rp'] and p[2] == '0' and p[3:6] != fr['pos']:
                return (f"rule {fr['id']} ({fr['kind']}): one of its actions returned false, the rule failed locally, but the cursor is {p[3:6]}; "
                        f"the attempt began at {fr['pos']}")
            if p[2] == '1':
                if fr['has'] and fr['n'] != 1:
                    return f"rule {fr['id']} matched with its action enabled but the action fired {fr['n']} times"
            elif p[2] == '0' and fr['has'] and fr['n'] == 1:
                if not fr['bool']:
                    return f"rule {fr['id']}: a void action ran but the invocation failed"
                if p[3:6] != fr['pos']:
                    return f"rule {fr['id']}: action vetoed the match but the cursor is {p[3:6]}, the match began at {fr['pos']}"
    return None


def oracle_span_end(c: Case, tr: Trace) -> Optional[str]:
    """the action's end equals the parse input's cursor at that moment: the next event for the same rule (success/failure/unwind) is at that position"""
    ev = tr.events
    for k, l in enumerate(ev):
        p = l.split()
        if p[0] == 'ap':
            end = p[5:8]
        elif p[0] == 'a0':
            end = p[2:5]
        else:
            continue
        if k + 1 < len(ev):
            q = ev[k + 1].split()
            if q[0] in ('su', 'fa', 'uw') and q[1] == p[1] and q[2:5] != end:
                return f"action of rule {p[1]} was given end {end} but the input was at {q[2:5]}"
    return None


ORACLES = [('actions', oracle_actions), ('span-end', oracle_span_end)]


def run(tier: str) -> int:
    cfg = profiles.amr_configs(ams=((1, 'r'), (1, 'o'), (0, 'o')), lazies=(0, 1))
    ps = [
        profiles.systematic_profile('bool', lambda k, f: True, True, 22, 140, ORACLES, actions_mode='bool',
                                    inputs=profiles.inputs_exhaustive(3, 5, cap_q=80, cap_t=500), per_tu=2, configs=cfg,
                                    ctx_names=['top', 'sor-first', 'seq-tail', 'in-at', 'in-not_at', 'in-disable', 'in-opt']),
        profiles.systematic_profile('switch', lambda k, f: k in ('enable', 'disable', 'at1', 'at2', 'not_at1', 'star2', 'seq3', 'sor3', 'opt2', 'if_then_else', 'rematch2', 'until2'),
                                    False, 14, 60, ORACLES, actions_mode='bool', heavy=True,
                                    inputs=profiles.inputs_exhaustive(3, 5, cap_q=80, cap_t=500), per_tu=2, configs=cfg,
                                    ctx_names=['top', 'in-at', 'in-not_at', 'in-disable', 'seq-tail']),
        profiles.random_profile('rnd', False, True, 18, 100, ORACLES, actions_mode='throw',
                                inputs=profiles.inputs_exhaustive(4, 6, cap_q=150, cap_t=900), per_tu=2,
                                configs=profiles.amr_configs(ams=((1, 'r'), (1, 'o')), lazies=(0, 1))),
    ]
    # the rule-level way to attach actions, with nothing around it that takes a rewind guard of its own (no actions on the other rules)
    ps.append(profiles.systematic_profile('ruleacts', lambda k, f: f == 'apply', True, 20, 80, ORACLES, actions_mode='none',
                                          inputs=profiles.inputs_exhaustive(3, 5, cap_q=80, cap_t=500), per_tu=2, configs=cfg,
                                          ctx_names=['top', 'sor-first', 'seq-tail', 'in-at', 'in-disable', 'in-opt', 'in-tcrf']))
    # the action< A, R... > rule: the family in force below it, and back to the outer one behind it
    ps.append(profiles.systematic_profile('actrule', lambda k, f: f == 'actrule', True, 9, 40, ORACLES, actions_mode='bool',
                                          inputs=profiles.inputs_exhaustive(3, 5, cap_q=80, cap_t=500), per_tu=2,
                                          # + the same with one state handed to parse() that reports being copied (run mode 10): the actions must
                                          # be called with the caller's state objects, not with copies
                                          configs=lambda g, root, tier: cfg(g, root, tier) + [Config(root, 1, 'o', 'lf_crlf', 0, 1, 0, 0, 0, 10)],
                                          ctx_names=['top', 'sor-first', 'seq-tail', 'in-at', 'in-disable']))
    ps.append(profiles.random_profile('wraps', False, True, 16, 90, ORACLES, actions_mode='switch',
                                      inputs=profiles.inputs_exhaustive(4, 6, cap_q=150, cap_t=900), per_tu=2,
                                      configs=profiles.amr_configs(ams=((1, 'r'), (1, 'o'), (0, 'o')), lazies=(0, 1))))
    return engine.run_engine('C04', tier, ['PegtlVerif.Props.C04'], ps)


def replay(path: str) -> int:
    return engine.replay('C04', path, ORACLES)
