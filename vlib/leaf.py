"""leaf.py — helpers for leaf-function correspondence checks: compile a small C++ driver against
/repo's current headers, run a Lean driver executable, compare line streams."""
from __future__ import annotations
import os
import subprocess
from pathlib import Path
from typing import List, Optional, Tuple

from . import common


def compile_cpp(src: Path, out: Path, san: str = 'asan+ubsan', extra: List[str] = ()) -> Tuple[bool, str]:
    out.parent.mkdir(parents=True, exist_ok=True)
    flags = ['-std=c++17', '-I', str(common.REPO / 'include'), '-I', str(common.VERIF / 'harness'), '-DTAO_PEGTL_VERIF',
             '-include', str(common.VERIF / 'harness' / 'verif_hook.hpp'), '-w']
    if san == 'asan+ubsan':
        flags += ['-O1', '-g', '-fsanitize=address,undefined', '-fno-sanitize-recover=all']
    elif san == 'asan':
        flags += ['-O1', '-fsanitize=address']
    else:
        flags += ['-O1']
    p = subprocess.run(['g++'] + flags + list(extra) + [str(src), '-o', str(out)], capture_output=True, text=True)
    for retry in range(3):
        # a compiler killed by the machine (memory pressure next to other jobs) is not a property of the code: try again
        if p.returncode == 0 or not (p.returncode < 0 or any(k in p.stderr for k in ('Killed', 'virtual memory exhausted', 'Cannot allocate memory', 'out of memory', 'fatal error: error writing'))):
            break
        import time
        time.sleep(5 + 10 * retry)
        p = subprocess.run(['g++'] + flags + list(extra) + [str(src), '-o', str(out)], capture_output=True, text=True)
    return p.returncode == 0, p.stderr


def run_exe(exe: Path, stdin_text: str, args: List[str] = (), timeout: int = 1800) -> subprocess.CompletedProcess:
    env = dict(os.environ, ASAN_OPTIONS='detect_leaks=0', UBSAN_OPTIONS='print_stacktrace=1')
    return subprocess.run([str(exe)] + list(args), input=stdin_text, capture_output=True, text=True, timeout=timeout, env=env)


def lean_exe(name: str) -> Path:
    """Path of a `lean_exe` target built by setup / `lake build <name>`."""
    return common.LEAN / '.lake' / 'build' / 'bin' / name


def build_lean_exe(name: str) -> Tuple[bool, str]:
    return common.lake_build([name])
