"""c20_translate.py — translator of declarative PEGTL grammar headers into the node table.

    C++ `struct X : template-id {};` / `using X = template-id;`   (contrib/uri.hpp, contrib/abnf.hpp)
      -> vlib.gram type expressions (public rule names, `internal::` types, char / integer arguments)
      -> gram.Grammar.resolve(): the node table (one node per distinct C++ type, aliases expanded
         exactly as rules.hpp / internal/*.hpp do)
      -> a Lean `Grammar` literal (`Gen/Uri.lean`, `Expected/Uri.lean`).

Only declarations are read; anything the translator does not understand raises `TranslateError`
(the check then reports the sync obligation as broken instead of guessing).
"""
from __future__ import annotations
import re
from pathlib import Path
from typing import Any, Dict, List, Optional, Tuple

from . import gram
from .gram import Ref, T, P, I, C, N, X

_ESC = {'n': 10, 't': 9, 'r': 13, 'v': 11, 'f': 12, '0': 0, 'a': 7, 'b': 8, '\\': 92, "'": 39, '"': 34}

_TOK = re.compile(r"""\s*(?:
    (?P<chr>'(?:\\.|[^\\'])')
  | (?P<num>0[xX][0-9a-fA-F]+|\d+)[uUlL]*
  | (?P<id>[A-Za-z_][A-Za-z_0-9]*(?:\s*::\s*[A-Za-z_][A-Za-z_0-9]*)*)
  | (?P<op>[<>(),])
)""", re.X)


class TranslateError(Exception):
    pass


def strip_cpp_comments(s: str) -> str:
    s = re.sub(r'/\*.*?\*/', '', s, flags=re.S)
    return re.sub(r'//[^\n]*', '', s)


def tokenize(s: str) -> List[Tuple[str, str]]:
    out, i = [], 0
    s = s.strip()
    while i < len(s):
        m = _TOK.match(s, i)
        if not m or m.end() == i:
            raise TranslateError(f"cannot tokenize {s[i:i + 30]!r}")
        i = m.end()
        for k in ('chr', 'num', 'id', 'op'):
            v = m.group(k)
            if v is not None:
                out.append((k, re.sub(r'\s+', '', v) if k == 'id' else v))
                break
    return out


class Ast:
    """id | id< args > | integer / char literal."""

    def __init__(self, name=None, args=None, value=None, is_char=False):
        self.name, self.args, self.value, self.is_char = name, args, value, is_char

    def __repr__(self):
        if self.value is not None:
            return ("c" if self.is_char else "n") + str(self.value)
        return self.name + ("" if self.args is None else "<" + ",".join(map(repr, self.args)) + ">")


def parse_ast(toks, i=0) -> Tuple[Ast, int]:
    if i >= len(toks):
        raise TranslateError("unexpected end of type expression")
    k, v = toks[i]
    if k == 'chr':
        body = v[1:-1]
        if body[0] == '\\' and body[1] not in _ESC:
            raise TranslateError(f"unknown escape {v}")
        return Ast(value=_ESC[body[1]] if body[0] == '\\' else ord(body), is_char=True), i + 1
    if k == 'num':
        return Ast(value=int(v, 0)), i + 1
    if k == 'id':
        if v == 'static_cast':
            if toks[i + 1] != ('op', '<'):
                raise TranslateError("static_cast")
            j = i + 2
            ty = []
            while toks[j] != ('op', '>'):
                ty.append(toks[j][1])
                j += 1
            if toks[j + 1] != ('op', '('):
                raise TranslateError("static_cast")
            inner, j2 = parse_ast(toks, j + 2)
            if toks[j2] != ('op', ')') or inner.value is None:
                raise TranslateError("static_cast")
            return Ast(value=inner.value & 0xFF if 'char' in ''.join(ty) else inner.value, is_char='char' in ''.join(ty)), j2 + 1
        if i + 1 < len(toks) and toks[i + 1] == ('op', '<'):
            args, j = [], i + 2
            if toks[j] == ('op', '>'):
                return Ast(name=v, args=[]), j + 1
            while True:
                a, j = parse_ast(toks, j)
                args.append(a)
                if j >= len(toks):
                    raise TranslateError("unterminated template argument list")
                if toks[j] == ('op', ','):
                    j += 1
                elif toks[j] == ('op', '>'):
                    return Ast(name=v, args=args), j + 1
                else:
                    raise TranslateError(f"unexpected {toks[j]}")
        return Ast(name=v), i + 1
    raise TranslateError(f"unexpected token {toks[i]}")


def parse_type(s: str) -> Ast:
    toks = tokenize(s)
    a, j = parse_ast(toks)
    if j != len(toks):
        raise TranslateError(f"trailing tokens in {s!r}")
    return a


_HEAD = re.compile(r'\b(?:(template)\s*<|(struct)\s+(\w+)\s*(:|;|\{)|(using)\s+(\w+)\s*=)')


def _scan_until(src: str, i: int, stops: str) -> int:
    """Index of the first character of `stops` at or after i that is outside a char literal."""
    n = len(src)
    while i < n:
        c = src[i]
        if c == "'":
            j = i + 1
            while j < n and src[j] != "'":
                j += 2 if src[j] == '\\' else 1
            i = j + 1
            continue
        if c in stops:
            return i
        i += 1
    raise TranslateError("unterminated declaration")


def declarations(path: Path) -> List[Tuple[str, str, str, int]]:
    """(`struct`|`using`, name, type expression, source offset) in source order; templates are skipped."""
    src = strip_cpp_comments(path.read_text())
    out = []
    i = 0
    while True:
        m = _HEAD.search(src, i)
        if not m:
            break
        if m.group(1):                      # template< … > struct/using …: skip the whole declaration
            j = _scan_until(src, m.end(), ';{')
            if src[j] == '{':
                j = _scan_until(src, j, '}')
            i = j + 1
            continue
        if m.group(2):
            name, sep = m.group(3), m.group(4)
            if sep == ';':                  # forward declaration
                i = m.end()
                continue
            if sep == '{':
                raise TranslateError(f"{path.name}: struct {name} without a base; not a pure grammar declaration")
            j = _scan_until(src, m.end(), '{;')
            if src[j] != '{':
                raise TranslateError(f"{path.name}: struct {name}: no body")
            k = _scan_until(src, j, '}')
            if src[j + 1:k].strip():
                raise TranslateError(f"{path.name}: struct {name} has a body; not a pure grammar declaration")
            out.append(('struct', name, src[m.end():j].strip(), m.start()))
            i = k + 1
            continue
        j = _scan_until(src, m.end(), ';')
        out.append(('using', m.group(6), src[m.end():j].strip(), m.start()))
        i = j + 1
    return out


PUBLIC_RULES = {'seq', 'sor', 'opt', 'star', 'plus', 'at', 'not_at', 'rep', 'rep_min_max', 'rep_opt', 'rep_min', 'rep_max',
                'if_must', 'opt_must', 'must', 'one', 'not_one', 'range', 'not_range', 'ranges', 'two', 'three', 'string',
                'istring', 'until', 'if_then_else', 'list', 'list_must', 'list_tail', 'pad', 'pad_opt', 'star_must',
                'success', 'failure', 'eof', 'eol', 'eolf', 'any', 'bof', 'bol', 'bytes', 'digit', 'alpha',
                'maximum_rule', 'utf8::range', 'utf8::not_range', 'minus', 'if_must_else', 'rematch'}
INTERNAL_LITERALS = {'internal::peek_char': gram.PEEK_CHAR, 'internal::peek_utf8': gram.PEEK_UTF8,
                     'internal::result_on_found::success': gram.SUCCESS_RES,
                     'internal::result_on_found::failure': gram.FAILURE_RES}


class UGrammar(gram.Grammar):
    """gram.Grammar that also accepts named rules deriving directly from an `internal::` type
    (contrib/abnf.hpp: `struct ALPHA : internal::ranges< internal::peek_char, … > {};`).
    Same change as design-notes/c20_gram.patch."""

    def define(self, r, t):
        assert t.ns in ('pub', 'int')
        self.named[r.id] = t

    def resolve(self):
        self.nodes.clear()
        self.by_key.clear()
        for rid, t in sorted(self.named.items()):
            self.by_key[Ref(rid)] = rid
        for rid, t in sorted(self.named.items()):
            kind, params = gram.body_of_internal(t if t.ns == 'int' else gram.public_base(t))
            self.nodes[rid] = gram.NodeRec(rid, True, kind, self._params(kind, params), f"{self.ns}::n{rid}", 'named')
        return self


class Translation:
    def __init__(self):
        self.g = UGrammar('uri')
        self.names: List[Tuple[str, int]] = []     # qualified C++ name -> node id, in id order
        self.tops: List[Tuple[str, int]] = []      # `seq< X, eof >` roots
        self.cpp: Dict[int, str] = {}              # node id -> C++ spelling (qualified for named rules)


def _strip_ns(name: str) -> str:
    for p in ('tao::pegtl::', 'TAO_PEGTL_NAMESPACE::', 'pegtl::'):
        if name.startswith(p):
            return name[len(p):]
    return name


def translate(include: Path, header: str = 'contrib/uri.hpp', ns: str = 'uri',
              tops: Tuple[str, ...] = ('URI', 'URI_reference', 'absolute_URI', 'IPv4address', 'IPv6address')) -> Translation:
    inc = include / 'tao' / 'pegtl'
    tr = Translation()
    g = tr.g
    abnf_decl = {name: ty for kind, name, ty, _ in declarations(inc / 'contrib' / 'abnf.hpp') if kind == 'struct'}
    decls = declarations(inc / header)
    # which abnf:: rules does the header use (in abnf.hpp order)
    used = set(re.findall(r'\babnf\s*::\s*(\w+)', strip_cpp_comments((inc / header).read_text())))
    unknown = used - set(abnf_decl)
    if unknown:
        raise TranslateError(f"{header} uses abnf rules not declared in abnf.hpp: {sorted(unknown)}")
    env: Dict[str, Any] = {}      # local name -> Ref | type expression (alias)
    pending: List[Tuple[Ref, str, Ast, bool]] = []
    for name in abnf_decl:
        if name in used:
            r = g.declare()
            env['abnf::' + name] = r
            tr.names.append(('abnf::' + name, r.id))
            pending.append((r, 'abnf::' + name, parse_type(abnf_decl[name]), True))
    for kind, name, ty, _ in decls:
        if kind == 'struct':
            if name in env:
                raise TranslateError(f"duplicate declaration of {name}")
            r = g.declare()
            env[name] = r
            tr.names.append((f'{ns}::{name}', r.id))
            pending.append((r, name, parse_type(ty), False))
        else:
            env[name] = ('alias', parse_type(ty))

    def conv(a: Ast, in_abnf: bool, seen: Tuple[str, ...] = ()):
        if a.value is not None:
            return C(a.value) if a.is_char else N(a.value)
        n = _strip_ns(a.name)
        if a.args is None:
            if n in INTERNAL_LITERALS:
                return INTERNAL_LITERALS[n]
            if n in gram.TYPE_MAX:
                return X(n)
            key = n if not in_abnf else ('abnf::' + n if 'abnf::' + n in env else n)
            if key in env:
                v = env[key]
                if isinstance(v, Ref):
                    return v
                if key in seen:
                    raise TranslateError(f"recursive alias {key}")
                return conv(v[1], in_abnf, seen + (key,))
            if n in gram.NON_TEMPLATES and n in PUBLIC_RULES:
                return P(n)
            raise TranslateError(f"unknown name {a.name}")
        args = [conv(x, in_abnf, seen) for x in a.args]
        if n.startswith('internal::'):
            return I(n[len('internal::'):], *args)
        if n in PUBLIC_RULES:
            return P(n, *args)
        raise TranslateError(f"unknown rule template {a.name}")

    for r, name, ast, in_abnf in pending:
        t = conv(ast, in_abnf)
        if isinstance(t, Ref):     # `struct A : B {};` with B a named rule: same match(), own control
            t = P('seq', t)
        if not isinstance(t, T):
            raise TranslateError(f"{name}: base is not a rule type")
        g.define(r, t)
    try:
        g.resolve()
    except (ValueError, KeyError, IndexError, AssertionError, TypeError) as e:
        raise TranslateError(f"cannot resolve: {e!r}")
    for top in tops:
        if top not in env or not isinstance(env[top], Ref):
            raise TranslateError(f"top-level rule {top} not found")
        tr.tops.append((f'{ns}::{top}', g._node_of(P('seq', env[top], P('eof')))))
    qual = {rid: nm for nm, rid in tr.names}
    for nid, nd in g.nodes.items():
        s = nd.cpp
        s = re.sub(r'g_uri::n(\d+)', lambda m: qual[int(m.group(1))], s)
        tr.cpp[nid] = s.replace('tao::pegtl::', '')
    if sorted(g.nodes) != list(range(len(g.nodes))):
        raise TranslateError("node ids are not dense")
    return tr


# ---------------------------------------------------------------- Lean rendering

def lean_atom(p) -> str:
    a = p[0]
    if a == 'one':
        return f".one {'true' if p[1] else 'false'} [{', '.join(map(str, p[2]))}]"
    if a == 'range':
        return f".range {'true' if p[1] else 'false'} {p[2]} {p[3]}"
    if a == 'ranges':
        prs = ', '.join(f"({lo}, {hi})" for lo, hi in p[1])
        return f".ranges [{prs}] {'none' if p[2] is None else f'(some {p[2]})'}"
    if a in ('string', 'istring'):
        return f".{a} [{', '.join(map(str, p[1]))}]"
    if a in ('bytes', 'require', 'maxDigits'):
        return f".{a} {p[1]}"
    if a == 'utf8Range':
        return f".utf8Range {'true' if p[1] else 'false'} {p[2]} {p[3]}"
    if a in ('any', 'eof', 'bof', 'bol', 'eol', 'eolf', 'success', 'failure', 'everything'):
        return f".{a}"
    raise TranslateError(f"atom {a}")


def lean_kind(nd: gram.NodeRec) -> str:
    k, p = nd.kind, nd.params

    def lst(xs):
        return '[' + ', '.join(map(str, xs)) + ']'
    if k == 'atom':
        return f".atom ({lean_atom(p)})"
    if k in ('seq', 'sor', 'starPartial', 'partialR'):
        return f".{k} {lst(p[0])}"
    if k in ('plus', 'atR', 'notAt', 'until1', 'must'):
        return f".{k} {p[0]}"
    if k in ('until2', 'rep', 'repOpt'):
        return f".{k} {p[0]} {p[1]}"
    if k == 'repMinMax':
        return f".repMinMax {p[0]} {p[1]} {p[2]} {p[3]}"
    if k == 'ifThenElse':
        return f".ifThenElse {p[0]} {p[1]} {p[2]}"
    if k == 'ifMust':
        return f".ifMust {'true' if p[0] else 'false'} {p[1]} {p[2]}"
    if k == 'rematch':
        return f".rematch {p[0]} {lst(p[1])}"
    raise TranslateError(f"kind {k} is not expected in a declarative grammar header")


def render_lean(tr: Translation, namespace: str) -> str:
    g = tr.g
    hdr = [
        "/-",
        f"  {namespace}/Uri.lean — the node table of include/tao/pegtl/contrib/uri.hpp (and the contrib/abnf.hpp rules",
        "  it uses), one node per distinct C++ type, plus the five roots `seq< uri::X, eof >`;",
        "  translated by vlib/c20_translate.py (struct/using declarations -> vlib/gram.py resolver).",
        ("  REGENERATED ON EVERY RUN of ./check C20 — do not edit." if namespace == 'Gen' else
         "  Committed copy the C20 theorems are stated about; every run re-translates the headers into"),
    ]
    if namespace != 'Gen':
        hdr.append("  Gen/Uri.lean and proves `Gen.uri = Expected.uri` (Audit/C20Sync.lean).")
    hdr += ["-/", "import PegtlVerif.Model.Basic", "", f"namespace Pegtl.{namespace}", "open Pegtl", ""]
    rows = []
    n = len(g.nodes)
    for nid in range(n):
        nd = g.nodes[nid]
        comma = ',' if nid + 1 < n else ''
        rows.append(f"  /- {nid:3d} -/ ⟨{'true' if nd.ctl else 'false'}, {{}}, {lean_kind(nd)}⟩{comma}   -- {tr.cpp[nid]}")
    body = ["def uri : Grammar := #["] + rows + ["]", ""]
    body.append("/-- Named rules (`struct X : … {};`) and their node ids. -/")
    body.append("def uriNames : List (String × Nat) := [" + ", ".join(f'("{nm}", {i})' for nm, i in tr.names) + "]")
    body.append("")
    body.append("/-- Roots `seq< X, eof >` the property is about. -/")
    body.append("def uriTops : List (String × Nat) := [" + ", ".join(f'("{nm}", {i})' for nm, i in tr.tops) + "]")
    body += ["", f"end Pegtl.{namespace}"]
    return "\n".join(hdr + body) + "\n"


def proto_lines(tr: Translation) -> List[str]:
    return tr.g.proto_lines()


if __name__ == '__main__':
    import sys
    from . import common
    t = translate(common.REPO / 'include')
    sys.stdout.write(render_lean(t, 'Gen'))
