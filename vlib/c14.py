"""c14.py — check for property C14: the shipped JSON grammar (contrib/json.hpp), followed by end
of input, succeeds on a byte string iff that string is a well-formed UTF-8 encoded JSON text of
RFC 8259, and never throws.

1. Lean obligations: Props/C14.lean (`C14_sound`, `C14_complete`, `C14_exact`, `C14_no_throw`,
   `C14_wft`, `C14_run` + examples) and Audit/C14Sync.lean (`C14_sync : Gen.json = Expected.json`;
   Gen/Json.lean is re-translated from /repo's contrib/json.hpp by vlib/translate_grammar.py on
   every run, before `lake build`).
2. Correspondence: harness/leaf_c14.cpp (the real `parse< seq< json::text, eof > >` on exact-size
   heap buffers, ASan+UBSan, window hook) against the Lean driver `drv_c14` (matcher model `run`
   and the evaluator of the PEG formalism on `Expected.json`) on the same lines.
3. Oracle: an independent recogniser of RFC 8259 written from the RFC text (`rfc8259_text`),
   evaluated on every implementation result; it is itself cross-checked on every run against a
   generic ABNF interpreter reading /verif/spec/rfc8259.abnf and against Python's `json.loads`.
   Any exception from the real parse is a violation.
"""
from __future__ import annotations
import concurrent.futures
import itertools
import json
import os
import random
import re
import subprocess
import sys
import time
from pathlib import Path
from typing import Any, Dict, Iterable, List, Optional, Tuple

from . import common, leaf
from . import translate_grammar as tg

PROP = 'C14'
HARNESS = common.VERIF / 'harness' / 'leaf_c14.cpp'
GEN_FILE = common.LEAN / 'PegtlVerif' / 'Gen' / 'Json.lean'
EXPECTED_FILE = common.LEAN / 'PegtlVerif' / 'Expected' / 'Json.lean'
SPEC_LEAN = common.LEAN / 'PegtlVerif' / 'Spec' / 'Rfc8259.lean'
ABNF_FILE = common.VERIF / 'spec' / 'rfc8259.abnf'
BUILD = common.BUILD / 'c14'
WORKERS = 4

# the alphabet of the exhaustive sweeps:  [ ] { } , : " \ u 0 1 - . e E + t r n space \n a
ALPHABET = b'[]{},:"\\u01-.eE+trn \na'


# ============================================================== translator -> Gen / Expected

def render(namespace: str) -> str:
    g, names, tr = tg.translate_json(common.REPO / 'include' / 'tao' / 'pegtl')
    if namespace == 'Gen':
        hdr = ["Gen/Json.lean — the node table of include/tao/pegtl/contrib/json.hpp (+ the rule the C14 harness",
               "parses, `top = seq< json::text, eof >`), translated by vlib/translate_grammar.py.",
               "REGENERATED ON EVERY RUN of `./check C14` — do not edit."]
    else:
        hdr = ["Expected/Json.lean — the node table of include/tao/pegtl/contrib/json.hpp (+ the rule the C14 harness",
               "parses, `top = seq< json::text, eof >`): the committed copy the C14 theorems are about.  The check",
               "re-translates the header into Gen/Json.lean and proves `Gen.json = Expected.json` (Audit/C14Sync.lean)."]
    return tg.lean_grammar(g, names, namespace, 'json', hdr, 'contrib/json.hpp')


_UNTRANSLATABLE = """/-
  Gen/Json.lean — contrib/json.hpp could NOT be translated on this run:
  {why}
  An empty table is emitted so that the `Gen = Expected` obligation fails.
-/
import PegtlVerif.Model.Basic

namespace Pegtl.Gen
def json : Grammar := #[]
def jsonNames : List (String × Nat) := []
end Pegtl.Gen
"""


def write_gen() -> Optional[str]:
    """Re-translate json.hpp; returns an error text if the header is no longer translatable."""
    GEN_FILE.parent.mkdir(parents=True, exist_ok=True)
    try:
        GEN_FILE.write_text(render('Gen'))
        return None
    except (tg.TranslateError, ValueError, KeyError, IndexError, AssertionError, OSError) as e:
        why = f"{type(e).__name__}: {e}"
        GEN_FILE.write_text(_UNTRANSLATABLE.format(why=why.replace('-/', '- /')))
        return why


# ============================================================== oracle 1: RFC 8259 written from the RFC text

_WS = re.compile(r'[ \t\n\r]*')
# number = [ minus ] int [ frac ] [ exp ]
_NUMBER = re.compile(r'-?(?:0|[1-9][0-9]*)(?:\.[0-9]+)?(?:[eE][-+]?[0-9]+)?')
# string = quotation-mark *char quotation-mark ; char = unescaped / escape ( " \ / b f n r t / u 4HEXDIG )
_STRING = re.compile('"(?:[\\x20-\\x21\\x23-\\x5B\\x5D-\U0010FFFF]|\\\\["\\\\/bfnrt]|\\\\u[0-9A-Fa-f]{4})*"')


def rfc8259_str(s: str) -> bool:
    """`JSON-text = ws value ws` over code points; iterative (no recursion limit)."""
    n = len(s)
    ws = _WS.match
    i = ws(s, 0).end()
    stack: List[str] = []
    while True:
        # ---- a value starts at i
        c = s[i] if i < n else ''
        done = False
        if c == '[':
            i = ws(s, i + 1).end()
            if i < n and s[i] == ']':
                i += 1
                done = True
            else:
                stack.append(']')
        elif c == '{':
            i = ws(s, i + 1).end()
            if i < n and s[i] == '}':
                i += 1
                done = True
            else:
                stack.append('}')
                m = _STRING.match(s, i)
                if not m:
                    return False
                i = ws(s, m.end()).end()
                if i >= n or s[i] != ':':
                    return False
                i = ws(s, i + 1).end()
        elif c == '"':
            m = _STRING.match(s, i)
            if not m:
                return False
            i = m.end()
            done = True
        elif c == '-' or ('0' <= c <= '9'):
            m = _NUMBER.match(s, i)
            if not m:
                return False
            i = m.end()
            done = True
        elif s.startswith('true', i):
            i += 4
            done = True
        elif s.startswith('false', i):
            i += 5
            done = True
        elif s.startswith('null', i):
            i += 4
            done = True
        else:
            return False
        if not done:
            continue
        # ---- a value ended at i: separators / closers
        while True:
            i = ws(s, i).end()
            if not stack:
                return i == n
            c = s[i] if i < n else ''
            if c == ',':
                i = ws(s, i + 1).end()
                if stack[-1] == '}':
                    m = _STRING.match(s, i)
                    if not m:
                        return False
                    i = ws(s, m.end()).end()
                    if i >= n or s[i] != ':':
                        return False
                    i = ws(s, i + 1).end()
                break
            if c == stack[-1]:
                stack.pop()
                i += 1
                continue
            return False


def rfc8259_text(data: bytes) -> bool:
    """A well-formed UTF-8 encoded JSON text: strict UTF-8 (no surrogates, no overlong forms, ≤ U+10FFFF)
    of a string derived from JSON-text."""
    try:
        s = data.decode('utf-8', 'strict')
    except UnicodeDecodeError:
        return False
    return rfc8259_str(s)


# ============================================================== oracle 2: generic ABNF interpreter

class Abnf:
    """RFC 5234 ABNF (the subset RFC 8259 uses: alternation, concatenation, groups, options,
    repetition `n*m`, `%xNN`, `%xNN-MM`, `%xNN.NN`, quoted case-insensitive strings) interpreted as a
    context-free grammar over code points: `ends(rule, i)` = set of j with s[i:j] derived from rule."""

    def __init__(self, text: str):
        self.rules: Dict[str, Any] = {}
        self.source: Dict[str, str] = {}
        cur = None
        buf: List[str] = []
        for raw in text.splitlines():
            line = self._strip_comment(raw).rstrip()
            if not line.strip():
                continue
            m = re.match(r'^([A-Za-z][A-Za-z0-9-]*)\s*=\s*(.*)$', line)
            if m and not raw[0].isspace():
                if cur:
                    self._define(cur, ' '.join(buf))
                cur, buf = m.group(1), [m.group(2)]
            else:
                buf.append(line.strip())
        if cur:
            self._define(cur, ' '.join(buf))

    @staticmethod
    def _strip_comment(line: str) -> str:
        out, q = [], False
        for ch in line:
            if ch == '"':
                q = not q
            if ch == ';' and not q:
                break
            out.append(ch)
        return ''.join(out)

    def _define(self, name: str, body: str):
        self.source[name] = re.sub(r'\s+', ' ', body.strip())
        toks = re.findall(r'%x[0-9A-Fa-f]+(?:-[0-9A-Fa-f]+|(?:\.[0-9A-Fa-f]+)+)?|"[^"]*"|\d*\*\d*|\d+|[A-Za-z][A-Za-z0-9-]*|[()\[\]/]', body)
        if ''.join(toks) != re.sub(r'\s+', '', body):
            raise ValueError(f"ABNF rule {name}: cannot tokenise {body!r}")
        node, j = self._alt(toks, 0)
        if j != len(toks):
            raise ValueError(f"ABNF rule {name}: trailing tokens")
        self.rules[name.lower()] = node

    def _alt(self, t, i):
        alts = []
        node, i = self._cat(t, i)
        alts.append(node)
        while i < len(t) and t[i] == '/':
            node, i = self._cat(t, i + 1)
            alts.append(node)
        return (('alt', alts) if len(alts) > 1 else alts[0]), i

    def _cat(self, t, i):
        items = []
        while i < len(t) and t[i] not in ('/', ')', ']'):
            node, i = self._rep(t, i)
            items.append(node)
        return (('cat', items) if len(items) != 1 else items[0]), i

    def _rep(self, t, i):
        lo, hi = 1, 1
        if re.fullmatch(r'\d*\*\d*', t[i]):
            a, b = t[i].split('*')
            lo, hi = int(a or 0), (int(b) if b else None)
            i += 1
        elif t[i].isdigit():
            lo = hi = int(t[i])
            i += 1
        node, i = self._elem(t, i)
        return (node if (lo, hi) == (1, 1) else ('rep', lo, hi, node)), i

    def _elem(self, t, i):
        x = t[i]
        if x == '(':
            node, i = self._alt(t, i + 1)
            assert t[i] == ')'
            return node, i + 1
        if x == '[':
            node, i = self._alt(t, i + 1)
            assert t[i] == ']'
            return ('rep', 0, 1, node), i + 1
        if x.startswith('%x'):
            body = x[2:]
            if '-' in body:
                lo, hi = body.split('-')
                return ('rng', int(lo, 16), int(hi, 16)), i + 1
            return ('seq', [int(v, 16) for v in body.split('.')]), i + 1
        if x.startswith('"'):
            return ('str', x[1:-1]), i + 1
        return ('ref', x.lower()), i + 1

    def recognise(self, start: str, cps: List[int]) -> bool:
        memo: Dict[Tuple[str, int], frozenset] = {}
        n = len(cps)

        def ends(node, i) -> frozenset:
            k = node[0]
            if k == 'ref':
                key = (node[1], i)
                if key not in memo:
                    memo[key] = frozenset()          # no left recursion in this grammar
                    memo[key] = ends(self.rules[node[1]], i)
                return memo[key]
            if k == 'rng':
                return frozenset([i + 1]) if i < n and node[1] <= cps[i] <= node[2] else frozenset()
            if k == 'seq':
                vals = node[1]
                return frozenset([i + len(vals)]) if cps[i:i + len(vals)] == vals else frozenset()
            if k == 'str':
                lit = node[1]
                seg = cps[i:i + len(lit)]
                ok = len(seg) == len(lit) and all(chr(a).lower() == b.lower() if a < 128 else False for a, b in zip(seg, lit))
                return frozenset([i + len(lit)]) if ok else frozenset()
            if k == 'alt':
                out = set()
                for a in node[1]:
                    out |= ends(a, i)
                return frozenset(out)
            if k == 'cat':
                cur = {i}
                for a in node[1]:
                    nxt = set()
                    for p in cur:
                        nxt |= ends(a, p)
                    cur = nxt
                    if not cur:
                        break
                return frozenset(cur)
            if k == 'rep':
                lo, hi, a = node[1], node[2], node[3]
                out = set()
                cur = {i}
                cnt = 0
                seen = set()
                while cur:
                    if cnt >= lo:
                        out |= cur
                    if hi is not None and cnt >= hi:
                        break
                    if cnt >= lo:
                        cur = cur - seen
                        seen |= cur
                    nxt = set()
                    for p in cur:
                        nxt |= ends(a, p)
                    cur = nxt
                    cnt += 1
                return frozenset(out)
            raise ValueError(k)

        return n in ends(('ref', start.lower()), 0)


_ABNF: Optional[Abnf] = None


def abnf() -> Abnf:
    global _ABNF
    if _ABNF is None:
        _ABNF = Abnf(ABNF_FILE.read_text())
    return _ABNF


def abnf_text(data: bytes) -> Optional[bool]:
    """None = not applicable (the interpreter is recursive: very deep nesting is left to the other oracles)."""
    try:
        s = data.decode('utf-8', 'strict')
    except UnicodeDecodeError:
        return False
    if sys.getrecursionlimit() < 20000:
        sys.setrecursionlimit(20000)
    try:
        return abnf().recognise('JSON-text', [ord(c) for c in s])
    except RecursionError:
        return None


# ============================================================== oracle 3: Python's json module (where it applies)

def _no_constant(name):
    raise ValueError(name)


def _ignore(_text):
    return 0


def pyjson_text(data: bytes) -> Optional[bool]:
    """json.loads after strict UTF-8 decoding, NaN/Infinity rejected; None = not applicable
    (nesting beyond the interpreter's recursion limit)."""
    try:
        s = data.decode('utf-8', 'strict')
    except UnicodeDecodeError:
        return False
    try:
        json.loads(s, parse_constant=_no_constant, parse_int=_ignore, parse_float=_ignore)   # no digit-count limit
        return True
    except RecursionError:
        return None
    except ValueError:
        return False


# ============================================================== stream

def hx(b: bytes) -> str:
    return b.hex() if b else '-'


def unhex(h: str) -> bytes:
    return b'' if h == '-' else bytes.fromhex(h)


def completions(prefix: bytes, k: int) -> Iterable[bytes]:
    for w in itertools.product(ALPHABET, repeat=k):
        yield prefix + bytes(w)


CP_EDGES = [0x20, 0x21, 0x22, 0x23, 0x5B, 0x5C, 0x5D, 0x7E, 0x7F, 0x80, 0xA0, 0xFF, 0x7FF, 0x800, 0xFFF, 0x1000,
            0xD7FF, 0xE000, 0xFEFF, 0xFFFD, 0xFFFE, 0xFFFF, 0x10000, 0x1F600, 0x10FFFF]

BAD_UTF8 = [b'\x80', b'\xbf', b'\xc0\x80', b'\xc1\xbf', b'\xc2', b'\xc2\x41', b'\xe0\x80\x80', b'\xe0\x9f\xbf', b'\xe0\xa0',
            b'\xed\xa0\x80', b'\xed\xbf\xbf', b'\xef\xbf', b'\xf0\x80\x80\x80', b'\xf0\x8f\xbf\xbf', b'\xf0\x90\x80',
            b'\xf4\x90\x80\x80', b'\xf5\x80\x80\x80', b'\xf7\xbf\xbf\xbf', b'\xf8\x88\x80\x80\x80', b'\xfe', b'\xff',
            b'\xed\xa0\xbd\xed\xb8\x80']

NUMBERS_OK = ['0', '-0', '1', '-1', '10', '123456789012345678901234567890', '0.0', '0.5', '1.25', '-0.0', '1e0', '1E0', '1e+0',
              '1e-0', '1E+10', '1.5e10', '0e0', '0.0e-0', '-1.0E+5', '9', '19', '0.10', '1e00', '1e01']
NUMBERS_BAD = ['', '-', '+1', '01', '-01', '00', '1.', '.5', '-.5', '1.e1', '1e', '1e+', '1e-', '1E+-1', '1ee1', '1.2.3', '0x10',
               '1_000', 'Infinity', '-Infinity', 'NaN', '1 2', '1a', '--1', '- 1', '1e1.5', '0e', '0.', '1.0e', '１', '1,5', '1.5.',
               '1e5e', '+0', '.0', '0.e0', '1E', '0b1', '1f', '1L', '-a', '2-1']
ESCAPES_OK = ['\\"', '\\\\', '\\/', '\\b', '\\f', '\\n', '\\r', '\\t', '\\u0000', '\\u0041', '\\u00e9', '\\uABCD', '\\uabcd', '\\uD834\\uDD1E',
              '\\uD834', '\\uDD1E', '\\uDD1E\\uD834', '\\uFFFF', '\\u0022', '\\u005C', '\\u0041\\u0042', '\\u0041\\n', '\\u0041\\\\', '\\/\\/',
              '\\u0041\\u004', '\\\\u0041', '\\u0041u0042']
ESCAPES_BAD = ['\\', '\\a', '\\v', '\\0', '\\x41', '\\U0041', '\\u', '\\u1', '\\u12', '\\u123', '\\u123g', '\\uG000', '\\u 041', '\\u+041',
               '\\u-041', '\\u00 41', '\\\'', '\\e', '\\ ', '\\\n', '\\u0041\\', '\\u0041\\u', '\\u0041\\u12', '\\u0041\\uD8', '\\N', '\\B',
               '\\u00e', '\\ud83', '\\x', '\\1', '\\u{41}']
WS_OK = [' ', '\t', '\n', '\r', '  ', ' \t\n\r', '\r\n']
WS_BAD = ['\f', '\v', '\x00', '\x0b', '\x1f', '\x7f', '\u00a0', '\u2028', '\ufeff', '\u3000', '\x85'.encode('latin-1').decode('latin-1')]

CURATED = [
    '', ' ', '[]', '{}', ' [ ] ', ' { } ', '[[]]', '[{}]', '{"a":[]}', '{"":0}', '{"a":1,"a":2}', '[1,2]', '[1 ,2]', '[1, 2]', '[ 1,2 ]',
    '[1,]', '[,1]', '[,]', '[1,,2]', '{,}', '{"a":1,}', '{"a"}', '{"a":}', '{:1}', '{1:1}', '{"a" 1}', '{"a"::1}', '{"a":1 "b":2}',
    '[1 2]', '[1:2]', '{"a":1;"b":2}', '[', ']', '{', '}', '[]]', '[[]', '{}}', '{{}', '[}', '{]', '[1}', '{"a":1]', '"', '""', '"a', 'a"',
    "'a'", "['a']", '{a:1}', '{"a":1}', 'true', 'false', 'null', 'True', 'TRUE', 'nul', 'nulll', 'tru', 'truee', 'fals', 'falsee', 'nil',
    'None', 'undefined', 'true false', 'truefalse', '[true,false,null]', '[truefalse]', 'true,', ',true', '[null]x', 'x[null]',
    '// c\n[]', '[] // c', '/* c */[]', '[/* c */]', '# c\n[]', '[1]#', '"\t"', '"\n"', '"\r"', '"\x00"', '"\x1f"', '"\x7f"', '" "', '"\x20"',
    '"a\\', '"a\\"', '"\\""', '"\\\\"', '"\\\\\\"', '["\\u0041"]', '"\\u0041\\u0042"', '[" "]', '0', '-0', '1 ', ' 1', '1\n', '\n1', '-', '[-]',
    '[1.]', '[.1]', '[1e]', '[01]', '[1e1]', '[-1]', '[- 1]', '[+1]', '[1+1]', '[1-1]', '[0-1]', '[1.5]', '[1..5]', '[1e+1]', '[1e-1]', '[1ee1]',
    '[0e0]', '[0.0]', '[00]', '[0 0]', '[0,0]', '"a""b"', '"a" "b"', '["a""b"]', '[""""]', '{"a":"b"}', '{"a":"b","c":{"d":[1,{"e":null}]}}',
    '\ufeff[]', '[]\ufeff', '[\ufeff]', '["\ufeff"]', '\x00', '[\x00]', '[]\x00', ' \t\n\r[ \t\n\r] \t\n\r', '[\f]', '[\v]', '\f[]', '[]\f',
    '{"a" : 1}', '{ "a":1 }', '{"a": 1 , "b" :2}', '{"a"\n:\n1}', '[\n]', '{\n}', '[1\n,\n2]', '[\u00a01]', '[1\u00a0]',
    '"\u00e9"', '"\u20ac"', '"\U0001f600"', '"\ud7ff"', '"\ue000"', '"\U0010ffff"', '"\uffff"', '"\ufffe"', '"\x7f"', '"\x80"'.encode('latin-1').decode('latin-1'),
    '1e999', '-1e-999', '0.000000000000000000000000000001', '[1,2,3,4,5,6,7,8,9,10]', '[[[[[[[[[[]]]]]]]]]]', '{"a":{"a":{"a":{"a":{}}}}}',
    '[1]]', '[[1]', '{"a":[}', '{"a":[1}', '[{"a":1]', '["a":1]', '{"a","b"}', '{["a"]:1}', '{"a":1}{"b":2}', '[][]', '1 1', '"a" 1', 'null null',
    '[\\u0041]', '\\u0041', '"\\u0041', '\\"a\\"', '"\\ud800\\udc00"', '"\\udc00\\ud800"', '"\\ud800"', '"\\ud800\\n"', '"\\ud800a"',
]


class DocGen:
    """Random JSON texts derived from the RFC's productions (every optional part is a coin flip,
    every repetition a small random count, whitespace placed wherever the RFC allows it)."""

    def __init__(self, rng: random.Random):
        self.r = rng

    def ws(self) -> str:
        r = self.r
        k = r.choice([0, 0, 0, 0, 1, 1, 2, 3])
        return ''.join(r.choice(' \t\n\r') for _ in range(k))

    def number(self) -> str:
        r = self.r
        if r.random() < 0.3:
            return r.choice(NUMBERS_OK)
        s = '-' if r.random() < 0.3 else ''
        s += '0' if r.random() < 0.3 else r.choice('123456789') + ''.join(r.choice('0123456789') for _ in range(r.choice([0, 0, 1, 2, 5, 20])))
        if r.random() < 0.4:
            s += '.' + ''.join(r.choice('0123456789') for _ in range(r.choice([1, 1, 2, 8])))
        if r.random() < 0.4:
            s += r.choice('eE') + r.choice(['', '-', '+']) + ''.join(r.choice('0123456789') for _ in range(r.choice([1, 1, 2, 4])))
        return s

    def char(self) -> str:
        r = self.r
        x = r.random()
        if x < 0.45:
            return r.choice('abcxyzAZ 09_-+.,:;[]{}/!#$%&()*<=>?@^`|~\'')
        if x < 0.6:
            return r.choice(ESCAPES_OK)
        if x < 0.7:
            return '\\u' + ''.join(r.choice('0123456789abcdefABCDEF') for _ in range(4))
        if x < 0.85:
            cp = r.choice(CP_EDGES)
            while cp in (0x22, 0x5C):
                cp = r.choice(CP_EDGES)
            return chr(cp)
        while True:
            cp = r.choice([r.randrange(0x20, 0x80), r.randrange(0x80, 0x800), r.randrange(0x800, 0x10000), r.randrange(0x10000, 0x110000)])
            if cp not in (0x22, 0x5C) and not (0xD800 <= cp <= 0xDFFF):
                return chr(cp)

    def string(self) -> str:
        r = self.r
        return '"' + ''.join(self.char() for _ in range(r.choice([0, 0, 1, 1, 2, 3, 5, 9]))) + '"'

    def value(self, depth: int) -> str:
        r = self.r
        x = r.random()
        if depth <= 0 or x < 0.5:
            y = r.random()
            if y < 0.35:
                return self.number()
            if y < 0.7:
                return self.string()
            return r.choice(['true', 'false', 'null'])
        if x < 0.75:
            k = r.choice([0, 0, 1, 1, 2, 3, 5])
            body = (self.ws() + ',' + self.ws()).join(self.value(depth - 1) for _ in range(k)) if k else ''
            inner = (body if k else '')
            # begin-array = ws [ ws ; end-array = ws ] ws
            return self.ws() + '[' + self.ws() + inner + self.ws() + ']' + self.ws()
        k = r.choice([0, 0, 1, 1, 2, 3])
        members = [self.string() + self.ws() + ':' + self.ws() + self.value(depth - 1) for _ in range(k)]
        return self.ws() + '{' + self.ws() + (self.ws() + ',' + self.ws()).join(members) + self.ws() + '}' + self.ws()

    def text(self) -> str:
        return self.ws() + self.value(self.r.choice([0, 1, 2, 2, 3, 4])) + self.ws()


INSERT_BYTES = [b'[', b']', b'{', b'}', b',', b':', b'"', b'\\', b'u', b'0', b'1', b'9', b'-', b'+', b'.', b'e', b'E', b' ', b'\t', b'\n', b'\r',
                b'\x00', b'\x01', b'\x08', b'\x0b', b'\x0c', b'\x1f', b'\x7f', b'a', b't', b'n', b'f', b'/', b"'", b'\x80', b'\xbf', b'\xc2', b'\xe0',
                b'\xed', b'\xf0', b'\xf4', b'\xff', b'\xc3\xa9', b'\xef\xbb\xbf', b'\xed\xa0\x80', b'\xf4\x90\x80\x80', b'\xc0\x80']


def mutations(doc: bytes, rng: random.Random, budget: int) -> List[Tuple[str, bytes]]:
    """Single-edit mutations of a document: delete / insert / replace / duplicate / swap / truncate."""
    out: List[Tuple[str, bytes]] = []
    n = len(doc)
    if n == 0:
        return out
    for _ in range(budget):
        k = rng.randrange(7)
        i = rng.randrange(n)
        if k == 0:
            out.append(('delete', doc[:i] + doc[i + 1:]))
        elif k == 1:
            out.append(('insert', doc[:i] + rng.choice(INSERT_BYTES) + doc[i:]))
        elif k == 2:
            out.append(('replace', doc[:i] + rng.choice(INSERT_BYTES) + doc[i + 1:]))
        elif k == 3:
            out.append(('duplicate', doc[:i + 1] + doc[i:]))
        elif k == 4 and i + 1 < n:
            out.append(('swap', doc[:i] + doc[i + 1:i + 2] + doc[i:i + 1] + doc[i + 2:]))
        elif k == 5:
            out.append(('truncate', doc[:i]))
        else:
            out.append(('append', doc + rng.choice(INSERT_BYTES)))
    return out


def gen_cases(tier: str, rng: random.Random, covered=lambda b: False) -> List[Tuple[str, bytes]]:
    """Single cases: (class, input); inputs that an exhaustive sweep of this run already contains are left out,
    so that all cases of a run are distinct."""
    thorough = tier == 'thorough'
    cases: List[Tuple[str, bytes]] = []
    seen = set()

    def add(cls: str, b: bytes):
        if b not in seen and len(b) <= 200000 and not covered(b):
            seen.add(b)
            cases.append((cls, b))

    def adds(cls: str, s: str):
        add(cls, s.encode('utf-8', 'surrogatepass'))

    for s in CURATED:
        adds('curated', s)
    # number forms, alone and inside structures, with every follow character
    for num in NUMBERS_OK + NUMBERS_BAD:
        adds('number', num)
        adds('number', '[' + num + ']')
        adds('number', '{"k":' + num + '}')
        adds('number', '[' + num + ',' + num + ']')
        adds('number', ' ' + num + ' ')
        adds('number', '[' + num + ' ]')
    for num in NUMBERS_OK:
        for f in ['', ' ', ',', ']', '}', ':', '"', 'e', 'E', '.', '0', '-', '+', 'a', '\n', '[', '{']:
            adds('number-follow', num + f)
            adds('number-follow', '[' + num + f + ']')
            adds('number-follow', '[' + num + f + '1]')
    # escapes
    for e in ESCAPES_OK + ESCAPES_BAD:
        adds('escape', '"' + e + '"')
        adds('escape', '["a' + e + 'b"]')
        adds('escape', '{"' + e + '":"' + e + '"}')
        adds('escape', '"' + e + e + '"')
        adds('escape', '"' + e)
    for a in ESCAPES_OK[:12]:
        for b in ESCAPES_OK + ESCAPES_BAD[:10]:
            adds('escape-pair', '"' + a + b + '"')
    # every byte as the only string character / after a backslash / as whitespace / bare
    for c in range(256):
        add('byte-in-string', b'"' + bytes([c]) + b'"')
        add('byte-escaped', b'"\\' + bytes([c]) + b'"')
        add('byte-as-ws', b'[' + bytes([c]) + b'1]')
        add('byte-bare', bytes([c]))
        add('byte-after-value', b'1' + bytes([c]))
        add('byte-in-u', b'"\\u00' + bytes([c]) + b'0"')
    # code point edges, encoded and escaped; invalid UTF-8 in every context
    for cp in CP_EDGES + [c + d for c in CP_EDGES for d in (-1, 1)] + [0xD800, 0xDBFF, 0xDC00, 0xDFFF, 0x1F, 0x0]:
        if 0 <= cp <= 0x10FFFF:
            enc = chr(cp).encode('utf-8', 'surrogatepass')
            add('codepoint', b'"' + enc + b'"')
            add('codepoint', b'["a' + enc + b'b"]')
            add('codepoint', b'[' + enc + b']')
            add('codepoint', enc + b'[]')
            for t in range(1, len(enc)):
                add('codepoint-truncated', b'"' + enc[:t] + b'"')
                add('codepoint-truncated', b'"' + enc[:t])
    for bad in BAD_UTF8:
        add('invalid-utf8', b'"' + bad + b'"')
        add('invalid-utf8', b'"a' + bad + b'b"')
        add('invalid-utf8', b'{"' + bad + b'":1}')
        add('invalid-utf8', b'[' + bad + b']')
        add('invalid-utf8', bad + b'[]')
        add('invalid-utf8', b'[]' + bad)
        add('invalid-utf8', b'"\\' + bad + b'"')
        add('invalid-utf8', bad)
    # whitespace placement
    for w in WS_OK + WS_BAD:
        for tmpl in ['%s[1,2]', '[%s1,2]', '[1%s,2]', '[1,%s2]', '[1,2%s]', '[1,2]%s', '{%s"a":1}', '{"a"%s:1}', '{"a":%s1}', '{"a":1%s}',
                     '%s1', '1%s', '1%s2', '[1%s2]', 'tr%sue', '"a%sb"', '-%s1', '1%s.5', '1.%s5', '1%se5', '[%s]', '{%s}', '"a"%s"b"', '%s']:
            adds('whitespace', tmpl % w)
    # nesting
    for d in ([1, 2, 3, 10, 50, 200] + ([400] if thorough else [])):
        adds('nesting', '[' * d + ']' * d)
        adds('nesting', '[' * d + '1' + ']' * d)
        adds('nesting', '[' * d + ']' * (d - 1))
        adds('nesting', '[' * (d - 1) + ']' * d)
        adds('nesting', '{"a":' * d + '1' + '}' * d)
        adds('nesting', '{"a":' * d + '}' * d)
        adds('nesting', '[{"a":' * d + 'null' + '}]' * d)
        adds('nesting', '[' * d + '}' * d)
        adds('nesting', ('[ ' * d) + (' ]' * d))
    # long tokens
    for k in ([10, 100, 1000] + ([20000] if thorough else [])):
        adds('long', '"' + 'a' * k + '"')
        adds('long', '"' + '\\u0041' * k + '"')
        adds('long', '1' * k)
        adds('long', '0.' + '0' * k + 'e' + '9' * k)
        adds('long', ' ' * k + '1' + ' ' * k)
        adds('long', '[' + ','.join(['1'] * k) + ']')
        adds('long', '[' + ','.join(['1'] * k) + ',]')
        adds('long', '"' + 'é' * k + '"')
    # the library's own test data
    data = common.REPO / 'src' / 'test' / 'pegtl' / 'data'
    if data.is_dir():
        for f in sorted(data.glob('*.json')):
            add('repo-data:' + f.name, f.read_bytes())
    # grammar-derived documents and their single-edit mutations
    gen = DocGen(rng)
    ndocs = 6000 if thorough else 1200
    per = 8
    for _ in range(ndocs):
        doc = gen.text().encode('utf-8', 'surrogatepass')
        add('derived', doc)
        for kind, mut in mutations(doc, rng, per):
            add('mutation:' + kind, mut)
    for s in CURATED:
        b = s.encode('utf-8', 'surrogatepass')
        if b and rfc8259_text(b):
            for kind, mut in mutations(b, rng, 2 * per):
                add('mutation:' + kind, mut)
    # prefixes of a few valid documents (every truncation point)
    for s in ['[1, "a\\u0041\\n", {"k": [true, false, null], "x": -1.5e+3}]', ' {"a" : "\u00e9\U0001f600" , "b":[ ] } ']:
        b = s.encode()
        for i in range(len(b) + 1):
            add('prefix', b[:i])
    return cases


def gen_sweeps(tier: str, rng: random.Random) -> List[Tuple[bytes, int]]:
    """(prefix, k): all ALPHABET^k completions.  Every string of length ≤ 5 and a seed-dependent slice of
    length 6 (300 of the 10648 three-byte prefixes in the quick tier, 3000 in the thorough tier)."""
    A = ALPHABET
    sweeps: List[Tuple[bytes, int]] = [(b'', 0), (b'', 1), (b'', 2), (b'', 3)]
    sweeps += [(bytes([c]), 3) for c in A]
    p2 = [bytes(w) for w in itertools.product(A, repeat=2)]
    p3 = [bytes(w) for w in itertools.product(A, repeat=3)]
    sweeps += [(p, 3) for p in p2]
    if tier == 'thorough':
        sweeps += [(p, 3) for p in rng.sample(p3, 3000)]
    else:
        sweeps += [(p, 3) for p in rng.sample(p3, 300)]
        # prefixes that keep the region near valid documents in every run
        sweeps += [(p, 3) for p in (b'[1', b'["', b'{"', b'"\\', b'-0', b'[[', b'1e') if True]
    out, seen = [], set()
    for s in sweeps:
        if s not in seen:
            seen.add(s)
            out.append(s)
    return out


# ============================================================== running the two sides

def _run(exe: Path, text: str, timeout: int = 3600) -> Tuple[int, List[str], str]:
    env = dict(os.environ, ASAN_OPTIONS='detect_leaks=0', UBSAN_OPTIONS='print_stacktrace=1')
    p = subprocess.run([str(exe)], input=text.encode(), capture_output=True, env=env, timeout=timeout)
    return p.returncode, p.stdout.decode('latin-1').split('\n')[:-1], p.stderr.decode('latin-1')


HEADER = 'A ' + ALPHABET.hex()


def run_impl(exe: Path, lines: List[str]) -> Tuple[List[Optional[str]], List[Dict[str, Any]]]:
    """Run the C++ harness; if a sanitizer aborts it, record the crashing line and resume after it."""
    outs: List[Optional[str]] = []
    crashes: List[Dict[str, Any]] = []
    rounds = 0
    while len(outs) < len(lines) and rounds < 8:
        rounds += 1
        rc, got, err = _run(exe, HEADER + '\n' + '\n'.join(lines[len(outs):]) + '\n')
        outs += got
        if rc == 0 and len(outs) >= len(lines):
            break
        if len(outs) < len(lines):
            m = re.search(r'(ERROR: AddressSanitizer: [\w-]+|runtime error: [^\n]+|AddressSanitizer:DEADLYSIGNAL|stack-overflow)', err)
            crashes.append({'line': lines[len(outs)], 'what': m.group(1) if m else f"exit code {rc}", 'stderr_tail': err[-1500:]})
            outs.append(None)
    outs = outs[:len(lines)]
    while len(outs) < len(lines):
        outs.append(None)
    return outs, crashes


def _model_chunk(args) -> Tuple[int, List[str], str]:
    exe, chunk = args
    return _run(Path(exe), HEADER + '\n' + '\n'.join(chunk) + '\n')


def run_model(drv: Path, lines: List[str]) -> Tuple[List[Optional[str]], List[str]]:
    """The Lean driver, in WORKERS parallel chunks (interleaved so that the sweeps spread evenly)."""
    idx = [list(range(w, len(lines), WORKERS)) for w in range(WORKERS)]
    outs: List[Optional[str]] = [None] * len(lines)
    problems: List[str] = []
    with concurrent.futures.ThreadPoolExecutor(max_workers=WORKERS) as ex:
        res = list(ex.map(_model_chunk, [(str(drv), [lines[i] for i in ix]) for ix in idx]))
    for ix, (rc, got, err) in zip(idx, res):
        if rc != 0 or len(got) != len(ix):
            problems.append(f"lean driver rc={rc}, {len(got)} of {len(ix)} lines: {err[-200:]}")
        for i, g in zip(ix, got):
            outs[i] = g
    return outs, problems


# ============================================================== oracle evaluation (worker processes)

BIG = 600      # inputs longer than this are evaluated by the Lean side with the formalism evaluator only (`S` lines)


def case_line(b: bytes) -> str:
    return ('S ' if len(b) > BIG else 'C ') + hx(b)


def inputs_of(line: str) -> List[bytes]:
    w = line.split()
    if w[0] in ('C', 'S'):
        return [unhex(w[1])]
    return list(completions(unhex(w[1]), int(w[2])))


def results_of(line: str, out: str) -> Optional[List[Tuple[int, Optional[int]]]]:
    """[(res, pos|None)] of one output line; None if malformed."""
    w = line.split()
    o = out.split()
    if w[0] in ('C', 'S'):
        if len(o) != 3 or o[0] != w[0] or not o[1].isdigit() or not (o[2].isdigit() or o[2] == '-'):
            return None
        return [(int(o[1]), None if o[2] == '-' else int(o[2]))]
    n = len(ALPHABET) ** int(w[2])
    if len(o) != 2 or o[0] != 'E' or len(o[1]) != n or not o[1].isdigit():
        return None
    return [(int(c), None) for c in o[1]]


def oracle_job(job) -> Dict[str, Any]:
    """job = (line, impl output, full_cross_check)."""
    line, out, cross = job
    res = {'cases': 0, 'accepted': 0, 'valid': 0, 'bad': [], 'self': [], 'malformed': None, 'abnf_checked': 0, 'pyjson_checked': 0}
    rs = results_of(line, out)
    if rs is None:
        res['malformed'] = out[:120]
        return res
    is_sweep = line[0] == 'E'
    for j, (data, (r, pos)) in enumerate(zip(inputs_of(line), rs)):
        exp = rfc8259_text(data)
        res['cases'] += 1
        res['accepted'] += int(r == 1)
        res['valid'] += int(exp)
        ok = (r == 1) == exp and r in (0, 1)
        if ok and pos is not None and r == 1:
            ok = pos == len(data)          # success means the whole input was consumed (`eof`)
        if not ok and len(res['bad']) < 5:
            what = ('the real parse threw an exception' if r == 2 else
                    'read or advance outside the input window' if r == 3 else
                    'accepted, but not a JSON text of RFC 8259' if r == 1 and not exp else
                    'rejected, but it is a JSON text of RFC 8259' if r == 0 and exp else
                    f'final position {pos} after result {r} on {len(data)} bytes')
            res['bad'].append({'input': data.hex(), 'impl': r, 'pos': pos, 'rfc8259': exp, 'what': what})
        # cross-checks of the oracle itself
        if cross or (is_sweep and (exp or r == 1 or j % 97 == 0)):
            a = abnf_text(data) if len(data) <= 400 else None
            if a is not None:
                res['abnf_checked'] += 1
                if a != exp and len(res['self']) < 5:
                    res['self'].append({'input': data.hex(), 'direct': exp, 'abnf': a})
            p = pyjson_text(data)
            if p is not None:
                res['pyjson_checked'] += 1
                if p != exp and len(res['self']) < 5:
                    res['self'].append({'input': data.hex(), 'direct': exp, 'json.loads': p})
    return res


# ============================================================== the check

def abnf_quoted_in_spec() -> List[str]:
    """Every rule of spec/rfc8259.abnf must be quoted (whitespace-normalised, comments dropped) in
    Spec/Rfc8259.lean, which transcribes the RFC rule by rule."""
    lean = re.sub(r'\s+', ' ', SPEC_LEAN.read_text())
    lean_n = re.sub(r'\s+', '', lean).lower()
    missing = []
    a = abnf()
    for name, body in a.source.items():
        want = re.sub(r'\s+', '', f"{name}={body}").lower()
        if want not in lean_n:
            missing.append(name)
    return missing


def build_all(v: common.Verdict) -> Optional[Tuple[Path, Path]]:
    BUILD.mkdir(parents=True, exist_ok=True)
    exe = BUILD / 'leaf_c14'
    ok, err = leaf.compile_cpp(HARNESS, exe)
    if not ok:
        first = err.strip().splitlines()[0][:300] if err.strip() else 'compile failed'
        v.broke("harness/leaf_c14.cpp no longer compiles against the headers: " + first)
        return None
    ok, out = leaf.build_lean_exe('drv_c14')
    if not ok:
        v.broke("lean driver drv_c14 does not build: " + out[-300:])
        return None
    return exe, leaf.lean_exe('drv_c14')


def evaluate(v: common.Verdict, lines: List[str], classes: List[str], impl: List[Optional[str]], model: List[Optional[str]],
             crashes: List[Dict[str, Any]], cross_all: bool) -> Dict[str, Any]:
    """Correspondence diff + oracle over every implementation result."""
    stats: Dict[str, Any] = {}
    for c in crashes:
        w = c['line'].split()
        payload = {'what': 'sanitizer abort / crash in the real parse< seq< json::text, eof > >', 'line': c['line'],
                   'sanitizer': c['what'], 'stderr_tail': c['stderr_tail'], 'replay_lines': [c['line']]}
        if w[0] in ('C', 'S'):
            payload['input'] = w[1]
        v.failing_input(payload)
    # ---- correspondence
    mism = []
    for ln, a, b in zip(lines, impl, model):
        if a is None or b is None or a == b:
            continue
        ra, rb = results_of(ln, a), results_of(ln, b)
        first = None
        if ra is not None and rb is not None:
            for data, x, y in zip(inputs_of(ln), ra, rb):
                if x != y:
                    first = {'input': data.hex(), 'impl': x, 'model': y}
                    break
        mism.append(first or {'line': ln, 'impl': a[:80], 'model': b[:80]})
    if mism:
        v.broke(f"correspondence: real parse and Lean model of Expected.json disagree on {len(mism)} line(s); first: {mism[0]}")
    def model_bad(b: str) -> bool:
        t = b.split()
        return '!' in b or (len(t) > 1 and (('9' in t[1]) if t[0] == 'E' else t[1] == '9'))
    model_internal = [ln for ln, b in zip(lines, model) if b is not None and model_bad(b)]
    if model_internal:
        v.broke(f"lean driver: model `run` and formalism evaluator `semEval` disagree or ran out of fuel on {model_internal[0]}")
    # ---- oracle
    jobs = [(ln, a, cross_all or ln[0] != 'E') for ln, a in zip(lines, impl) if a is not None]
    tot = {'cases': 0, 'accepted': 0, 'valid': 0, 'abnf_checked': 0, 'pyjson_checked': 0}
    per_class: Dict[str, Dict[str, int]] = {}
    bad: List[Dict[str, Any]] = []
    selfbad: List[Dict[str, Any]] = []
    malformed: List[str] = []
    cls_of = {ln: c for ln, c in zip(lines, classes)}
    with concurrent.futures.ProcessPoolExecutor(max_workers=WORKERS) as ex:
        for (ln, a, _), r in zip(jobs, ex.map(oracle_job, jobs, chunksize=16)):
            for k in tot:
                tot[k] += r[k]
            c = cls_of[ln].split(':')[0]
            d = per_class.setdefault(c, {'cases': 0, 'accepted': 0, 'valid': 0})
            for k in d:
                d[k] += r[k]
            if r['malformed']:
                malformed.append(f"{ln[:60]}: {r['malformed']}")
            for b in r['bad']:
                b['class'] = cls_of[ln]
                bad.append(b)
            selfbad += r['self']
    if malformed:
        v.broke("harness output malformed: " + malformed[0][:200])
    if selfbad:
        v.broke(f"oracle self-check: the direct RFC 8259 recogniser disagrees with the ABNF interpreter / json.loads on {len(selfbad)} input(s); first: {selfbad[0]}")
    stats.update(tot)
    stats['per_class'] = per_class
    stats['bad'] = bad
    stats['mismatching_lines'] = len(mism)
    stats['oracle_self_disagreements'] = len(selfbad)
    return stats


def report_bad(v: common.Verdict, bad: List[Dict[str, Any]]):
    known = [k for k in common.load_known() if k.get('property') == PROP and k.get('status') == 'known']
    reported = 0
    seen_kinds = set()
    for b in sorted(bad, key=lambda x: len(x['input'])):
        kind = (b['what'], b.get('class', '').split(':')[0])
        if kind in seen_kinds or reported >= 8:
            continue
        seen_kinds.add(kind)
        kf = next((k for k in known if k.get('match', {}).get('input') == b['input']), None)
        if kf:
            v.known(kf['id'], f"{kf['id']} {b['what']}: {b['input']}")
            continue
        reported += 1
        payload = dict(b)
        try:
            payload['input_text'] = bytes.fromhex(b['input']).decode('utf-8', 'backslashreplace')
        except ValueError:
            pass
        payload['rule'] = 'tao::pegtl::parse< seq< json::text, eof > >( memory_input )'
        payload['replay_lines'] = [case_line(bytes.fromhex(b['input']))]
        v.failing_input(payload)


def run(tier: str) -> int:
    v = common.Verdict(PROP, tier)
    t0 = time.time()
    rng = random.Random(common.seed() * 1000003 + 14)

    # ---- 1. Lean obligations (Gen file first)
    why = write_gen()
    if why:
        v.broke("C14_sync: contrib/json.hpp can no longer be translated into a node table: " + why)
    rep = common.check_lean(['PegtlVerif.Props.C14'], extra_obligation_modules=['PegtlVerif.Audit.C14Sync'],
                            leanchecker=(tier == 'thorough'))
    sync_broken = False
    if not rep.ok:
        for p in rep.problems[:10]:
            if 'C14Sync' in p or 'Gen' in p:
                sync_broken = True
            v.broke("lean: " + p)
        if any('lake build failed' in p for p in rep.problems):
            # find out whether it is the sync obligation alone (json.hpp changed) or the theorems
            rep2 = common.check_lean(['PegtlVerif.Props.C14'])
            if rep2.ok:
                sync_broken = True
                v.broke("C14_sync: Gen.json = Expected.json no longer holds — contrib/json.hpp is not the grammar the C14 theorems are about")
                rep2.obligations += 1              # the sync obligation, not discharged
                rep2.checker_cmd = rep.checker_cmd
                rep = rep2
    try:
        missing = abnf_quoted_in_spec()
        if missing:
            v.broke(f"spec tie: rules of spec/rfc8259.abnf not quoted in Spec/Rfc8259.lean: {missing}")
    except (ValueError, OSError, AssertionError) as e:
        v.broke(f"spec/rfc8259.abnf cannot be read: {e}")
    t_lean = time.time() - t0

    evidence: Dict[str, Any] = {'level': 'proof', 'coverage': {}}
    cov = evidence['coverage']
    cov.update({'obligations': rep.obligations, 'discharged': rep.discharged, 'checker_cmd': rep.checker_cmd,
                'theorems': rep.theorems, 'axioms': rep.axioms,
                'trusted_base': common.TRUSTED_BASE + [
                    "vlib/translate_grammar.py (parser of the declarative header contrib/json.hpp) + vlib/gram.py resolver; protected by the Gen = Expected obligation and the differential run",
                    "Spec/Rfc8259.lean as the transcription of RFC 8259's ABNF (every rule of spec/rfc8259.abnf is quoted there; checked textually on every run)",
                    "the refinement theorem run ⊑ Sem (C01/C09, Lemmas/SemRun.lean) and the sampled agreement of the real parse with the model on Expected.json",
                    "Python 3 strict utf-8 decoder, `re`, and json.loads as independent oracles"]})

    # ---- 2. correspondence
    built = build_all(v)
    if built is None:
        cov.update({'evaluations': 0, 'distinct_nontrivial': 0, 'explanation': 'build failed'})
        return v.finish(evidence)
    exe, drv = built
    sweeps = gen_sweeps(tier, rng)
    swept = {(p, k) for p, k in sweeps}
    alpha = set(ALPHABET)

    def covered(b: bytes) -> bool:
        if not all(c in alpha for c in b):
            return False
        return any((b[:len(b) - k], k) in swept for k in range(0, min(3, len(b)) + 1))

    cases = gen_cases(tier, rng, covered)
    lines = [f"E {hx(p)} {k}" for p, k in sweeps] + [case_line(b) for _, b in cases]
    classes = [f"exhaustive-len{len(p) + k}" for p, k in sweeps] + [c for c, _ in cases]
    t1 = time.time()
    impl, crashes = run_impl(exe, lines)
    t_impl = time.time() - t1
    t1 = time.time()
    model, mproblems = run_model(drv, lines)
    t_model = time.time() - t1
    for p in mproblems:
        v.broke("correspondence: " + p)

    # ---- 3. oracle on every implementation result
    t1 = time.time()
    stats = evaluate(v, lines, classes, impl, model, crashes, cross_all=False)
    t_oracle = time.time() - t1
    report_bad(v, stats['bad'])
    if sync_broken and not stats['bad'] and not crashes:
        # the header changed but no explored input separates it from RFC 8259: say so explicitly
        pass

    # ---- evidence
    nontrivial = stats['per_class']
    exhaustive_cases = sum(d['cases'] for c, d in nontrivial.items() if c.startswith('exhaustive'))
    single = len(cases)
    distinct_nontrivial = stats['valid'] + sum(d['cases'] - d['valid'] for c, d in nontrivial.items()
                                               if c in ('mutation', 'number', 'number-follow', 'escape', 'escape-pair', 'whitespace',
                                                        'nesting', 'invalid-utf8', 'codepoint', 'codepoint-truncated', 'prefix', 'curated',
                                                        'byte-in-string', 'byte-escaped', 'byte-as-ws', 'byte-after-value', 'byte-in-u', 'long', 'repo-data'))
    samples = []
    want = {True: 6, False: 6}
    for (cls, b) in cases[:: max(1, len(cases) // 400)]:
        ok = rfc8259_text(b)
        if want[ok] and 2 <= len(b) <= 80:
            want[ok] -= 1
            i = lines.index(case_line(b))
            samples.append({'class': cls, 'input': b.decode('utf-8', 'backslashreplace'), 'impl': impl[i], 'rfc8259': ok})
    lens = {}
    for p, k in sweeps:
        lens[len(p) + k] = lens.get(len(p) + k, 0) + len(ALPHABET) ** k
    cov.update({
        'evaluations': stats['cases'],
        'distinct_nontrivial': distinct_nontrivial,
        'rule': ("a case = one input byte string given to the real parse< seq< json::text, eof > >; all cases are distinct (deduplicated; sweep "
                 "prefixes are distinct). Non-trivial = the input IS a JSON text of RFC 8259 (valid documents, incl. those found by the exhaustive "
                 "sweeps), or belongs to a structured negative class (single-edit mutation of a valid document, number/escape/whitespace/nesting/"
                 "UTF-8 forms, every byte in string/escape/whitespace position, repo test data). Invalid strings of the exhaustive sweeps are "
                 "evaluated and checked too but not counted."),
        'samples': samples,
        'exhaustive': False,
        'exhaustive_subspaces': (f"every string of length ≤ 5 over the {len(ALPHABET)}-byte alphabet {ALPHABET.decode('latin-1')!r}; "
                                 + "a seed-dependent slice of length 6; every byte value 0..255 alone, as the only string character, after a backslash, "
                                   "in whitespace position, after a value, inside \\uXXXX"),
        'exhaustive_by_length': {str(k): n for k, n in sorted(lens.items())},
        'exhaustive_cases': exhaustive_cases,
        'single_cases': single,
        'stream_lines': len(lines),
        'accepted_by_impl': stats['accepted'], 'valid_by_oracle': stats['valid'],
        'per_class': {k: nontrivial[k] for k in sorted(nontrivial)},
        'oracle_self_check': {'abnf_interpreter_cases': stats['abnf_checked'], 'json_loads_cases': stats['pyjson_checked'],
                              'disagreements': stats['oracle_self_disagreements']},
        'mismatching_lines': stats['mismatching_lines'], 'sanitizer_aborts': len(crashes), 'oracle_hits': len(stats['bad']),
        'sync_obligation': 'broken' if (sync_broken or why) else 'holds',
        'timing_s': {'lean': round(t_lean, 1), 'impl': round(t_impl, 1), 'model': round(t_model, 1), 'oracle': round(t_oracle, 1)},
    })
    evidence['assumptions'] = ["memory_input, default eol, no actions (the grammar has none); inputs up to 200 kB; nesting depth ≤ 400",
                               "the model's `run` is tied to the C++ matching machine by the engine checks (C01/C09) and here by the result projection"]
    print(f"C14 {tier}: {len(lines)} lines, {stats['cases']} cases ({stats['accepted']} accepted by the real parse, {stats['valid']} valid per RFC 8259), "
          f"obligations {rep.discharged}/{rep.obligations}, sync {'BROKEN' if (sync_broken or why) else 'ok'}, mismatching lines {stats['mismatching_lines']}, "
          f"oracle hits {len(stats['bad'])}, aborts {len(crashes)}, oracle self-check {stats['abnf_checked']} abnf / {stats['pyjson_checked']} json.loads; "
          f"lean {t_lean:.0f}s impl {t_impl:.0f}s model {t_model:.0f}s oracle {t_oracle:.0f}s")
    print("distribution: " + json.dumps({k: d['cases'] for k, d in sorted(nontrivial.items())}))
    return v.finish(evidence)


def replay(path: str) -> int:
    payload = json.loads(Path(path).read_text())
    lines = payload.get('replay_lines') or []
    if not lines:
        print(f"replay {path}: no replayable input recorded ({payload.get('kind')}: {payload.get('broken')})")
        return 1
    v = common.Verdict(PROP, 'quick')
    built = build_all(v)
    if built is None:
        print("replay: build failed: " + '; '.join(v.broken))
        return 1
    exe, drv = built
    impl, crashes = run_impl(exe, lines)
    failing = bool(crashes)
    for c in crashes:
        print(f"replay: {c['line'][:100]} -> {c['what']}")
    for ln, a in zip(lines, impl):
        if a is None:
            continue
        r = oracle_job((ln, a, True))
        print(f"replay: {ln[:100]}  impl={a[:60]!r}  oracle-bad={r['bad']}")
        failing = failing or bool(r['bad']) or bool(r['malformed'])
    print("replay: still failing" if failing else "replay: passes now")
    return 1 if failing else 0


if __name__ == '__main__':
    # developer entry: python3 -m vlib.c14 --write-expected
    if '--write-expected' in sys.argv:
        EXPECTED_FILE.parent.mkdir(parents=True, exist_ok=True)
        EXPECTED_FILE.write_text(render('Expected'))
        print(f"wrote {EXPECTED_FILE}")
