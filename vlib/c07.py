"""c07.py — C07: parse results do not depend on the input class, buffering or chunking.

1. Lean obligations: lean/PegtlVerif/Props/C07.lean (invariant of buffer_input, `require` for every
   short-read schedule, window view = memory_input view, `discard`, rewind, atoms over the buffer).
2. Leaf correspondence: harness/leaf_c07.cpp (the real buffer_input< Reader, Eol, Source, Chunk > with a
   scripted reader, ASan+UBSan, stream in an exact-size heap buffer) against lean/DrvC07.lean (the model)
   on operation sequences: every short-read schedule for streams of up to 8 bytes x maximum 1..40 x
   Chunk {1,2,3,8,64}, every operation sequence up to a length bound over a small alphabet, seeded random
   long streams / schedules / sequences.  Oracle (Python, independent of the model) on every record the
   implementation printed: the window is exactly the stream at the logical position, cur+occupied+free =
   capacity, the reader stands at the window end, `require` keeps the position and buffers
   min( amount, remaining ), overflow only when current + amount exceeds the capacity, `discard` keeps
   position and bytes, bump / peek / restore do what a memory input does.
3. Whole runs (the property's oracle = the memory_input run of the same case): generated grammars
   (vlib/corpus.py: random core + convenience kinds, systematic family) with `discard` at top-level
   sequence positions and via discard_input* actions, every input through memory_input eager
   (reference) / lazy, string_input, buffer_input with several (maximum, Chunk, schedule); files of size
   0, 1, 4095, 4096, 4097, 65536 through read_input, mmap_input, file_input, cstream_input,
   istream_input, argv_input.  Compared: result, consumed bytes, complete event trace (hooks, actions,
   positions), error positions/messages.  Permitted deviation: std::overflow_error escaping parse() with
   the trace up to that point being a prefix of the reference trace, and only when the capacity is below
   input size + longest look-ahead.
"""
from __future__ import annotations

import itertools
import json
import os
import random
import subprocess
import time
from collections import Counter
from concurrent.futures import ThreadPoolExecutor, ProcessPoolExecutor
from pathlib import Path
from typing import Any, Dict, List, Optional, Tuple

from . import common, leaf, corpus
from .gram import Grammar, P, C, N, Ref, T, grammar_to_json, grammar_from_json

PROP = 'C07'
HARNESS = common.VERIF / 'harness' / 'leaf_c07.cpp'
CHUNKS = [1, 2, 3, 8, 64]
WORKERS = 4
FILE_SIZES = [0, 1, 4095, 4096, 4097, 65536]

LeafCase = Tuple[int, int, str, bytes, Tuple[int, ...], Tuple[str, ...]]   # chunk, maximum, eol, stream, schedule, ops


# ================================================================= part 2: leaf correspondence

def hx(b: bytes) -> str:
    return b.hex() if b else '-'


def leaf_line(c: LeafCase) -> str:
    chunk, maximum, eol, stream, sched, ops = c
    return f"{chunk} {maximum} {eol} {hx(stream)} {','.join(map(str, sched)) if sched else '-'} {' '.join(ops)}"


def leaf_json(c: LeafCase) -> Dict[str, Any]:
    chunk, maximum, eol, stream, sched, ops = c
    return {'Chunk': chunk, 'maximum': maximum, 'eol': eol, 'stream_hex': hx(stream), 'schedule': list(sched), 'ops': list(ops)}


def compositions(n: int) -> List[Tuple[int, ...]]:
    """All ways to deliver n bytes in reads of >= 1 byte.  Every legal reader behaviour on an n-byte
    stream is the schedule given by one of them (requests smaller than the scheduled count only cut it)."""
    if n == 0:
        return [()]
    out = []
    for first in range(1, n + 1):
        for rest in compositions(n - first):
            out.append((first,) + rest)
    return out


ATOMS = ['any', 'one', 'not', 'rng', 'rgs', 'str', 'stn', 'ist', 'by3', 'eof', 'bof', 'bol', 'eol', 'eolf', 'evr', 'rq2', 'suc', 'fai', 'r13', 'r02', 'rn2', 'u8r', 'u8n', 'u8w']


REP_ONE = {'r13': (1, 3, 0x61), 'r02': (0, 2, 0x61), 'rn2': (1, 2, 0x0a)}
UTF8_RANGE = {'u8r': (True, 0x80, 0x7FF), 'u8n': (False, 0x61, 0xFFFF), 'u8w': (True, 0, 0x10FFFF)}   # utf8::range / utf8::not_range


def peek_utf8(rem: bytes) -> Tuple[Optional[Tuple[int, int]], int]:
    """internal/peek_utf8.hpp as documented: ( ( code point, size ) or None, largest amount asked of the input )."""
    if not rem:
        return None, 1
    c0 = rem[0]
    if c0 & 0x80 == 0:
        return (c0, 1), 1
    if c0 & 0xE0 == 0xC0:
        if len(rem) >= 2 and rem[1] & 0xC0 == 0x80:
            c = ((c0 & 0x1F) << 6) | (rem[1] & 0x3F)
            if c >= 0x80:
                return (c, 2), 2
        return None, 2
    if c0 & 0xF0 == 0xE0:
        if len(rem) >= 3 and rem[1] & 0xC0 == 0x80 and rem[2] & 0xC0 == 0x80:
            c = ((c0 & 0x0F) << 12) | ((rem[1] & 0x3F) << 6) | (rem[2] & 0x3F)
            if c >= 0x800 and not 0xD800 <= c <= 0xDFFF:
                return (c, 3), 3
        return None, 3
    if c0 & 0xF8 == 0xF0:
        if len(rem) >= 4 and rem[1] & 0xC0 == 0x80 and rem[2] & 0xC0 == 0x80 and rem[3] & 0xC0 == 0x80:
            c = ((c0 & 0x07) << 18) | ((rem[1] & 0x3F) << 12) | ((rem[2] & 0x3F) << 6) | (rem[3] & 0x3F)
            if 0x10000 <= c <= 0x10FFFF:
                return (c, 4), 4
        return None, 4
    return None, 1


def atom_spec(name: str, stream: bytes, byte: int, col: int, eol: str) -> Tuple[bool, int, int]:
    """What the documented rule does on a memory input holding `stream`, at offset `byte`:
    (result, bytes consumed, largest amount it asks the input for; 0 = it asks for nothing)."""
    n = len(stream)
    rem = stream[byte:]
    c = rem[0] if rem else -1
    if name == 'any':
        return (c >= 0, 1 if c >= 0 else 0, 1)
    if name == 'one':
        return (c == 0x61, 1 if c == 0x61 else 0, 1)
    if name == 'not':
        ok = c >= 0 and c != 0x61
        return (ok, 1 if ok else 0, 1)
    if name == 'rng':
        ok = 0x61 <= c <= 0x63
        return (ok, 1 if ok else 0, 1)
    if name == 'rgs':
        ok = (0x61 <= c <= 0x62) or (0x78 <= c <= 0x7a) or c == 0x0a
        return (ok, 1 if ok else 0, 1)
    if name == 'str':
        ok = rem[:3] == b'abc'
        return (ok, 3 if ok else 0, 3)
    if name == 'stn':
        ok = rem[:2] == b'a\n'
        return (ok, 2 if ok else 0, 2)
    if name == 'ist':
        ok = len(rem) >= 2 and rem[:2].lower() == b'ab'
        return (ok, 2 if ok else 0, 2)
    if name == 'by3':
        return (len(rem) >= 3, 3 if len(rem) >= 3 else 0, 3)
    if name == 'eof':
        return (byte == n, 0, 1)
    if name == 'bof':
        return (byte == 0, 0, 0)
    if name == 'bol':
        return (col == 1, 0, 0)
    if name in ('eol', 'eolf'):
        k = 0
        if eol == 'lf_crlf':
            k = 1 if c == 0x0a else (2 if rem[:2] == b'\r\n' else 0)
        else:
            k = (2 if rem[:2] == b'\r\n' else 1) if c == 0x0d else 0
        return (k > 0 or (name == 'eolf' and byte == n), k, 2)
    if name == 'evr':
        return (True, len(rem), len(rem) + 1)
    if name == 'rq2':
        return (len(rem) >= 2, 0, 2)
    if name == 'suc':
        return (True, 0, 0)
    if name == 'fai':
        return (False, 0, 0)
    if name in UTF8_RANGE:
        found, lo, hi = UTF8_RANGE[name]
        t, amount = peek_utf8(rem)
        if t is None:
            return (False, 0, amount)
        ok = (lo <= t[0] <= hi) == found
        return (ok, t[1] if ok else 0, amount)
    if name in REP_ONE:              # contrib rep_one_min_max< lo, hi, c >: looks at Max + 1 bytes, counts the leading c's
        lo, hi, ch = REP_ONE[name]
        w = rem[:hi + 1]
        if len(w) < lo:
            return (False, 0, hi + 1)
        i = 0
        while i < len(w) and w[i] == ch:
            i += 1
        ok = lo <= i <= hi
        return (ok, i if ok else 0, hi + 1)
    raise ValueError(name)


class Abstract:
    """What is known of a buffer_input independently of the schedule: the data offset of the cursor, the
    logical position and a lower bound on the buffered bytes.  Used only to generate op sequences whose
    calls are mostly within their contract; it decides nothing."""

    def __init__(self, n: int, maximum: int, chunk: int, stream: bytes = b'', eol: str = 'lf_crlf'):
        self.n, self.cap, self.chunk = n, maximum + chunk, chunk
        self.stream, self.eol = stream, eol
        self.cur = 0
        self.byte = 0
        self.occ = 0
        self.epoch = 0
        self.slots: Dict[int, Tuple[int, int, int, int]] = {}

    def fetch(self, amount: int) -> bool:
        if self.occ >= amount:
            return True
        if self.cur + amount > self.cap:
            return False
        self.occ = max(self.occ, min(amount, self.n - self.byte))
        return True

    def apply(self, tok: str):
        if tok[0] == 'M':
            r, adv, amount = atom_spec(tok[1:], self.stream, self.byte, 0, self.eol)
            if amount == 0 or self.fetch(min(amount, self.cap + 1)):
                if adv <= self.occ:
                    self.cur += adv
                    self.byte += adv
                    self.occ -= adv
            return
        k, v = tok[0], int(tok[1:] or 0)
        if k in 'RSN':
            self.fetch(v)
        elif k == 'E':
            self.fetch(1)
        elif k in 'BLT':
            if v <= self.occ:
                self.cur += v
                self.byte += v
                self.occ -= v
        elif k == 'D':
            if self.cur > self.chunk:
                self.cur = 0
                self.epoch += 1
        elif k == 'W':
            self.slots[v] = (self.cur, self.byte, self.occ, self.epoch)
        elif k == 'U':
            s = self.slots.get(v)
            if s and s[3] == self.epoch:
                self.occ = self.occ + (self.cur - s[0])
                self.cur, self.byte = s[0], s[1]


def gen_ops(rng: random.Random, n: int, maximum: int, chunk: int, length: int, style: str, stream: bytes = b'', eol: str = 'lf_crlf') -> Tuple[str, ...]:
    a = Abstract(n, maximum, chunk, stream, eol)
    ops: List[str] = []
    while len(ops) < length:
        room = a.cap - a.cur
        r = rng.random()
        if style == 'scan':          # what `any`/`one` loops with discards do
            seq = rng.choice([['E', 'P0', 'B1'], ['S1', 'B1'], ['S2', 'P1', 'B2'], ['E', 'B1', 'D'], ['D'], ['S3', 'T2', 'D'], ['E', 'L1'],
                              ['M' + rng.choice(ATOMS)], ['M' + rng.choice(ATOMS), 'D'], ['Many'], ['Meol', 'D'], ['W1', 'M' + rng.choice(ATOMS), 'U1']])
        elif style == 'atoms':
            seq = rng.choice([['M' + rng.choice(ATOMS)], ['M' + rng.choice(ATOMS)], ['Many'], ['D'], ['Mone', 'Mrgs', 'Meolf'], ['W0', 'Mstr', 'U0'], ['Mby3', 'D']])
        elif r < 0.30:
            amt = rng.choice([0, 1, 1, 2, 3, chunk, chunk + 1, max(room, 0), room + 1, max(room - 1, 0), n, n + 1, a.occ + 1, maximum, maximum + chunk])
            seq = [rng.choice('RSSN') + str(max(0, amt))]
        elif r < 0.38:
            seq = ['E']
        elif r < 0.62:
            k = rng.choice([0, 1, 1, 1, 2, a.occ, max(a.occ - 1, 0), a.occ + 1 if rng.random() < 0.15 else 1])
            seq = [rng.choice('BBBLT') + str(k)]
        elif r < 0.74:
            seq = ['P' + str(rng.choice([0, 0, 1, max(a.occ - 1, 0), a.occ if rng.random() < 0.2 else 0]))]
        elif r < 0.86:
            seq = ['D']
        elif r < 0.93:
            seq = ['W' + str(rng.randint(0, 3))]
        else:
            seq = ['U' + str(rng.randint(0, 3))]
        for t in seq:
            a.apply(t)
            ops.append(t)
    return tuple(ops[:length + 2])


SMALL_STREAM = bytes([0x61, 0x62, 0x0a, 0x63, 0x0d, 0x0a, 0x64, 0x65])      # a b LF c CR LF d e
SMALL_UTF8 = bytes([0xc3, 0xa4, 0xe2, 0x82, 0xac, 0xf0, 0x9f, 0x98])        # U+00E4, U+20AC, a four-byte sequence cut after three bytes
ALPHABET = ['S1', 'S2', 'R3', 'E', 'B1', 'B2', 'D', 'P0', 'W0', 'U0', 'Many', 'Mstn', 'Meolf']


UTF8_TOKENS = [b'a', b'a', b'\n', b'\r', b'z', b'\xc3\xa4', b'\xdf\xbf', b'\xc2\x80', b'\xe2\x82\xac', b'\xe0\xa0\x80', b'\xef\xbf\xbf',
               b'\xf0\x9f\x98\x80', b'\xf4\x8f\xbf\xbf', b'\xf0\x90\x80\x80', b'\xc0\x80', b'\xc1\xbf', b'\xe0\x80\x80', b'\xed\xa0\x80', b'\xed\xbf\xbf',
               b'\xf4\x90\x80\x80', b'\xf0\x80\x80\x80', b'\x80', b'\xbf', b'\xc3', b'\xe2\x82', b'\xf0\x9f', b'\xf0\x9f\x98', b'\xf8', b'\xff', b'\xc3a', b'\xe2a\xac']


def gen_leaf_cases(tier: str, rng: random.Random) -> Tuple[List[LeafCase], Dict[str, Any]]:
    cases: List[LeafCase] = []
    dist: Dict[str, Any] = {'families': {}}
    quick = (tier == 'quick')
    # (a) every short-read schedule for streams of 0..8 bytes x maximum 1..40 x every Chunk
    nscripts = 3 if quick else 10
    cnt = 0
    nsched = 0
    for small, n in [(SMALL_STREAM, n) for n in range(0, 9)] + [(SMALL_UTF8, n) for n in range(1, 9)]:
        stream = small[:n]
        comps = compositions(n)
        nsched += len(comps)
        for chunk in CHUNKS:
            for maximum in range(1, 41):
                eol = 'lf_crlf' if (maximum + chunk) % 4 else 'cr_crlf'
                scripts = [gen_ops(rng, n, maximum, chunk, rng.randint(6, 14), ['scan', 'atoms', 'mixed'][j % 3] if small is SMALL_STREAM else 'atoms', stream, eol)
                           for j in range(nscripts)]
                for comp in comps:
                    for ops in scripts:
                        cases.append((chunk, maximum, eol, stream, comp, ops))
                        cnt += 1
    dist['families']['all_schedules'] = {'cases': cnt, 'stream_lengths': '0..8', 'streams': [SMALL_STREAM.hex(), SMALL_UTF8.hex()], 'schedules_compositions': nsched, 'maximum': '1..40',
                                         'chunks': CHUNKS, 'scripts_per_configuration': nscripts}
    # (b) every operation sequence up to a length over a 13-letter alphabet, small configurations
    maxlen = 3 if quick else 4
    cnt = 0
    cfgs = [(n, sched, maximum, chunk) for n in (0, 1, 3, 6) for sched in ('ones', 'full') for maximum in (1, 2, 4) for chunk in (1, 2)]
    for L in range(1, maxlen + 1):
        for seq in itertools.product(ALPHABET, repeat=L):
            for (n, sched, maximum, chunk) in (cfgs if L <= 3 else cfgs[5::4]):
                cases.append((chunk, maximum, 'lf_crlf', SMALL_STREAM[:n], tuple([1] * n) if sched == 'ones' else (), tuple(seq)))
                cnt += 1
    dist['families']['all_op_sequences'] = {'cases': cnt, 'alphabet': ALPHABET, 'max_length': maxlen, 'configurations': len(cfgs)}
    # (c) seeded random: long streams, arbitrary schedules, long sequences
    nrand = 12000 if quick else 120000
    styles = Counter()
    for j in range(nrand):
        n = rng.choice([rng.randint(9, 40), rng.randint(9, 40), rng.randint(41, 300)])
        stream = bytes(rng.choice([0x61, 0x62, 0x63, 0x61, 0x0a, 0x0d, 0x00, 0xff, 0x42, 0x7a]) for _ in range(n))
        if j % 3 == 2:           # UTF-8: valid sequences of every length, truncated / overlong / surrogate / stray bytes, some ASCII
            stream = b''.join(rng.choice(UTF8_TOKENS) for _ in range(n))[:n]
        chunk = rng.choice(CHUNKS)
        maximum = rng.choice([rng.randint(1, 40), rng.randint(1, 40), rng.randint(1, 8), rng.randint(41, 320)])
        st = rng.choice(['ones', 'small', 'wild', 'full', 'prefix'])
        styles[st] += 1
        if st == 'ones':
            sched = tuple([1] * n)
        elif st == 'small':
            sched = tuple(rng.randint(1, 4) for _ in range(n))
        elif st == 'wild':
            sched = tuple(rng.choice([0, 1, 2, 3, 7, 64, 65, 1000]) for _ in range(n))
        elif st == 'full':
            sched = ()
        else:
            sched = tuple(rng.randint(1, 3) for _ in range(rng.randint(1, 6)))
        eol = rng.choice(['lf_crlf', 'cr_crlf'])
        ops = gen_ops(rng, n, maximum, chunk, rng.randint(10, 60), rng.choice(['scan', 'mixed', 'atoms']), stream, eol)
        cases.append((chunk, maximum, eol, stream, sched, ops))
    dist['families']['random'] = {'cases': nrand, 'stream_lengths': '9..300', 'maximum': '1..320', 'schedule_styles': dict(styles)}
    fixed: List[LeafCase] = [
        (2, 3, 'lf_crlf', bytes.fromhex('61620a636465666768'), (1, 2, 1, 1, 1, 1, 1, 1, 1), ('R4', 'B3', 'S1', 'P0', 'R3', 'D', 'R3', 'W0', 'B2', 'U0', 'E')),   # exB of Props/C07.lean
        (64, 1, 'lf_crlf', b'abc', (1, 1, 1), ('S3', 'P2', 'B3', 'E')),                      # F7: string< a, b, c > with a 1-byte reader
        (1, 1, 'lf_crlf', b'', (), ('E', 'S1', 'R2', 'R3', 'D')),
        (2, 3, 'lf_crlf', bytes.fromhex('61620a636465666768'), (1, 2, 1, 1), ('Mone', 'Mone', 'Mstn', 'Meol', 'D', 'Mstr', 'D', 'Mevr', 'Meof', 'Mbol', 'Many')),
        (2, 16, 'lf_crlf', bytes.fromhex('61620a636465666768'), (1, 2, 1, 1), ('Mevr', 'Meof', 'Meolf')),          # F12: everything consumes the whole stream
        (3, 8, 'cr_crlf', b'a\r\nAb\rabc', (1, 1, 1, 1, 1, 1, 1, 1, 1, 1), ('Mone', 'Meol', 'Mist', 'Meolf', 'D', 'Mstr', 'Meolf', 'Meof')),
    ]
    cases += fixed
    dist['families']['fixed'] = {'cases': len(fixed)}
    return cases, dist


# ---------------------------------------------------------------- oracle over the implementation's records

def parse_state(s: str) -> Optional[Dict[str, Any]]:
    f = s.split(':')
    if len(f) != 8:
        return None
    try:
        return {'cur': int(f[0]), 'occ': int(f[1]), 'free': int(f[2]), 'byte': int(f[3]), 'line': int(f[4]), 'col': int(f[5]),
                'fed': int(f[6]), 'win': b'' if f[7] == '-' else bytes.fromhex(f[7])}
    except ValueError:
        return None


def scan(stream: bytes, ch: int, byte: int, line: int, col: int, n: int) -> Tuple[int, int, int]:
    for i in range(n):
        if stream[byte + i] == ch:
            line, col = line + 1, 1
        else:
            col += 1
    return byte + n, line, col


def judge_leaf(c: LeafCase, out: str) -> Tuple[List[str], Dict[str, int]]:
    """The property on one case, from the implementation's output alone.  Returns (failures, statistics)."""
    chunk, maximum, eol, stream, sched, ops = c
    n = len(stream)
    cap = maximum + chunk
    ch = 10 if eol == 'lf_crlf' else 13
    st = {'records': 0, 'ovf': 0, 'fetch': 0, 'moved': 0, 'restores': 0, 'ill': 0, 'eos': 0, 'atoms': 0}
    fails: List[str] = []
    recs = out.split(' ')
    if len(recs) != len(ops) + 1 or not recs[0].startswith('init='):
        return [f"expected {len(ops) + 1} records, got {len(recs)}: {out[:200]}"], st
    try:
        capstr, s0 = recs[0][5:].split('/', 1)
    except ValueError:
        return ['unreadable init record'], st
    p = parse_state(s0)
    if p is None:
        return ['unreadable init state'], st
    if int(capstr) != cap:
        fails.append(f"buffer_capacity() = {capstr}, expected maximum + Chunk = {cap}")
    if (p['cur'], p['occ'], p['byte'], p['line'], p['col'], p['fed']) != (0, 0, 0, 1, 1, 0):
        fails.append(f"fresh input is not at the start with an empty window: {s0}")
    slots: Dict[int, Tuple[Dict[str, Any], int]] = {}
    epoch = 0
    for tok, rec in zip(ops, recs[1:]):
        st['records'] += 1
        try:
            head, s1 = rec.split('/', 1)
            t2, obs = head.split('=', 1)
        except ValueError:
            fails.append(f"unreadable record {rec[:80]}")
            break
        q = parse_state(s1)
        if q is None or t2 != tok:
            fails.append(f"unreadable record {rec[:80]}")
            break
        k, v = (tok[0], 0) if tok[0] == 'M' else (tok[0], int(tok[1:] or 0))
        where = f"after {tok}"
        # ---- what holds in every state
        if q['cur'] + q['occ'] + q['free'] != cap:
            fails.append(f"{where}: free_before_current + occupied + free_after_end = {q['cur'] + q['occ'] + q['free']} != capacity {cap}")
        if q['fed'] != q['byte'] + q['occ']:
            fails.append(f"{where}: reader delivered {q['fed']} bytes but the window ends at stream offset {q['byte'] + q['occ']}")
        if q['fed'] > n:
            fails.append(f"{where}: reader delivered more than the stream holds")
        if q['win'] != stream[q['byte']:q['byte'] + q['occ']]:
            fails.append(f"{where}: window bytes {q['win'].hex()} are not stream[{q['byte']}:{q['byte'] + q['occ']}] = {stream[q['byte']:q['byte'] + q['occ']].hex()}")
        if q['byte'] < q['cur']:
            fails.append(f"{where}: byte counter {q['byte']} below the data offset {q['cur']}")
        same_pos = (q['cur'], q['byte'], q['line'], q['col']) == (p['cur'], p['byte'], p['line'], p['col'])
        unchanged = all(q[x] == p[x] for x in ('cur', 'occ', 'free', 'byte', 'line', 'col', 'fed', 'win'))
        if obs == 'ill':
            st['ill'] += 1
            legal = ((k in 'BLT' and v <= p['occ']) or (k == 'P' and v < p['occ']) or (k == 'U' and v in slots and slots[v][1] == epoch))
            if legal or k not in 'BLTPU' or tok[0] == 'M':
                fails.append(f"{where}: the driver refused a call that is within its contract")
            if not unchanged:
                fails.append(f"{where}: refused call changed the state")
        elif k == 'M':
            st['atoms'] += 1
            r, adv, amount = atom_spec(tok[1:], stream, p['byte'], p['col'], eol)
            if obs == 'ovf':
                st['ovf'] += 1
                if not (amount > 0 and p['cur'] + amount > cap and amount > p['occ']):
                    fails.append(f"{where}: std::overflow_error although the rule asks for at most {amount} bytes at data offset {p['cur']} with capacity {cap}")
                if tok[1:] in UTF8_RANGE:        # empty() may have fetched before size( 2 | 3 | 4 ) threw: the position must be the same
                    if not same_pos:
                        fails.append(f"{where}: overflow_error but the position changed")
                elif tok[1:] != 'evr' and not unchanged:
                    fails.append(f"{where}: overflow_error but the input changed")
            else:
                exp = scan(stream, ch, p['byte'], p['line'], p['col'], adv)
                if tok[1:] in ('eol', 'eolf') and adv:
                    exp = (p['byte'] + adv, p['line'] + 1, 1)
                if obs != ('1' if r else '0'):
                    fails.append(f"{where}: the rule returned {obs}, on a memory input it returns {int(r)}")
                if (q['byte'], q['line'], q['col']) != exp:
                    fails.append(f"{where}: position ({q['byte']},{q['line']},{q['col']}), a memory input is left at {exp}")
                if q['fed'] > p['fed']:
                    st['fetch'] += 1
        elif k in 'RSNE':
            amount = 1 if k == 'E' else v
            if obs == 'ovf':
                st['ovf'] += 1
                if not (p['cur'] + amount > cap and amount > p['occ']):
                    fails.append(f"{where}: std::overflow_error although current + amount = {p['cur'] + amount} <= capacity {cap} (or the amount was buffered)")
                if not unchanged:
                    fails.append(f"{where}: overflow_error but the input changed")
            else:
                if not same_pos:
                    fails.append(f"{where}: the position moved ({p['cur']},{p['byte']},{p['line']},{p['col']}) -> ({q['cur']},{q['byte']},{q['line']},{q['col']})")
                need = min(amount, n - p['byte'])
                if q['occ'] < need:
                    fails.append(f"{where}: {q['occ']} bytes available, min( amount, remaining ) = {need}")
                if q['occ'] < p['occ'] or q['fed'] < p['fed']:
                    fails.append(f"{where}: the window shrank")
                if q['fed'] > p['fed']:
                    st['fetch'] += 1
                if q['occ'] < amount:
                    st['eos'] += 1
                if k == 'R' and obs != 'ok':
                    fails.append(f"{where}: unexpected result {obs}")
                if k in 'SN' and obs != str(q['occ']):
                    fails.append(f"{where}: returned {obs}, buffered bytes {q['occ']}")
                if k == 'E' and obs != ('1' if p['byte'] == n else '0'):
                    fails.append(f"{where}: empty() = {obs} at stream offset {p['byte']} of {n}")
        elif k in 'BLT':
            if obs != 'ok':
                fails.append(f"{where}: unexpected result {obs}")
            if k == 'B':
                exp = scan(stream, ch, p['byte'], p['line'], p['col'], v)
            elif k == 'L':
                exp = (p['byte'] + v, p['line'], p['col'] + v)
            else:
                exp = (p['byte'] + v, p['line'] + 1, 1)
            if (q['byte'], q['line'], q['col']) != exp:
                fails.append(f"{where}: position ({q['byte']},{q['line']},{q['col']}), a memory input gives {exp}")
            if q['cur'] != p['cur'] + v or q['occ'] != p['occ'] - v or q['fed'] != p['fed']:
                fails.append(f"{where}: window bookkeeping wrong")
        elif k == 'P':
            if obs != str(stream[p['byte'] + v]):
                fails.append(f"{where}: peek = {obs}, stream byte {stream[p['byte'] + v]}")
            if not unchanged:
                fails.append(f"{where}: peek changed the input")
        elif k == 'D':
            moved = p['cur'] > chunk
            if moved:
                st['moved'] += 1
                epoch += 1
            if q['cur'] != (0 if moved else p['cur']):
                fails.append(f"{where}: free_before_current = {q['cur']} with {p['cur']} consumed bytes and Chunk {chunk}")
            for x in ('occ', 'byte', 'line', 'col', 'fed', 'win'):
                if q[x] != p[x]:
                    fails.append(f"{where}: discard changed {x}: {p[x]} -> {q[x]}")
        elif k == 'W':
            if not unchanged:
                fails.append(f"{where}: rewind_save changed the input")
            slots[v] = (dict(p), epoch)
        elif k == 'U':
            st['restores'] += 1
            if v not in slots or slots[v][1] != epoch:
                fails.append(f"{where}: the driver restored an inputerator invalidated by a discard")
            else:
                s = slots[v][0]
                if (q['cur'], q['byte'], q['line'], q['col']) != (s['cur'], s['byte'], s['line'], s['col']):
                    fails.append(f"{where}: restored position ({q['cur']},{q['byte']},{q['line']},{q['col']}) != saved ({s['cur']},{s['byte']},{s['line']},{s['col']})")
                if q['fed'] != p['fed'] or q['cur'] + q['occ'] != p['cur'] + p['occ']:
                    fails.append(f"{where}: restore moved the window end")
        else:
            fails.append(f"unknown op {tok}")
        p = q
        if len(fails) > 6:
            break
    return fails, st


# ---------------------------------------------------------------- running the two leaf drivers

def run_one_chunk(exe: Path, ch: List[str], max_crashes: int = 6) -> Tuple[List[str], List[str]]:
    """Run a driver over a chunk of case lines; a death (sanitizer report, signal) costs one case."""
    out: List[str] = []
    problems: List[str] = []
    rest = ch
    crashes = 0
    while rest:
        p = leaf.run_exe(exe, "\n".join(rest) + "\n", timeout=3000)
        got = p.stdout.split('\n')
        if got and got[-1] == '':
            got.pop()
        if p.returncode == 0 and len(got) == len(rest):
            out += got
            break
        got = got[:len(rest)]
        crashes += 1
        summary = ' '.join((p.stderr or '').split())[:400]
        problems.append(f"{exe.name}: exit {p.returncode} at case {rest[min(len(got), len(rest) - 1)]!r}: {summary}")
        out += got
        if len(got) < len(rest):
            out.append('CRASHED exit=%d %s' % (p.returncode, summary[:300]))
            rest = rest[len(got) + 1:]
        else:
            rest = []
        if crashes >= max_crashes:
            out += ['CRASHED not-run'] * len(rest)
            break
    return out, problems


def run_stream(exe: Path, lines: List[str], workers: int = WORKERS) -> Tuple[List[str], List[str]]:
    if not lines:
        return [], []
    n = max(1, min(workers, len(lines) // 500 + 1))
    size = (len(lines) + n - 1) // n
    chunks = [lines[i:i + size] for i in range(0, len(lines), size)]
    with ThreadPoolExecutor(max_workers=n) as ex:
        res = list(ex.map(lambda ch: run_one_chunk(exe, ch), chunks))
    out: List[str] = []
    problems: List[str] = []
    for o, pr in res:
        out += o
        problems += pr
    return out, problems


def build_leaf(verdict: common.Verdict) -> Tuple[Optional[Path], Optional[Path]]:
    ok, out = leaf.build_lean_exe('drv_c07')
    if not ok:
        verdict.broke('lean driver drv_c07 does not build: ' + out[-400:])
        return None, None
    cpp = common.BUILD / 'leaf' / 'leaf_c07'
    ok, err = leaf.compile_cpp(HARNESS, cpp)
    if not ok:
        verdict.broke('harness/leaf_c07.cpp no longer compiles against the headers: ' + err[-800:])
        return None, None
    return cpp, leaf.lean_exe('drv_c07')


def first_diff(a: str, b: str) -> Tuple[Optional[str], Optional[str]]:
    for x, y in itertools.zip_longest(a.split(' '), b.split(' ')):
        if x != y:
            return x, y
    return None, None


def judge_leaf_chunk(work):
    tot = Counter()
    bad: List[Dict[str, Any]] = []
    nontrivial = set()
    for case, out, mod, line in work:
        if out.startswith('CRASHED'):
            if out != 'CRASHED not-run' and len(bad) < 50:
                bad.append({'case': leaf_json(case), 'observed': out[:600], 'fails': ['the driver over the real buffer_input died on this case (sanitizer report or signal)'],
                            'model': mod[:600] if mod else None})
            continue
        fails, st = judge_leaf(case, out)
        tot.update(st)
        tot['cases'] += 1
        if st['fetch'] and (st['moved'] or st['ovf'] or st['restores'] or st['eos']):
            nontrivial.add(line)
        if fails:
            tot['bad'] += 1
            if len(bad) < 50:
                bad.append({'case': leaf_json(case), 'observed': out[:1500], 'fails': fails[:6], 'model': mod[:1500] if mod else None})
    return tot, bad, nontrivial


def evaluate_leaf(verdict: common.Verdict, cases: List[LeafCase], cpp: Path, drv: Path, max_reports: int = 4) -> Dict[str, Any]:
    lines = [leaf_line(c) for c in cases]
    t0 = time.time()
    impl, prob_i = run_stream(cpp, lines)
    t1 = time.time()
    model, prob_m = run_stream(drv, lines, workers=3)
    t2 = time.time()
    for p in (prob_i + prob_m)[:4]:
        verdict.broke('correspondence: ' + p)
    mism = [i for i, (a, b) in enumerate(zip(impl, model)) if a != b]
    info: Dict[str, Any] = {'cases': len(cases), 'mismatching_cases': len(mism), 't_impl_s': round(t1 - t0, 1), 't_model_s': round(t2 - t1, 1)}
    if mism:
        i = mism[0]
        d = first_diff(impl[i], model[i])
        verdict.broke(f"correspondence: model and buffer_input disagree on {len(mism)} cases; first: {lines[i]!r} impl={d[0]} model={d[1]}")
        info['first_mismatch'] = {'case': leaf_json(cases[i]), 'impl': d[0], 'model': d[1]}
    ms = set(mism)
    order = mism + [i for i in range(len(cases)) if i not in ms]
    tot = Counter()
    bad: List[Dict[str, Any]] = []
    nontrivial = set()
    work = [(cases[i], impl[i], model[i] if i < len(model) else None, lines[i]) for i in order if i < len(impl)]
    nproc = max(1, min(WORKERS, len(work) // 20000 + 1))
    size = (len(work) + nproc - 1) // nproc if work else 1
    parts = [work[i:i + size] for i in range(0, len(work), size)]
    if nproc > 1:
        with ProcessPoolExecutor(max_workers=nproc) as ex:
            results = list(ex.map(judge_leaf_chunk, parts))
    else:
        results = [judge_leaf_chunk(pt) for pt in parts]
    for t_, b_, n_ in results:
        tot.update(t_)
        bad += b_
        nontrivial.update(n_)
    bad.sort(key=lambda b: (len(b['case']['ops']) + len(b['case']['stream_hex']) // 2, len(b['case']['schedule'])))
    bad = bad[:50]
    info['t_oracle_s'] = round(time.time() - t2, 1)
    info['oracle'] = dict(tot)
    info['bad'] = bad
    info['distinct_nontrivial'] = len(nontrivial)
    pick = sorted({0, len(cases) // 4, len(cases) // 2, len(cases) - 2})
    info['samples'] = [{'case': leaf_json(cases[i]), 'records': impl[i].split(' ')[:6]} for i in pick if 0 <= i < len(cases)]
    for b in bad[:max_reports]:
        verdict.failing_input({'part': 'leaf', 'command': leaf_line_from_json(b['case']), 'config': b['case'], 'observed': b['observed'], 'model': b['model'],
                               'record_format': 'op=obs/cur:occupied:free_after_end:byte:line:column:fed:window', 'what_fails': b['fails'],
                               'oracle': 'vlib/c07.py judge_leaf()', 'broken': verdict.broken[:3]})
    return info


def leaf_line_from_json(j: Dict[str, Any]) -> str:
    return leaf_line((j['Chunk'], j['maximum'], j['eol'], b'' if j['stream_hex'] == '-' else bytes.fromhex(j['stream_hex']), tuple(j['schedule']), tuple(j['ops'])))


# ================================================================= part 3: whole runs through every input class

EXCLUDED_KINDS = {'tc_any_rf', 'tc_std_rf', 'tc_any_rn', 'tc_std_rn', 'tc_any_rf2', 'tc_std_rf2', 'tc_any_rn2', 'tc_std_rn2', 'tc_type_std_rf', 'tc_type_any_rn'}
EXCLUDED_NOTE = ("try_catch_any_* / try_catch_std_* are left out of the C07 corpus: they catch std::overflow_error and turn the permitted "
                 "deviation into a local failure or a nested parse_error by design")

TOPS = ['plain', 'seqd', 'stard', 'mustd', 'act_succ', 'act_fail', 'act_any']


def top_decl(g: Grammar, top: str, r: List[int]) -> Tuple[str, str, str]:
    """(extra declarations inside the grammar namespace, root type, action family) for one way of placing discards."""
    ns = g.ns
    n0, n1, n2 = (f"n{r[0]}", f"n{r[1 % len(r)]}", f"n{r[2 % len(r)]}")
    D = "tao::pegtl::discard"
    if top == 'plain':
        return "", f"{ns}::{n0}", f"{ns}::act0"
    if top == 'seqd':
        return f"struct top_seqd : tao::pegtl::seq< {n0}, {D}, {n1}, {D}, {n2} > {{}};", f"{ns}::top_seqd", f"{ns}::act0"
    if top == 'stard':
        return f"struct top_stard : tao::pegtl::seq< tao::pegtl::star< tao::pegtl::seq< tao::pegtl::any, {n0}, {D} > >, {n1} > {{}};", f"{ns}::top_stard", f"{ns}::act0"
    if top == 'mustd':
        return f"struct top_mustd : tao::pegtl::must< {n0}, {D}, {n1} > {{}};", f"{ns}::top_mustd", f"{ns}::act0"
    # discard via actions: attached to a wrapper rule that occurs only at the documented-safe place
    if top == 'act_succ':
        return (f"struct w_s : tao::pegtl::seq< {n0} > {{}};\n"
                f"struct top_as : tao::pegtl::seq< tao::pegtl::star< tao::pegtl::seq< tao::pegtl::any, w_s > >, {n1} > {{}};\n"
                f"template< typename R > struct act_s : act0< R > {{}};\n"
                f"template<> struct act_s< w_s > : tao::pegtl::discard_input_on_success {{}};"), f"{ns}::top_as", f"{ns}::act_s"
    if top in ('act_fail', 'act_any'):
        base = 'discard_input_on_failure' if top == 'act_fail' else 'discard_input'
        nm = 'f' if top == 'act_fail' else 'u'
        return (f"struct w_{nm} : tao::pegtl::seq< {n1} > {{}};\n"
                f"struct top_a{nm} : tao::pegtl::seq< {n0}, tao::pegtl::sor< w_{nm}, {n2} > > {{}};\n"
                f"template< typename R > struct act_{nm} : act0< R > {{}};\n"
                f"template<> struct act_{nm}< w_{nm} > : tao::pegtl::{base} {{}};"), f"{ns}::top_a{nm}", f"{ns}::act_{nm}"
    raise ValueError(top)


def uncompilable(t) -> bool:
    """`rep_opt< 0, R >` with a single rule is an ambiguous partial specialisation in internal/rep_opt.hpp
    (does not compile, whatever the input class); such grammars are regenerated."""
    if isinstance(t, T):
        if t.name == 'rep_opt' and t.args and t.args[0] == ('n', 0) and len(t.args) == 2:
            return True
        return any(uncompilable(a) for a in t.args)
    return False


def lookahead(g: Grammar) -> int:
    """The largest amount any rule of the grammar passes to size()/require()."""
    L = 2                        # eol policies ask for 2, empty() for 1
    for nd in g.nodes.values():
        if nd.kind == 'atom':
            a = nd.params
            if a[0] in ('string', 'istring'):
                L = max(L, len(a[1]))
            elif a[0] in ('bytes', 'require'):
                L = max(L, int(a[1]))
            elif a[0] == 'repOne':           # rep_one_min_max asks for in.size( Max + 1 )
                L = max(L, int(a[2]) + 1)
            elif a[0] == 'utf8Range':
                L = max(L, 4)
    return L


class RunCase:
    __slots__ = ('cid', 'g', 'top', 'roots', 'data', 'variants', 'meta')

    def __init__(self, cid, g, top, roots, data, variants, meta=None):
        self.cid, self.g, self.top, self.roots, self.data, self.variants, self.meta = cid, g, top, roots, data, variants, meta or {}


def variant_name(maximum: int, chunk: int, sched: Tuple[int, ...]) -> str:
    return f"m{maximum}c{chunk}s{'.'.join(map(str, sched)) if sched else '-'}"


def pick_variants(rng: random.Random, n: int, L: int, count: int, chunks: List[int]) -> List[str]:
    out = [variant_name(64, 64, ()), variant_name(n + L, 1, tuple([1] * (n + 2)))]    # roomy + full reads; exact fit + 1-byte reads
    while len(out) < count:
        chunk = rng.choice(chunks)
        maximum = rng.choice([1, 1, 2, 3, 4, 5, 6, 8, n, n + 1, n + L, 12, 16, 40])
        st = rng.choice(['ones', 'full', 'alt', 'rand'])
        if st == 'ones':
            sched = tuple([1] * (n + 2))
        elif st == 'full':
            sched = ()
        elif st == 'alt':
            sched = tuple([1, 2, 3] * (n // 3 + 1))
        else:
            sched = tuple(rng.randint(1, 4) for _ in range(n + 2))
        v = variant_name(max(maximum, 0), chunk, sched)
        if v not in out:
            out.append(v)
    return out


def tu_whole(groups: List[Tuple[Grammar, List[Tuple[str, List[int]]]]], files: bool = False, topfn=None, eols=('lf_crlf',)) -> Tuple[str, Dict[Tuple[str, str], int]]:
    """`eols`: end-of-line policies to instantiate each case with; the first one is keyed ( gid, top ), the others ( gid, top + '@' + eol )."""
    topfn = topfn or top_decl
    o = ['#include "vharness_buf.hpp"', '#include <iostream>', '#include <sstream>']
    idx: Dict[Tuple[str, str], int] = {}
    calls: List[str] = []
    k = 0
    for g, tops in groups:
        decls = g.cpp_decls()
        extra = []
        for top, roots in tops:
            d, root, act = topfn(g, top, roots)
            if d:
                extra.append(d)
            fn = 'compare_files' if files else 'compare_case'
            args = '( cid, bytes, path, big, small )' if files else '( cid, bytes, vs )'
            for ei, eol in enumerate(eols):
                idx[(g.gid, top if ei == 0 else f"{top}@{eol}")] = k
                calls.append(f"  case {k}: vhb::{fn}< {g.ns}::tag, {root}, {act}, {g.ns}::ctl, tao::pegtl::apply_mode::action, "
                             f"tao::pegtl::rewind_mode::required, tao::pegtl::eol::{eol} >{args}; break;")
                k += 1
        # the extra declarations go inside the grammar's namespace, before the vid specialisations
        marker = "}\ntemplate<> inline constexpr int vh::vid<"
        body = "\n".join(extra) + "\n"
        if marker in decls:
            decls = decls.replace(marker, body + marker, 1)
        else:
            decls = decls.rstrip()[:-1] + body + "}\n"
        o.append(decls)
    if files:
        o.append("static void dispatch( int cfg, const char* cid, const std::string& bytes, const std::string& path, std::size_t big, std::size_t small ) {")
    else:
        o.append("static void dispatch( int cfg, const char* cid, const std::string& bytes, const std::vector< vhb::buf_variant >& vs ) {")
    o.append("  switch( cfg ) {")
    o += calls
    o.append('  default: std::printf( "BAD cfg %d\\n", cfg );')
    o.append("  }\n}")
    o.append(r'''
static int hv( char c ) { return ( c >= '0' && c <= '9' ) ? c - '0' : ( c >= 'a' && c <= 'f' ) ? c - 'a' + 10 : 0; }
int main( int argc, char** argv ) {
  if( argc > 1 && std::string( argv[ 1 ] ) == "full" ) vhb::g_full = true;
  vh::g_step_budget = BUDGET;'''.replace('BUDGET', '0' if files else '4000'))
    for g, _ in groups:
        o.append(f"  {g.ns}::reg();")
    if files:
        o.append(r'''  std::string line;
  while( std::getline( std::cin, line ) ) {
    std::istringstream is( line );
    int cfg; std::string cid, hex, path; std::size_t big, small;
    if( !( is >> cfg >> cid >> path >> big >> small >> hex ) ) continue;
    std::string bytes;
    if( hex != "-" ) { bytes.reserve( hex.size() / 2 ); for( std::size_t i = 0; i + 1 < hex.size(); i += 2 ) bytes.push_back( char( hv( hex[ i ] ) * 16 + hv( hex[ i + 1 ] ) ) ); }
    dispatch( cfg, cid.c_str(), bytes, path, big, small );
  }
  return 0;
}''')
    else:
        o.append(r'''  std::string line;
  while( std::getline( std::cin, line ) ) {
    std::istringstream is( line );
    int cfg; std::string cid, hex, tok;
    if( !( is >> cfg >> cid >> hex ) ) continue;
    std::string bytes;
    if( hex != "-" ) for( std::size_t i = 0; i + 1 < hex.size(); i += 2 ) bytes.push_back( char( hv( hex[ i ] ) * 16 + hv( hex[ i + 1 ] ) ) );
    std::vector< vhb::buf_variant > vs;
    while( is >> tok ) { vhb::buf_variant v; if( vhb::parse_variant( tok, v ) ) vs.push_back( v ); }
    dispatch( cfg, cid.c_str(), bytes, vs );
  }
  return 0;
}''')
    return "\n".join(o) + "\n", idx


def cxx_flags(san: str) -> List[str]:
    base = ['-std=c++17', '-I', str(common.REPO / 'include'), '-I', str(common.VERIF / 'harness'), '-DTAO_PEGTL_VERIF', '-w']
    if san == 'asan+ubsan':
        return base + ['-O1', '-g0', '-fsanitize=address,undefined', '-fno-sanitize-recover=all']
    if san == 'asan-O1':
        return base + ['-O1', '-g0', '-fsanitize=address']
    return base + ['-O0', '-fsanitize=address', '-fno-omit-frame-pointer']


def parse_case_line(line: str) -> Optional[Tuple[str, List[Dict[str, Any]]]]:
    if not line.startswith('CASE '):
        return None
    parts = line.split(' | ')
    cid = parts[0][5:].strip()
    vs = []
    for p in parts[1:]:
        extra = ''
        if ' # ' in p:
            p, extra = p.split(' # ', 1)
        f = p.split(' ', 5)
        if len(f) < 6:
            return cid, [{'name': '?', 'code': 'X', 'hash': '', 'nev': 0, 'prefix': 0, 'rline': p, 'extra': extra}]
        vs.append({'name': f[0], 'code': f[1], 'hash': f[2], 'nev': int(f[3]), 'prefix': int(f[4]), 'rline': f[5].strip(), 'extra': extra})
    return cid, vs


def judge_whole(n: int, L: int, vs: List[Dict[str, Any]]) -> Tuple[List[str], Counter]:
    """The property on one case: every input class gives what memory_input (eager) gives."""
    st = Counter()
    fails: List[str] = []
    if not vs or vs[0]['name'] != 'mem_eager' or vs[0]['code'] != 'S':
        return ['no reference run'], st
    ref = vs[0]
    for v in vs[1:]:
        st['variant_runs'] += 1
        isbuf = v['name'].startswith('m') and 'c' in v['name'] and not v['name'].startswith('mem') and not v['name'].startswith('mmap')
        isstream = v['name'].startswith('cstream') or v['name'].startswith('istream') or v['name'].startswith('cstring')
        if v['code'] == 'S':
            if (v['hash'], v['nev'], v['rline']) == (ref['hash'], ref['nev'], ref['rline']):
                st['same'] += 1
                if isbuf or isstream:
                    st['same_buffered'] += 1
                    if 'short=' in v['extra'] and not v['extra'].split('short=')[1].startswith('0 '):
                        st['same_with_short_reads'] += 1
            else:
                fails.append(f"{v['name']}: result {v['rline']!r} with {v['nev']} events (trace {v['hash']}); memory_input: {ref['rline']!r} with {ref['nev']} events (trace {ref['hash']})")
        elif v['code'] == 'O':
            st['overflow'] += 1
            if not (isbuf or isstream):
                fails.append(f"{v['name']}: std::overflow_error from a memory-based input")
            elif v['prefix'] != 1:
                fails.append(f"{v['name']}: std::overflow_error, but what happened before it is not a prefix of the memory_input run")
            elif isbuf:
                m = int(v['name'][1:v['name'].index('c')])
                c = int(v['name'][v['name'].index('c') + 1:v['name'].index('s')])
                if m + c >= n + L:
                    fails.append(f"{v['name']}: std::overflow_error although the capacity {m + c} holds the whole input ({n} bytes) plus the longest look-ahead ({L})")
        else:
            fails.append(f"{v['name']}: could not be run: {v['rline']}")
    return fails, st


def compile_and_run(tag: str, batches: List[Tuple[str, List[str]]], san: str, jobs: int, timeout: int = 1200, args: List[str] = (), defs: List[str] = ()) -> Tuple[List[str], List[str], Dict[str, float]]:
    """batches: (source text, stdin lines).  Returns (stdout lines of all, problems, timing)."""
    bdir = common.BUILD / tag
    if bdir.exists():
        subprocess.run(['rm', '-rf', str(bdir)])
    bdir.mkdir(parents=True, exist_ok=True)
    timing = {'compile_cpu_s': 0.0, 'run_s': 0.0}

    def do(bi: int):
        src, feed = batches[bi]
        sp = bdir / f"tu{bi}.cpp"
        ex = bdir / f"tu{bi}"
        sp.write_text(src)
        t0 = time.time()
        cp = subprocess.run([os.environ.get('VERIF_CXX', 'g++')] + cxx_flags(san) + list(defs) + [str(sp), '-o', str(ex)], capture_output=True, text=True)
        ct = time.time() - t0
        if cp.returncode != 0:
            return [], [f"tu{bi} does not compile: " + cp.stderr[:3000]], ct, 0.0
        env = dict(os.environ, ASAN_OPTIONS='detect_leaks=0', UBSAN_OPTIONS='print_stacktrace=1')
        t0 = time.time()
        try:
            rp = subprocess.run([str(ex)] + list(args), input="\n".join(feed) + "\n", capture_output=True, text=True, timeout=timeout, env=env)
        except subprocess.TimeoutExpired:
            return [], [f"tu{bi}: timeout"], ct, time.time() - t0
        rt = time.time() - t0
        probs = []
        if rp.returncode != 0:
            probs.append(f"tu{bi}: exit {rp.returncode}: " + ' '.join(rp.stderr.split())[:2500])
        return rp.stdout.splitlines(), probs, ct, rt

    lines: List[str] = []
    problems: List[str] = []
    with ThreadPoolExecutor(max_workers=jobs) as ex:
        for ls, pr, ct, rt in ex.map(do, range(len(batches))):
            lines += ls
            problems += pr
            timing['compile_cpu_s'] += ct
            timing['run_s'] += rt
    return lines, problems, {k: round(v, 1) for k, v in timing.items()}


def gen_whole(tier: str, rng: random.Random) -> Tuple[List[Tuple[Grammar, List[Tuple[str, List[int]]], List[RunCase]]], Dict[str, Any]]:
    quick = (tier == 'quick')
    groups = []
    dist: Dict[str, Any] = {'grammars': Counter(), 'tops': Counter(), 'input_lengths': Counter(), 'kinds': Counter()}
    alpha = [97, 98, 99, 120]
    nvar = 7 if quick else 10
    chunks = [1, 3, 64] if quick else CHUNKS

    def add(g: Grammar, roots: List[int], tops: List[str], inputs: List[bytes], fam: str):
        L = lookahead(g)
        cases = []
        tlist = [(t, roots) for t in tops]
        for t in tops:
            dist['tops'][t] += 1
            for data in inputs:
                cid = f"{g.gid}_{t}_{len(cases)}"
                cases.append(RunCase(cid, g, t, roots, data, pick_variants(rng, len(data), L, nvar, chunks), {'family': fam, 'L': L}))
                dist['input_lengths'][len(data)] += 1
        dist['grammars'][fam] += 1
        for nd in g.nodes.values():
            dist['kinds'][nd.kind] += 1
        groups.append((g, tlist, cases))

    # random type-directed grammars, core + convenience kinds (rematch / minus included: they compile on buffer inputs)
    nr = 12 if quick else 48
    for i in range(nr):
        rg = corpus.RandGen(rng, core_only=(i % 4 == 0), raisers=(i % 3 != 0), n_rules=rng.randint(3, 6))
        g, _ = rg.grammar(f"c07r{i}")
        while any(uncompilable(t) for t in g.named.values()):
            dist['regenerated_rep_opt0'] = dist.get('regenerated_rep_opt0', 0) + 1
            g, _ = rg.grammar(f"c07r{i}")
        corpus.attach_actions(rng, g, rng.choice(['void', 'bool', 'void', 'none']))
        roots = sorted(g.named)[:3]
        # every way of placing discards gets its share of the grammars (round-robin, not a draw)
        tops = ['plain'] + [TOPS[1 + (i + j) % (len(TOPS) - 1)] for j in range(1 if quick else 3)]
        inputs = corpus.sample_inputs(rng, alpha, 4, 60 if quick else 200, longer=6 if quick else 14)
        add(g, roots, tops, inputs, 'random')
    # systematic family: one kind with probes in its slots; the kind itself is the first root
    ns = 8 if quick else 40
    sysg = corpus.systematic(rng, 'c07s', lambda k, f: k not in EXCLUDED_KINDS and k != 'rep_opt0', True, max_grammars=ns, ctx_names=['top', 'seq-tail', 'sor-first'],
                             actions=lambda r, g, roots: corpus.attach_actions(r, g, 'void'))
    for si, (g, roots, meta) in enumerate(sysg):
        tops = ['plain', TOPS[1 + si % (len(TOPS) - 1)]] if quick else ['plain', 'seqd', TOPS[2 + si % (len(TOPS) - 2)]]
        inputs = corpus.sample_inputs(rng, alpha, 3, 50 if quick else 120, longer=4)
        add(g, roots[:3], tops, inputs, 'systematic:' + meta['kind'])
    # leaf rules with a look-ahead of their own (multi-byte code points, digit loops, counted repetitions, keywords, …): over a buffer
    # they must ask for exactly as many bytes as they read
    zoo = [z for z in corpus.atom_zoo() if z[0] in ('u8range', 'u8not_range', 'max8', 'max25', 'max16', 'max1', 'rom12', 'rom23', 'string3', 'istring', 'bytes2',
                                                   'require2', 'keyword', 'identifier', 'two', 'three', 'pred_and', 'pred_or', 'pred_not', 'eolf', 'ellipsis', 'ranges')]
    always = ('u8range', 'u8not_range', 'max25', 'rom23')
    pick = [z for z in zoo if z[0] in always] + [z for j, z in enumerate(z for z in zoo if z[0] not in always) if not quick or (j + common.seed()) % 4 == 0]
    zalpha = [49, 50, 53, 97, 0xE2, 0x82, 0xAC, 0xC3, 0xA9, 46, 33]
    for zi, (zname, x) in enumerate(pick):
        gz = Grammar(f"c07z{zi}")
        r0 = gz.rule(P('seq', x, P('opt', x)))
        r1 = gz.rule(x)
        r2 = gz.rule(P('star', P('seq', x, P('one', C(97)))))
        gz.resolve()
        # every string over { '1', 'a' } up to length 5 (runs of the counted character of every length around Min / Max), plus samples over the wider alphabet
        zin = corpus.all_strings([49, 97], 5) + [d for d in corpus.sample_inputs(rng, zalpha, 3, 30 if quick else 160, longer=6)] + [b'\xe2\x82\xac', b'1\xe2\x82\xac\xe2\x82\xaca', b'255a256', b'11a111a1', b'...', b'....']
        add(gz, [r0.id, r1.id, r2.id], ['plain', 'seqd', 'stard'], zin, 'leaf:' + zname)
    # fixed: `everything` (F12), `bytes`, `eolf`, `istring` — atoms the generators above do not produce
    gx = Grammar('c07x0')
    a0 = gx.rule(P('seq', P('everything'), P('eof')))
    a1 = gx.rule(P('eof'))
    a2 = gx.rule(P('opt', P('any')))
    gx.resolve()
    add(gx, [a0.id, a1.id, a2.id], ['plain', 'seqd', 'mustd'], corpus.sample_inputs(rng, alpha + [10], 3, 80, longer=8), 'fixed:everything')
    gx = Grammar('c07x1')
    a0 = gx.rule(P('sor', P('seq', P('bytes', N(2)), P('istring', C(97), C(66))), P('eolf'), P('one', C(120))))
    a1 = gx.rule(P('seq', P('star', P('sor', P('eol'), P('not_one', C(99)))), P('everything')))
    a2 = gx.rule(P('eof'))
    gx.resolve()
    corpus.attach_actions(rng, gx, 'void')
    add(gx, [a0.id, a1.id, a2.id], ['plain', 'stard', 'seqd', 'act_succ'], corpus.sample_inputs(rng, [97, 98, 66, 10, 13, 120], 3, 80, longer=8), 'fixed:bytes-istring-eolf')
    for k in ('grammars', 'tops', 'input_lengths', 'kinds'):
        dist[k] = dict(sorted(dist[k].items(), key=lambda kv: (len(str(kv[0])), str(kv[0]))))
    return groups, dist


def run_whole(verdict: common.Verdict, tier: str, rng: random.Random) -> Dict[str, Any]:
    groups, dist = gen_whole(tier, rng)
    per_tu = 2
    batches = []
    owners: Dict[str, RunCase] = {}
    for i in range(0, len(groups), per_tu):
        part = groups[i:i + per_tu]
        src, idx = tu_whole([(g, tl) for g, tl, _ in part])
        feed = []
        for g, tl, cases in part:
            for c in cases:
                owners[c.cid] = c
                feed.append(f"{idx[(g.gid, c.top)]} {c.cid} {hx(c.data)} {' '.join(c.variants)}")
        batches.append((src, feed))
    lines, problems, timing = compile_and_run(f"{PROP}_whole", batches, 'asan', jobs=WORKERS + 2, defs=['-DVHB_FEWER_CHUNKS'] if tier == 'quick' else [])
    for p in problems[:4]:
        verdict.broke('whole-run harness: ' + p)
    return judge_lines(verdict, lines, owners, dist, timing, 'whole')


def judge_lines(verdict: common.Verdict, lines: List[str], owners: Dict[str, Any], dist: Dict[str, Any], timing: Dict[str, float], part: str) -> Dict[str, Any]:
    tot = Counter()
    bad = []
    seen = set()
    nontrivial = set()
    samples = []
    for l in lines:
        r = parse_case_line(l)
        if r is None:
            if l.startswith('BAD'):
                verdict.broke(f"{part}: harness rejected a line: {l[:200]}")
            continue
        cid, vs = r
        c = owners.get(cid)
        if c is None:
            continue
        seen.add(cid)
        n = len(c.data)
        fails, st = judge_whole(n, c.meta.get('L', 2), vs)
        tot.update(st)
        tot['cases'] += 1
        ref = vs[0]['rline'] if vs else ''
        tot['ref_' + (ref.split(' ')[1] if ref.startswith('R ') and len(ref.split(' ')) > 1 else 'x')] += 1
        if st['same_with_short_reads'] or st['overflow']:
            nontrivial.add((c.g.gid, c.top, c.data))
        if len(samples) < 3 and st['same_with_short_reads'] and st['overflow'] and n >= 3:
            samples.append({'grammar_cpp': [f"n{nid}: {nd.cpp}" for nid, nd in sorted(c.g.nodes.items()) if nd.flavour == 'named'], 'top': c.top,
                            'input_hex': c.data.hex(), 'variants': [f"{v['name']} {v['code']} {v['rline']}" for v in vs]})
        if fails:
            tot['bad'] += 1
            if len(bad) < 20:
                bad.append((c, vs, fails))
    missing = [cid for cid in owners if cid not in seen]
    if missing:
        verdict.broke(f"{part}: {len(missing)} cases produced no output (first: {missing[0]})")
    for c, vs, fails in bad[:4]:
        verdict.failing_input(whole_payload(c, vs, fails, part))
    return {'oracle': dict(tot), 'distinct_nontrivial': len(nontrivial), 'distribution': dist, 'timing': timing, 'bad': len(bad), 'samples': samples,
            'missing': len(missing)}


def whole_payload(c, vs, fails, part) -> Dict[str, Any]:
    d = {'part': part, 'grammar_def': grammar_to_json(c.g), 'top': c.top, 'roots': list(c.roots), 'input_hex': c.data.hex(), 'input_len': len(c.data),
         'grammar_cpp': [f"n{nid}: {nd.cpp} [{nd.flavour}]" for nid, nd in sorted(c.g.nodes.items())],
         'top_cpp': (lambda t: t[0] or t[1])((file_top if part == 'files' else top_decl)(c.g, c.top, c.roots)),
         'variants': list(c.variants) if c.variants else None, 'observed': [f"{v['name']} {v['code']} {v['hash']} {v['nev']} {v['prefix']} {v['rline']} # {v['extra']}" for v in vs],
         'what_fails': fails, 'oracle': 'vlib/c07.py judge_whole(): the memory_input (eager) run of the same case', 'meta': c.meta}
    if 'file' in c.meta:
        d['file'] = c.meta['file']
    return d


# ---------------------------------------------------------------- files through every file/stream/argv input class

def file_grammars() -> List[Tuple[Grammar, List[int], List[str], str]]:
    """Token-level grammars that make sense on long inputs; (grammar, roots, tops, what the content looks like)."""
    out = []
    # F1: tokens `ab`, `c`, newline; roots: token, eof, the loop (for `plain`: the loop without discards)
    g = Grammar('c07f1')
    tok = g.rule(P('sor', P('string', C(97), C(98)), P('one', C(99)), P('eol')))
    end = g.rule(P('eof'))
    loop = g.rule(P('seq', P('star', tok), P('must', end)))
    g.resolve()
    corpus.attach_actions(random.Random(7), g, 'void')
    out.append((g, [tok.id, end.id, loop.id], ['stard_tok', 'plain_loop'], 'tokens'))
    # F2: lines: until< eolf > per line
    g = Grammar('c07f2')
    line = g.rule(P('seq', P('not_at', P('eof')), P('until', P('eolf'))))
    end = g.rule(P('eof'))
    loop = g.rule(P('seq', P('star', line), end))
    g.resolve()
    corpus.attach_actions(random.Random(8), g, 'void')
    out.append((g, [line.id, end.id, loop.id], ['stard_tok', 'plain_loop'], 'lines'))
    # F3: everything (F12 regression), any-loop
    g = Grammar('c07f3')
    ev = g.rule(P('seq', P('everything'), P('eof')))
    anyl = g.rule(P('until', P('eof'), P('any')))
    bytes3 = g.rule(P('seq', P('star', P('bytes', N(3))), P('rep_max', N(2), P('any')), P('eof')))
    g.resolve()
    out.append((g, [ev.id, anyl.id, bytes3.id], ['plain0', 'plain1', 'plain2'], 'any'))
    return out


def file_top(g: Grammar, top: str, r: List[int]) -> Tuple[str, str, str]:
    ns = g.ns
    if top == 'stard_tok':
        return (f"struct top_ft : tao::pegtl::seq< tao::pegtl::star< tao::pegtl::seq< n{r[0]}, tao::pegtl::discard > >, tao::pegtl::must< n{r[1]} > > {{}};",
                f"{ns}::top_ft", f"{ns}::act0")
    if top == 'plain_loop':
        return "", f"{ns}::n{r[2]}", f"{ns}::act0"
    if top.startswith('plain'):
        return "", f"{ns}::n{r[int(top[5:])]}", f"{ns}::act0"
    raise ValueError(top)


def file_content(rng: random.Random, kind: str, size: int, flavour: int) -> bytes:
    if size == 0:
        return b''
    out = bytearray()
    if kind == 'tokens':
        while len(out) < size:
            out += rng.choice([b'ab', b'c', b'c', b'\n', b'ab', b'\r\n'])
        out = out[:size]
        if flavour == 1 and size >= 1:
            out[-1] = 0x78        # 'x': must< eof > fails at the very end -> parse_error with a late position
        if flavour == 2 and size >= 2:
            out[size // 2] = 0x78
    elif kind == 'lines':
        while len(out) < size:
            out += bytes(rng.choice([0x61, 0x62, 0x20, 0x7a]) for _ in range(rng.randint(0, 50))) + rng.choice([b'\n', b'\r\n', b'\n'])
        out = out[:size]
        if flavour == 1:
            out[-1] = 0x61        # no newline at the end
    else:
        out = bytearray(rng.choice([0x61, 0x0a, 0x0d, 0xff, 0x01, 0x7f]) for _ in range(size))
        if flavour == 1:
            out = bytearray(b % 255 + 1 for b in out)   # NUL-free either way; keep for argv
    return bytes(out)


def run_files(verdict: common.Verdict, tier: str, rng: random.Random) -> Dict[str, Any]:
    fdir = common.BUILD / 'c07_files'
    fdir.mkdir(parents=True, exist_ok=True)
    gs = file_grammars()
    if True:
        batches = []
        owners: Dict[str, RunCase] = {}
        dist = {'sizes': FILE_SIZES, 'grammars': [g.gid for g, _, _, _ in gs], 'files': 0}
        sizes = FILE_SIZES if tier != 'quick' else FILE_SIZES
        for g, roots, tops, kind in gs:
            # every input class under a second end-of-line policy as well (each class forwards the policy to its base on its own)
            alt = {'tokens': 'cr', 'lines': 'lf'}.get(kind)
            eols = ('lf_crlf',) + ((alt,) if alt else ())
            src, idx = tu_whole([(g, [(t, roots) for t in tops])], files=True, topfn=file_top, eols=eols)
            feed = []
            for size in sizes:
                for flavour in (0, 1, 2) if (kind == 'tokens') else (0, 1):
                    if size == 65536 and tier == 'quick' and flavour != 0:
                        continue
                    data = file_content(rng, kind, size, flavour)
                    path = fdir / f"{g.gid}_{size}_{flavour}.bin"
                    path.write_bytes(data)
                    dist['files'] += 1
                    for t in tops:
                        cid = f"{g.gid}_{t}_{size}_{flavour}"
                        small = rng.choice([8, 16, 70])
                        c = RunCase(cid, g, t, roots, data, [], {'family': 'file:' + kind, 'L': max(lookahead(g), 2), 'file': str(path), 'size': size,
                                                                 'big': size + 8, 'small': small, 'flavour': flavour})
                        owners[cid] = c
                        feed.append(f"{idx[(g.gid, t)]} {cid} {path} {size + 8} {small} {hx(data)}")
                        if alt and size <= 4097:
                            cid2 = f"{cid}@{alt}"
                            owners[cid2] = RunCase(cid2, g, t, roots, data, [], dict(c.meta, eol=alt))
                            feed.append(f"{idx[(g.gid, t + '@' + alt)]} {cid2} {path} {size + 8} {small} {hx(data)}")
            batches.append((src, feed))
        lines, problems, timing = compile_and_run(f"{PROP}_files", batches, 'asan-O1', jobs=3)
    for p in problems[:4]:
        verdict.broke('file-input harness: ' + p)
    info = judge_lines(verdict, lines, owners, dist, timing, 'files')
    # which classes were really exercised
    classes = Counter()
    for l in lines:
        r = parse_case_line(l)
        if r:
            for v in r[1]:
                classes[v['name'] + ':' + v['code']] += 1
    info['classes'] = dict(sorted(classes.items()))
    return info


# ================================================================= entry points

def evidence_of(lean, tier: str, leaf_info, leaf_dist, whole, files) -> Dict[str, Any]:
    cov: Dict[str, Any] = {
        'obligations': lean.obligations, 'discharged': lean.discharged if lean.ok else min(lean.discharged, max(0, lean.obligations - 1)),
        'checker_cmd': lean.checker_cmd, 'theorems': lean.theorems, 'axioms': lean.axioms, 'nonvacuity_examples': lean.examples,
        'trusted_base': common.TRUSTED_BASE + [
            "lean/PegtlVerif/Model/Buffer.lean: pointers as offsets into the allocation, the reader as stream + schedule of short reads; "
            "pointer sums m_current.data + amount are in Nat (no wrap-around; all PEGTL rules pass small constants)",
            "harness/leaf_c07.cpp + lean/DrvC07.lean line protocol (scripted reader: min( request, max( scheduled, 1 ), remaining )); "
            "harness/vharness_buf.hpp (case runner templated on the input object, FNV-1a trace hashes, prefix test)",
            "fread / ifstream::read / mmap / the file system are not modelled: file- and stream-based classes are explored, not proved",
        ],
    }
    ev = 0
    nt = 0
    if leaf_info:
        o = leaf_info['oracle']
        ev += o.get('records', 0)
        nt += leaf_info['distinct_nontrivial']
        cov['leaf'] = {'cases': leaf_info['cases'], 'records': o.get('records', 0), 'overflow_outcomes': o.get('ovf', 0), 'fetching_calls': o.get('fetch', 0),
                       'moving_discards': o.get('moved', 0), 'restores': o.get('restores', 0), 'end_of_stream_short': o.get('eos', 0),
                       'calls_outside_contract_skipped': o.get('ill', 0), 'atom_rule_calls': o.get('atoms', 0), 'oracle_failures': o.get('bad', 0),
                       'mismatching_cases_model_vs_impl': leaf_info['mismatching_cases'], 'distribution': leaf_dist,
                       'timing_s': {k: v for k, v in leaf_info.items() if k.startswith('t_')},
                       'exhaustive_scope': "every composition of n (= every legal reader behaviour) for streams of n = 0..8 bytes x maximum 1..40 x Chunk {1,2,3,8,64} x "
                                           "generated op scripts; every op sequence up to the stated length over the 13-letter alphabet on 48 small configurations"}
    for name, w in (('whole_runs', whole), ('file_inputs', files)):
        if w:
            o = w['oracle']
            ev += o.get('variant_runs', 0)
            nt += w['distinct_nontrivial']
            cov[name] = {'cases': o.get('cases', 0), 'variant_runs': o.get('variant_runs', 0), 'identical_to_memory_input': o.get('same', 0),
                         'identical_buffered': o.get('same_buffered', 0), 'identical_with_short_reads': o.get('same_with_short_reads', 0),
                         'overflow_error_permitted': o.get('overflow', 0), 'failing_cases': o.get('bad', 0),
                         'reference_results': {k[4:]: v for k, v in o.items() if k.startswith('ref_')},
                         'distribution': w['distribution'], 'timing_s': w['timing'], 'excluded': EXCLUDED_NOTE}
            if 'classes' in w:
                cov[name]['input_classes_and_outcomes'] = w['classes']
    cov['evaluations'] = ev
    cov['distinct_nontrivial'] = nt
    cov['rule'] = ("evaluations = leaf records (one call on the real buffer_input compared with the model and judged by the oracle) + whole-run variant runs "
                   "(one grammar/input through one non-reference input class, compared with the memory_input run); non-trivial leaf case = some call fetched "
                   "from the reader and the case also has a moving discard, an overflow, a restore or an end-of-stream short window (distinct by case line); "
                   "non-trivial whole-run case = some buffered variant agreed with memory_input after short reads, or an overflow_error occurred "
                   "(distinct by grammar, discard placement and input)")
    cov['exhaustive'] = False
    cov['programs'] = sum(sum(w['distribution']['grammars'].values()) if isinstance(w['distribution'].get('grammars'), dict) else len(w['distribution'].get('grammars', [])) for w in (whole, files) if w)
    cov['samples'] = (leaf_info['samples'] if leaf_info else []) + (whole['samples'] if whole else [])
    return {'level': 'proof', 'coverage': cov,
            'assumptions': ["agreement of model and buffer_input is established on the generated operation sequences only",
                            "the lifting of the buffer/memory simulation from atoms to whole grammars is explored by the differential whole-run comparison, not proved",
                            "discard is placed only where the documentation allows it (no backtracking to before it, no enclosing apply action)",
                            EXCLUDED_NOTE]}


def run(tier: str) -> int:
    verdict = common.Verdict(PROP, tier)
    rng = random.Random(common.seed() * 1000003 + 7)
    t0 = time.time()
    lean = common.check_lean(['PegtlVerif.Props.C07'], leanchecker=(tier == 'thorough'))
    for p in lean.problems:
        verdict.broke('lean: ' + p)
    print(f"[C07] lean obligations {lean.discharged}/{lean.obligations} ({time.time() - t0:.1f}s)")
    leaf_info = leaf_dist = whole = files = None
    cpp, drv = build_leaf(verdict)
    if cpp is not None:
        cases, leaf_dist = gen_leaf_cases(tier, rng)
        leaf_info = None
        BATCH = 300000
        for i in range(0, len(cases), BATCH):
            part = evaluate_leaf(verdict, cases[i:i + BATCH], cpp, drv, max_reports=4 if leaf_info is None or not leaf_info['bad'] else 0)
            if leaf_info is None:
                leaf_info = part
            else:
                for k in ('cases', 'mismatching_cases', 'distinct_nontrivial', 't_impl_s', 't_model_s', 't_oracle_s'):
                    leaf_info[k] = round(leaf_info[k] + part[k], 1)
                oo = Counter(leaf_info['oracle'])
                oo.update(part['oracle'])
                leaf_info['oracle'] = dict(oo)
                leaf_info['bad'] += part['bad']
                leaf_info['samples'] += part['samples'][:1]
                if 'first_mismatch' in part and 'first_mismatch' not in leaf_info:
                    leaf_info['first_mismatch'] = part['first_mismatch']
        o = leaf_info['oracle']
        print(f"[C07] leaf: {leaf_info['cases']} cases, {o.get('records', 0)} calls (overflow {o.get('ovf', 0)}, fetching {o.get('fetch', 0)}, moving discards {o.get('moved', 0)}, "
              f"restores {o.get('restores', 0)}, atom rules {o.get('atoms', 0)}, outside contract {o.get('ill', 0)}), oracle failures {o.get('bad', 0)}, model/impl mismatching cases {leaf_info['mismatching_cases']}; "
              f"impl {leaf_info['t_impl_s']}s model {leaf_info['t_model_s']}s oracle {leaf_info['t_oracle_s']}s")
        print(f"  distribution: " + json.dumps({k: v['cases'] for k, v in leaf_dist['families'].items()}))
    t1 = time.time()
    rng_files = random.Random(common.seed() * 1000003 + 77)
    with ThreadPoolExecutor(max_workers=2) as ex:
        fw = ex.submit(run_whole, verdict, tier, rng)
        ff = ex.submit(run_files, verdict, tier, rng_files)
        whole = fw.result()
        files = ff.result()
    o = whole['oracle']
    print(f"[C07] whole runs: {o.get('cases', 0)} cases, {o.get('variant_runs', 0)} runs through other input classes: identical {o.get('same', 0)} "
          f"(buffered {o.get('same_buffered', 0)}, after short reads {o.get('same_with_short_reads', 0)}), overflow_error {o.get('overflow', 0)}, failing cases {o.get('bad', 0)}; "
          f"{whole['timing']}")
    print(f"  distribution: grammars {whole['distribution']['grammars']}; discard placement {whole['distribution']['tops']}; input lengths {whole['distribution']['input_lengths']}")
    o = files['oracle']
    print(f"[C07] file/stream/argv inputs: {files['distribution']['files']} files of sizes {FILE_SIZES}, {o.get('cases', 0)} cases, {o.get('variant_runs', 0)} runs: identical {o.get('same', 0)}, "
          f"overflow_error {o.get('overflow', 0)}, failing cases {o.get('bad', 0)}; {files['timing']}; both parts wall {time.time() - t1:.0f}s")
    print(f"  classes: {files.get('classes')}")
    return verdict.finish(evidence_of(lean, tier, leaf_info, leaf_dist, whole, files))


def replay(path: str) -> int:
    """Re-evaluate the case of a replay file against the current headers: exit 1 if it still fails."""
    payload = json.loads(Path(path).read_text())

    class ReplayVerdict(common.Verdict):
        def failing_input(self, pl):
            self.violations.append(Path(path))
            self.lines.append(f"VIOLATION property={PROP} replay={path}")

    v = ReplayVerdict(PROP, 'quick')
    part = payload.get('part')
    if payload.get('kind') != 'failing-input' or part is None:
        print('replay file names no input (kind: %s); broken: %s' % (payload.get('kind'), payload.get('broken')))
        return 1
    if part == 'leaf':
        cpp, drv = build_leaf(v)
        if cpp is None:
            print('replay: build failed: ' + '; '.join(v.broken))
            return 1
        j = payload['config']
        case = (j['Chunk'], j['maximum'], j['eol'], b'' if j['stream_hex'] == '-' else bytes.fromhex(j['stream_hex']), tuple(j['schedule']), tuple(j['ops']))
        info = evaluate_leaf(v, [case], cpp, drv)
        print(f"replay leaf `{leaf_line(case)}`: oracle failures {info['oracle'].get('bad', 0)}, model/impl mismatch {info['mismatching_cases']}")
        for b in info['bad']:
            print('  observed:', b['observed'])
            print('  model:   ', b['model'])
            for f in b['fails']:
                print('  FAILS', f)
    else:
        g = grammar_from_json(payload['grammar_def'])
        data = bytes.fromhex(payload['input_hex'])
        c = RunCase('replay_0', g, payload['top'], payload['roots'], data, payload.get('variants') or [], payload.get('meta', {}))
        isfile = (part == 'files')
        if True:
            src, idx = tu_whole([(g, [(c.top, c.roots)])], files=isfile, topfn=file_top if isfile else top_decl)
            if isfile:
                fdir = common.BUILD / 'c07_files'
                fdir.mkdir(parents=True, exist_ok=True)
                fp = fdir / 'replay.bin'
                fp.write_bytes(data)
                feed = [f"0 replay_0 {fp} {c.meta.get('big', len(data) + 8)} {c.meta.get('small', 16)} {hx(data)}"]
            else:
                feed = [f"0 replay_0 {hx(data)} {' '.join(c.variants)}"]
            lines, problems, _ = compile_and_run(f"{PROP}_replay", [(src, feed)], 'asan+ubsan', jobs=1, args=['full'])
        for p in problems:
            v.broke('replay harness: ' + p)
        traces: Dict[str, List[str]] = {}
        cur = None
        for l in lines:
            if l.startswith('TRACE '):
                cur = l[6:]
                traces[cur] = []
            elif l == 'ENDTRACE':
                cur = None
            elif cur is not None:
                traces[cur].append(l)
        info = judge_lines(v, [l for l in lines if l.startswith('CASE ')], {'replay_0': c}, {}, {}, part)
        print(f"replay {part}: {info['oracle']}")
        for l in lines:
            r = parse_case_line(l)
            if r:
                fails, _ = judge_whole(len(data), c.meta.get('L', 2), r[1])
                for f in fails:
                    print('  FAILS', f)
                    nm = f.split(':')[0]
                    a, b = traces.get('mem_eager', []), traces.get(nm, [])
                    for i, (x, y) in enumerate(itertools.zip_longest(a, b)):
                        if x != y:
                            print(f"    first differing event #{i}: memory_input `{x}` vs {nm} `{y}`")
                            break
    for w in v.broken:
        print('  BROKEN', w)
    for l in v.lines:
        print(l)
    return 1 if (v.violations or v.broken) else 0
