"""C18 — depth and byte limits are enforced exactly and leave no residue.
Proof: lean/PegtlVerif/Props/C18.lean (frame of depth and end in every outcome; the depth guard admits exactly depth <= N;
the byte guard's window and when it raises).  Tie: full-trace differential run of limit_depth / limit_bytes grammars.
Oracles (implementation trace only): depth counter and end restored after every run; guarded nesting never exceeds N and a
raise happens exactly at N+1; twin comparison with the same grammar without the guard; inside a byte-limited rule no event
position exceeds start+N, no out-of-window access (hook), raise exactly when the rule stopped at the lowered end before the real end."""
from __future__ import annotations
import random
from typing import Dict, List, Tuple

from . import engine, profiles
from .diffrun import Case, Config, Trace
from .engine import Profile
from .gram import ActSpec, C, Grammar, N, P

LP, RP, A_, B_, X_ = 40, 41, 97, 98, 120


def depth_grammars(rng: random.Random, tier: str):
    out = []
    limits = [0, 1, 2, 3] if tier == 'quick' else [0, 1, 2, 3, 4, 5]
    gi = 0
    for n in limits:
        for shape in ('paren', 'right', 'mutual', 'caught', 'plus'):
            g = Grammar(f"d{gi}")
            gi += 1
            r = g.declare()
            guarded = [r]
            if shape == 'paren':
                g.define(r, P('seq', P('one', C(LP)), P('opt', r), P('one', C(RP))))
                top = g.rule(P('seq', r, P('eof')))
                alpha, mk = [LP, RP], lambda d: bytes([LP] * d + [RP] * d)
            elif shape == 'right':
                g.define(r, P('sor', P('seq', P('one', C(A_)), r), P('one', C(B_))))
                top = g.rule(P('seq', r, P('eof')))
                alpha, mk = [A_, B_], lambda d: bytes([A_] * d + [B_])
            elif shape == 'mutual':
                s = g.declare()
                g.define(r, P('seq', P('one', C(LP)), P('star', s), P('one', C(RP))))
                g.define(s, P('sor', r, P('one', C(A_))))
                guarded.append(s)
                top = g.rule(P('must', r))
                alpha, mk = [LP, RP, A_], lambda d: bytes([LP] * d + [A_] + [RP] * d)
            elif shape == 'caught':
                g.define(r, P('seq', P('one', C(LP)), P('opt', r), P('one', C(RP))))
                top = g.rule(P('sor', P('try_catch_return_false', r, P('eof')), P('star', P('any'))))
                alpha, mk = [LP, RP], lambda d: bytes([LP] * d + [RP] * d)
            else:
                g.define(r, P('seq', P('one', C(LP)), P('star', r), P('one', C(RP))))
                top = g.rule(P('plus', r))
                alpha, mk = [LP, RP], lambda d: bytes([LP] * d + [RP] * d) * 2
            g.resolve()
            for x in guarded:
                g.acts[x.id] = ActSpec(wrap=f"ld:{n}")
                g.fams.setdefault(1, {})[x.id] = ActSpec()          # twin: same grammar, no guard
            inputs = [mk(d) for d in range(0, n + 4)]
            inputs += [bytes(rng.choice(alpha + [X_]) for _ in range(rng.randint(1, 2 * n + 6))) for _ in range(12 if tier == 'quick' else 60)]
            inputs += [i[:-1] for i in inputs if i] [:10]
            g.custom_inputs = inputs
            g.guarded = [x.id for x in guarded]
            g.limit = n
            g.shape = shape
            out.append((g, [top.id], {'kind': f'limit_depth/{shape}', 'limit': n}))
    return out


def bytes_grammars(rng: random.Random, tier: str):
    out = []
    gi = 0
    limits = [0, 1, 2, 3] if tier == 'quick' else [0, 1, 2, 3, 5]
    bodies = [
        ('greedy', lambda g: P('star', P('any'))),
        ('until-eof', lambda g: P('until', P('eof'))),
        ('two', lambda g: P('seq', P('any'), P('any'))),
        ('lookahead', lambda g: P('seq', P('at', P('string', C(A_), C(B_), C(A_))), P('any'))),
        ('failing', lambda g: P('seq', P('one', C(A_)), P('one', C(B_)), P('one', C(X_)))),
        ('throwing', lambda g: P('seq', P('one', C(A_)), P('must', P('one', C(B_)), P('one', C(A_))))),
        ('rep', lambda g: P('rep_min_max', N(1), N(3), P('one', C(A_), C(B_)))),
        ('eolf', lambda g: P('seq', P('star', P('one', C(A_))), P('eolf'))),
    ]
    for n in limits:
        for bname, mk in bodies:
            g = Grammar(f"b{gi}")
            gi += 1
            b = g.rule(mk(g))
            roots = []
            for k in range(0, 4):
                roots.append(g.rule(P('seq', P('rep', N(k), P('any')), b, P('star', P('any')))).id)
            roots.append(g.rule(P('sor', P('try_catch_return_false', P('seq', P('any'), b, P('eof'))), P('star', P('any')))).id)
            g.resolve()
            g.acts[b.id] = ActSpec(wrap=f"lb:{n}")
            inputs = [bytes(t) for L in range(0, 5 if tier == 'quick' else 7) for t in __import__('itertools').product([A_, B_], repeat=L)]
            inputs += [bytes(rng.choice([A_, B_, X_, 10]) for _ in range(rng.randint(5, 12))) for _ in range(10 if tier == 'quick' else 50)]
            g.custom_inputs = inputs
            g.guarded = [b.id]
            g.limit = n
            g.shape = bname
            out.append((g, roots, {'kind': f'limit_bytes/{bname}', 'limit': n}))
    return out


def ld_id(n):
    return 1000000 + 2 * n


def lb_id(n):
    return 1000001 + 2 * n


def oracle_frame(c: Case, tr: Trace):
    o = tr.o.split()
    if len(o) < 4:
        return f"no O line: {tr.o}"
    if o[3] != '0':
        return f"depth counter is {o[3]} after the run (result {tr.result})"
    if int(o[2]) != len(c.data):
        return f"end of input is at {o[2]} after the run, data has {len(c.data)} bytes"
    if o[1] != '0':
        return "a read or advance outside the window [current, end) was reported by the TAO_PEGTL_VERIF hook"
    return None


def oracle_depth_bound(c: Case, tr: Trace):
    if c.cfg.fam != 0:
        return None
    n = c.g.limit
    open_g = 0
    worst = 0
    stack = []
    for l in tr.events:
        p = l.split()
        if p[0] == 'E':
            isg = int(p[1]) in c.g.guarded
            stack.append(isg)
            if isg:
                open_g += 1
                worst = max(worst, open_g)
        elif p[0] == 'X':
            if stack.pop():
                open_g -= 1
        elif p[0] == 'st' and int(p[1]) in c.g.guarded:
            # the rule's own match() (start hook) must only be reached at depth <= N
            if open_g > n:
                return f"guarded rule {p[1]} started at guarded nesting depth {open_g} > limit {n}"
        elif p[0] == 'ra' and int(p[1]) == ld_id(n):
            if open_g != n + 1:
                return f"limit_depth<{n}> raised at guarded nesting depth {open_g}, expected {n + 1}"
    return None


def make_twin_oracle():
    seen: Dict[Tuple, Tuple[Config, Trace]] = {}

    def needed_depth(c: Case, tr: Trace) -> int:
        open_g = worst = 0
        stack = []
        for l in tr.events:
            p = l.split()
            if p[0] == 'E':
                isg = int(p[1]) in c.g.guarded
                stack.append(isg)
                if isg:
                    open_g += 1
                    worst = max(worst, open_g)
            elif p[0] == 'X':
                if stack.pop():
                    open_g -= 1
        return worst

    def oracle(c: Case, tr: Trace):
        if c.g.shape == 'caught':
            return None
        key = (c.g.gid, c.cfg.root, c.cfg.a, c.cfg.m, c.data)
        if key not in seen:
            seen[key] = (c.cfg, tr)
            return None
        ocfg, otr = seen[key]
        if ocfg.fam == c.cfg.fam:
            return None
        guarded, plain = (tr, otr) if c.cfg.fam == 0 else (otr, tr)
        need = needed_depth(c, plain)
        n = c.g.limit
        if need <= n:
            if guarded.result != plain.result:
                return f"input needs guarded depth {need} <= {n} but the guarded run gave {guarded.result}, the unguarded {plain.result}"
        else:
            r = guarded.result.split()
            if r[1] != '2' or 'P' not in r or r[r.index('P') + 1] != str(ld_id(n)):
                return f"input needs guarded depth {need} > {n} but the guarded run gave {guarded.result}"
        return None
    return oracle


def oracle_bytes(c: Case, tr: Trace):
    n = c.g.limit
    b = c.g.guarded[0]
    size = len(c.data)
    stack = []
    inside = None      # start offset of the active guarded invocation
    su_at = None
    for l in tr.events:
        p = l.split()
        t = p[0]
        pos = None
        if t in ('E',):
            pos = int(p[4])
        elif t in ('X',):
            pos = int(p[3])
        elif t in ('st', 'su', 'fa', 'uw', 'ra', 'a0'):
            pos = int(p[2])
        elif t == 'ap':
            pos = int(p[5])
        if t == 'E':
            if int(p[1]) == b and inside is None:
                inside = pos
                su_at = None
                stack.append('B')
            else:
                stack.append('-')
        if inside is not None and pos is not None and pos > inside + n:
            return f"inside limit_bytes<{n}> rule started at {inside}: event '{l}' is at byte {pos} > {inside + n}"
        if t == 'su' and inside is not None and int(p[1]) == b:
            su_at = pos
        if t == 'ra' and int(p[1]) == lb_id(n):
            if su_at is None or su_at != inside + min(size - inside, n) or su_at == size:
                return f"limit_bytes<{n}> raised although the rule did not stop at the lowered end before the real end (success at {su_at}, start {inside}, size {size})"
        if t == 'X':
            k = stack.pop()
            if k == 'B':
                if p[2] == '1' and su_at is not None and su_at == inside + n and su_at < size:
                    return f"limit_bytes<{n}> rule started at {inside} consumed up to the limit {su_at} with more input following but did not raise"
                inside = None
    return None


# ---------------------------------------------------------------- contrib/check_bytes.hpp: oracle-only part
# check_bytes< N > lets the rule run unrestricted and throws afterwards when it consumed more than N bytes; it is not in the
# Lean model (it throws a parse_error directly, without a raise hook).  Judged on the implementation's own trace.

CB_ID = 1999998


def oracle_check_bytes(c: Case, tr: Trace):
    n = c.g.limit
    stack = []          # [id, start byte, byte at the rule's own success hook or None]
    for l in tr.events:
        p = l.split()
        t = p[0]
        if t == 'E':
            stack.append([int(p[1]), int(p[4]), None])
        elif t == 'su' and stack and stack[-1][0] == int(p[1]):
            stack[-1][2] = int(p[2])
        elif t == 'X':
            fr = stack.pop()
            if fr[0] not in c.g.guarded:
                continue
            if fr[2] is None:
                if p[2] == '1':
                    return f"guarded rule {fr[0]} returned true without a success hook"
                continue        # local failure or an exception from inside: check_bytes does nothing
            used = fr[2] - fr[1]
            if used > n and p[2] != '2':
                return f"check_bytes<{n}>: rule {fr[0]} started at {fr[1]} consumed {used} bytes and returned {p[2]} (must end in a parse_error)"
            if used <= n and p[2] != '1':
                return f"check_bytes<{n}>: rule {fr[0]} started at {fr[1]} consumed {used} <= {n} bytes but the invocation ended with {p[2]}"
    r = tr.result.split()
    if r[1] == '2' and len(r) > 6 and r[5] == 'P' and int(r[6]) == CB_ID and 'WHAT-MISMATCH' in tr.result:
        return f"what() of the check_bytes error is not source:line:column: message: {tr.result}"
    return None


def check_bytes_part(v, cov, rng, tier):
    from . import diffrun
    cases = []
    groups = bytes_grammars(rng, tier)
    for g, roots, meta in groups:
        if g.shape in ('lookahead', 'eolf'):
            continue
        for nid in g.guarded:
            g.acts[nid] = ActSpec(wrap=f"cb:{g.limit}")
        g.gid = 'c' + g.gid
        g.ns = f"g_{g.gid}"
        g.resolve()          # the C++ spellings of the named rules carry the namespace
        for root in roots:
            for (a, m) in ((1, 'r'), (0, 'o')):
                for j, d in enumerate(g.custom_inputs[: (40 if tier == 'quick' else 200)]):
                    cases.append(Case(f"{g.gid}_{root}_{a}{m}_{j}", g, Config(root, a, m, 'lf_crlf', 0, 1, 0), d))
    res = diffrun.run_impl(cases, per_tu=2, tag='C18_cb')
    st = {'grammars': len({c.g.gid for c in cases}), 'cases': len(cases), 'traces': len(res.traces), 'limit_errors': 0, 'compile_errors': len(res.compile_errors)}
    for e in res.compile_errors[:3]:
        v.broke("check_bytes driver no longer compiles against /repo: " + e[:2000])
    for cid, msg in res.crashes[:3]:
        v.broke(f"check_bytes driver aborted ({cid}): " + msg[:1500])
    by_id = {c.cid: c for c in cases}
    for cid, tr in res.traces.items():
        c = by_id.get(cid)
        if c is None or not tr.result:
            continue
        r = tr.result.split()
        if r[1] == '2' and len(r) > 6 and r[5] == 'P' and int(r[6]) == CB_ID:
            st['limit_errors'] += 1
        msg = oracle_check_bytes(c, tr) or oracle_frame(c, tr)
        if msg and len(v.violations) < 5:
            from .gram import grammar_to_json
            v.failing_input({'oracle': 'check_bytes', 'what': msg, 'grammar_def': grammar_to_json(c.g), 'grammar': c.g.proto_lines(), 'limit': c.g.limit,
                             'config': {k: getattr(c.cfg, k) for k in ('root', 'a', 'm', 'eol', 'lazy', 'unwind', 'fam')},
                             'input_hex': c.data.hex(), 'observed': {'events': tr.events[:200], 'result': tr.result}})
    cov['check_bytes'] = st
    cov['evaluations'] += st['traces']


def custom_inputs(rng, g, tier):
    return g.custom_inputs


def run(tier: str) -> int:
    twin = make_twin_oracle()
    pd = Profile('depth', depth_grammars,
                 lambda g, root, tier: [Config(root, a, m, 'lf_crlf', 0, uw, fam) for (a, m) in ((1, 'r'), (0, 'o')) for uw in (1, 0) for fam in (0, 1)],
                 custom_inputs, [('frame', oracle_frame), ('depth-bound', oracle_depth_bound), ('twin', twin)], per_tu=1, fuel=400)
    pb = Profile('bytes', bytes_grammars,
                 lambda g, root, tier: [Config(root, a, m, 'lf_crlf', lz, 1, 0) for (a, m, lz) in ((1, 'r', 0), (1, 'o', 1), (0, 'o', 0))],
                 custom_inputs, [('frame', oracle_frame), ('bytes', oracle_bytes)], per_tu=1, fuel=400)
    return engine.run_engine('C18', tier, ['PegtlVerif.Props.C18'], [pd, pb], extra=lambda v, cov, rng: check_bytes_part(v, cov, rng, tier))


def replay(path: str) -> int:
    import json
    d = json.loads(open(path).read())
    print("replay of C18 cases needs the generator attributes (limit, guarded rules); re-run ./check C18 with VERIF_SEED=%s" % d.get('seed'))
    return engine.replay('C18', path, [('frame', oracle_frame)])
