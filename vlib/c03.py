"""C03 — no rule reads or consumes outside the bounds of the input.
Proof: lean/PegtlVerif/Props/C03.lean (no invocation of the model reads or advances outside [cur, endp), for all tables,
inputs, modes; per atom from its real size guard; limit_bytes / rematch windows).
Tie / oracle (runtime part, not provable): (1) the engine corpus (all rule kinds) on exact-size heap buffers under ASan, with
the TAO_PEGTL_VERIF hook counting accesses outside [current, end) — the hook also sees logical ends inside a larger buffer
(rematch, limit_bytes) that ASan cannot; model and implementation must agree on the O line; (2) every shipped grammar
(json, uri, iri, http, abnf, integer, raw_string, utf8/16/32, uintN, json_pointer, examples lua53 and proto3) on all
truncations and seeded mutations of valid documents, under ASan + UBSan + hook."""
from __future__ import annotations
import random
import time
from typing import Dict, List, Tuple

from . import common, corpus, engine, leaf, profiles
from .diffrun import Case, Config, Trace
from .gram import ActSpec, C, Grammar, N, P

SEEDS: Dict[str, List[bytes]] = {
    'json': [b'{"a":[1,2.5e3,"x\\u00e9\\ud83d\\ude00",true,false,null],"b":{"c":-0.1E-2}}', b' [ "\xc3\xa9\xe2\x82\xac\xf0\x9f\x98\x80" , 0 ] ',
             b'"\\"\\\\\\/\\b\\f\\n\\r\\t"', b'-12.5e+10'],
    'uri': [b'http://user:pw@host.example:8080/p/a/t/h;x=1?query=1&b=%20#frag', b's://[2001:db8::ff00:42:8329]:1/', b's://[::ffff:1.2.3.4]/x',
            b'mailto:a@b.c', b's://1.2.3.4/', b's://[v1.a:b]/'],
    'uri_ref': [b'//host/path?q#f', b'../a/b', b'?q', b'#f', b'a:b'],
    'iri': [b'http://r\xc3\xa9sum\xc3\xa9.example/\xe2\x82\xac?x=\xf0\x9f\x98\x80#f'],
    'http_req': [b'GET /x?y=1 HTTP/1.1\r\nHost: a.example\r\nX-A:  b \r\n\r\nbody', b'HTTP/1.1 200 OK\r\nContent-Length: 2\r\n\r\nhi',
                 b'OPTIONS * HTTP/1.0\r\n\r\n'],
    'http_chunked': [b'4\r\nWiki\r\n5;x=y\r\npedia\r\n0\r\nT: v\r\n\r\n', b'a;q="s"\r\n0123456789\r\n0\r\n\r\n',
                     # chunk sizes at the edges of std::size_t: the length guard of chunk_data must not wrap
                     b'fffffffffffffffe\r\nAB\r\n0\r\n\r\n', b'ffffffffffffffff\r\nAB\r\n0\r\n\r\n', b'FFFFFFFFFFFFFFFD\r\nAB\r\n0\r\n\r\n',
                     b'8000000000000000\r\nAB\r\n0\r\n\r\n', b'10000000000000002\r\nAB\r\n0\r\n\r\n', b'7fffffffffffffff;e\r\nAB\r\n0\r\n\r\n'],
    'json_pointer': [b'/a~1b/0/~0x', b''],
    'ints': [b'-12,u34,m65535,+7,0,m65536,u007', b'-0,+x'],
    'raw': [b'[==[ab\n]]x]==]tail[[\r\ny]]', b'[[', b'[=[]]]=]', b'[====['],
    'utf8s': [b'A\xc3\xa9\xe2\x82\xac\xf0\x9f\x98\x80\xed\xa0\x80\xf4\x90\x80\x80\xc0\x80\xe0\x9f\xbf', b'\xf0\x9f\x98', b'\xe2\x82'],
    'utf16s': [b'\x00A\xd8\x3d\xde\x00\xde\x00\xd8\x3d\x01\x00', b'\xd8\x3d\xde', b'\x3d\xd8\x00\xde'],
    'utf32s': [b'\x00\x00\x00A\x00\x01\xf6\x00\x41\x00\x00\x00\x00\x11\x00\x00\x00\x00\xd8\x00', b'\x00\x00\x00', b'\x00\x01\xf6\x00\x00'],
    'rom': [b'aaaaabcABCxyzxyaa\r\n\nab', b'aax', b'abAB'],
    'ident': [b'if ifx _a1 #!/bin/sh\nif-- --- ====', b'#!', b'i'],
    'abnf': [b'\r\nAf09 \t~\x7f\x00\xff\r'],
    'lua53': [b'#!/usr/bin/lua\nlocal a = {1, "x", [[raw]], b = function(x, ...) return x + 1 end}\nif a then print(a.b(2)) else goto e end -- c\n::e:: --[==[ long\n]==]\nfor i=1,10 do a[i] = i // 2 end\n',
              b'x = 0x1p4 .. "\\z  \\x41\\u{20AC}"'],
    'proto3': [b'syntax = "proto3";\npackage a.b;\nimport public "x.proto";\nmessage M { int32 a = 1; repeated string b = 2 [deprecated=true]; map<string, M> c = 3; enum E { Z = 0; } oneof o { bool d = 4; } reserved 5, 6 to 7; }\nservice S { rpc F (M) returns (stream M); }\n'],
}

MUT_BYTES = [0x00, 0xff, 0x22, 0x5c, 0x5b, 0x5d, 0x0a, 0x0d, 0x30, 0x80, 0x7b, 0x25]

# numerals at the edges of the integer types a grammar may convert to (lengths, counts, sizes): substituted for digit runs
EDGE_NUMERALS = [b'0', b'255', b'256', b'65535', b'65536', b'4294967295', b'4294967296', b'18446744073709551614', b'18446744073709551615',
                 b'18446744073709551616', b'fffffffffffffffe', b'ffffffffffffffff', b'FFFFFFFF', b'7fffffffffffffff', b'8000000000000000',
                 b'10000000000000001', b'99999999999999999999']


def edge_numeral_variants(s: bytes) -> List[bytes]:
    """Each maximal run of (hex) digits of the seed replaced, one at a time, by every edge numeral."""
    import re as _re
    out = []
    for m in _re.finditer(rb'[0-9A-Fa-f]+', s):
        if not any(48 <= c <= 57 for c in m.group()):
            continue
        for e in EDGE_NUMERALS:
            out.append(s[:m.start()] + e + s[m.end():])
    return out


def cases_for(rng: random.Random, tier: str) -> List[Tuple[str, str, bytes]]:
    out = []
    per_seed_mut = 40 if tier == 'quick' else 400
    for gname, seeds in SEEDS.items():
        for s in seeds:
            modes = ['eager', 'lazy'] + (['crlf'] if gname.startswith('http') or gname in ('rom', 'raw') else [])
            for k in range(len(s) + 1):
                out.append((gname, modes[k % len(modes)], s[:k]))            # every truncation
            ev = edge_numeral_variants(s)
            for j, d in enumerate(ev if tier != 'quick' else ev[: 3 * len(EDGE_NUMERALS)]):
                out.append((gname, modes[j % len(modes)], d))
            for _ in range(per_seed_mut):
                if not s:
                    break
                b = bytearray(s)
                for _ in range(rng.choice([1, 1, 2])):
                    op = rng.random()
                    i = rng.randrange(len(b)) if b else 0
                    if op < 0.5 and b:
                        b[i] = rng.choice(MUT_BYTES)
                    elif op < 0.75 and b:
                        del b[i]
                    else:
                        b.insert(i, rng.choice(MUT_BYTES))
                cut = rng.randint(0, len(b))
                out.append((gname, rng.choice(modes), bytes(b[:cut]) if rng.random() < 0.3 else bytes(b)))
    return out


def shipped_run(v: common.Verdict, rng: random.Random, tier: str, report: str = 'window') -> Dict:
    """report='window': C03 (hook, cursor, sanitizer).  report='rewind': C02 — the driver's monitor control counts invocations that
    failed locally under rewind_mode::required with the cursor moved; only those are reported."""
    src = common.VERIF / 'harness' / 'leaf_c03.cpp'
    exe = common.BUILD / ('c03' if report == 'window' else 'c02_shipped') / 'leaf_c03'
    t0 = time.time()
    ok, err = leaf.compile_cpp(src, exe, san=('asan+ubsan' if report == 'window' else 'none'), extra=['-I', str(common.REPO / 'src' / 'example' / 'pegtl')])
    if not ok:
        v.broke("correspondence: harness/leaf_c03.cpp no longer compiles against the headers: " + err[-2500:])
        return {'compiled': False}
    cases = cases_for(rng, tier)
    feed = [f"{g} {m} {d.hex() if d else '-'}" for g, m, d in cases]
    stats = {'compiled': True, 'compile_s': round(time.time() - t0, 1), 'cases': len(cases), 'by_grammar': {}, 'results': {},
             'aborts': 0, 'oob_hits': 0}
    start = 0
    attempts = 0
    while start < len(feed) and attempts < 8:
        attempts += 1
        p = leaf.run_exe(exe, "\n".join(feed[start:]) + "\n")
        lines = p.stdout.splitlines()
        cur = None
        done = 0
        for ln in lines:
            if ln.startswith('CASE '):
                cur = ln[5:]
            elif ln.startswith('REWIND '):
                stats['rewind_violations'] = stats.get('rewind_violations', 0) + 1
                if report == 'rewind' and len(v.violations) < 5:
                    f = ln.split(' ', 2)
                    v.failing_input({'oracle': 'rewind-monitor', 'what': f"{f[1]} invocation(s) failed locally under rewind_mode::required with the cursor moved; first: {f[2]}",
                                     'case': cur, 'observed': ln})
            elif cur is not None:
                f = ln.split()
                done += 1
                g = cur.split()[0]
                stats['by_grammar'][g] = stats['by_grammar'].get(g, 0) + 1
                res = f[0].split(':')[0]
                stats['results'][res] = stats['results'].get(res, 0) + 1
                consumed, size, oob = int(f[-3]), int(f[-2]), int(f[-1])
                if oob != 0:
                    stats['oob_hits'] += 1
                    if report == 'window' and len(v.violations) < 5:
                        v.failing_input({'oracle': 'hook', 'what': f"{oob} read(s)/advance(s) outside [current, end) reported by the TAO_PEGTL_VERIF hook",
                                         'case': cur, 'observed': ln})
                if report == 'window' and consumed > size and len(v.violations) < 5:
                    v.failing_input({'oracle': 'cursor', 'what': f"cursor advanced to {consumed} past the end {size}", 'case': cur, 'observed': ln})
                cur = None
        if p.returncode == 0:
            break
        # sanitizer abort: the announced case without a result line
        stats['aborts'] += 1
        if cur is not None and report == 'window' and len(v.violations) < 5:
            v.failing_input({'oracle': 'sanitizer', 'what': "AddressSanitizer/UBSan abort while parsing this input with a shipped grammar",
                             'case': cur, 'report': p.stderr[:3000]})
        elif cur is None:
            v.broke("shipped-grammar driver exited abnormally without an announced case: " + p.stderr[:1500])
            break
        start += done + 1
    stats['samples'] = [f"{g} {m} {d.hex()}" for g, m, d in rng.sample(cases, 3)]
    return stats


def oracle_window(c: Case, tr: Trace):
    o = tr.o.split()
    if len(o) >= 2 and o[1] != '0':
        return "a read or advance outside the window [current, end) was reported by the TAO_PEGTL_VERIF hook"
    r = tr.result.split()
    if len(r) >= 3 and int(r[2]) > len(c.data):
        return f"cursor at {r[2]} past the end of the {len(c.data)}-byte input"
    return None


def bytes_profile():
    """rules under limit_bytes and rematch: logical ends inside a larger buffer"""
    from . import c18
    return engine.Profile('window', c18.bytes_grammars,
                          lambda g, root, tier: [Config(root, 1, m, 'lf_crlf', lz, 1, 0) for (m, lz) in (('r', 0), ('o', 1))],
                          c18.custom_inputs, [('window', oracle_window)], per_tu=1, fuel=400)


def run(tier: str) -> int:
    # engine part via run_engine, then the shipped-grammar part appended to the same verdict/evidence
    ORACLES = [('window', oracle_window)]
    ps = [
        profiles.systematic_profile('sys', lambda k, f: True, True, 24, 120, ORACLES, heavy=True,
                                    inputs=profiles.inputs_exhaustive(3, 5, cap_q=90, cap_t=600), per_tu=2,
                                    configs=profiles.amr_configs(ams=((1, 'r'), (0, 'o')), lazies=(0, 1)),
                                    ctx_names=['top', 'sor-first', 'seq-tail', 'in-at', 'in-tcrf']),
        profiles.random_profile('rnd', False, True, 16, 80, ORACLES, actions_mode='bool',
                                inputs=profiles.inputs_exhaustive(4, 6, cap_q=150, cap_t=900), per_tu=2,
                                configs=profiles.amr_configs(ams=((1, 'r'), (1, 'o')), eols=('lf_crlf', 'crlf'))),
        bytes_profile(),
        profiles.atoms_profile('atoms', ORACLES, cap_q=120, cap_t=500, per_tu=3),
    ]

    def extra(v: common.Verdict, cov: Dict, rng: random.Random):
        st = shipped_run(v, rng, tier)
        cov['shipped_grammars'] = st
        cov['evaluations'] += st.get('cases', 0)
        cov['trusted_base'].append("runtime memory safety is observed (ASan, UBSan, TAO_PEGTL_VERIF hook in memory_input), not proved; memcmp-style reads are visible to ASan only at the true end of the allocation")
    return engine.run_engine('C03', tier, ['PegtlVerif.Props.C03'], ps, extra=extra)


def replay(path: str) -> int:
    import json
    d = json.loads(open(path).read())
    if 'case' in d:
        src = common.VERIF / 'harness' / 'leaf_c03.cpp'
        exe = common.BUILD / 'c03' / 'leaf_c03'
        ok, err = leaf.compile_cpp(src, exe, san='asan+ubsan', extra=['-I', str(common.REPO / 'src' / 'example' / 'pegtl')])
        if not ok:
            print(err[-2000:])
            return 1
        p = leaf.run_exe(exe, d['case'] + "\n")
        print(p.stdout[-500:], p.stderr[-1500:])
        bad = p.returncode != 0 or any(l.split()[-1] != '0' for l in p.stdout.splitlines() if not l.startswith('CASE'))
        if bad:
            print(f"VIOLATION property=C03 replay={path}")
        return 1 if bad else 0
    return engine.replay('C03', path, [('window', oracle_window)])
