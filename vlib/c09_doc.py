"""C09, documentation tie: the `[Equivalent] to …` lines of doc/Rule-Reference.md against the formal semantics.

`Spec.expandKind` (lean/PegtlVerif/Spec/Peg.lean) — the expansion every C09 theorem is measured against — is transcribed by
hand from the rule reference.  This part reads the reference itself: for every rule heading (`###### \\`if_must< R, S... >\\``)
and every `[Equivalent] to \\`…\\`` line below it, both template expressions are instantiated with concrete rules (several
assignments: one-byte atoms, consume-then-fail sequences, nullable and raising rules; packs with one and with two elements;
numbers), resolved by vlib/gram.py into ONE node table, and evaluated by the Lean driver's formal evaluator (`SEM`: `semEval`
over `Gof`, i.e. `expandKind` of the rule's own kind on the left, the kinds of the documented combination on the right) on
every input up to a length bound.  The two must agree on result, consumed length and blamed rule.

What this ties: the reference's statements <-> `expandKind` (and vlib/gram.py's reading of rules.hpp).  It does not involve the
C++ code; the code <-> `expandKind` tie is the spec-evaluator oracle of the differential run.
Entries that name something the resolver does not know (ICU rules, `padl`, …) are counted as skipped in the evidence."""
from __future__ import annotations
import itertools
import re
import subprocess
from typing import Dict, List, Optional, Tuple

from . import common
from .gram import C, Grammar, N, P, T

A_, B_, C_, X_ = 97, 98, 99, 120

# headings whose "[Equivalent] to seq< R... >, but:" differs in what the property does not talk about (actions, states, control,
# exception conversion): compared wrt. parsing only, which is what the formal evaluator computes
PARSING_ONLY = ('action', 'control', 'disable', 'enable', 'state', 'discard')
SKIP_HEADS = ('try_catch', 'apply', 'apply0', 'if_apply', 'TAO_PEGTL')


class Unresolvable(Exception):
    pass


def tokenize(s: str) -> List[str]:
    toks = re.findall(r"'(?:\\.|[^'])'|\.\.\.|[A-Za-z_][A-Za-z_0-9:]*|0x[0-9a-fA-F]+|\d+|[<>,=\-]", s)
    return toks


class Parser:
    """expr := name [ '<' args '>' ] [ '...' ] | char | number [ '-' number ]"""

    def __init__(self, toks: List[str]):
        self.t = toks
        self.i = 0

    def peek(self):
        return self.t[self.i] if self.i < len(self.t) else None

    def take(self):
        x = self.peek()
        self.i += 1
        return x

    def expr(self):
        x = self.take()
        if x is None:
            raise Unresolvable("unexpected end")
        if x.startswith("'"):
            node = ('chr', x)
        elif re.fullmatch(r'0x[0-9a-fA-F]+|\d+', x):
            node = ('num', int(x, 0))
        else:
            args = None
            if self.peek() == '<':
                self.take()
                args = []
                while self.peek() != '>':
                    args.append(self.expr())
                    if self.peek() == ',':
                        self.take()
                    elif self.peek() != '>':
                        raise Unresolvable(f"unexpected token {self.peek()}")
                self.take()
            node = ('id', x, args)
        if self.peek() == '-':
            self.take()
            rhs = self.expr()
            node = ('sub', node, rhs)
        if self.peek() == '=':          # default argument in a heading: `T = S`
            self.take()
            node = ('dflt', node, self.expr())
        if self.peek() == '...':
            self.take()
            node = ('pack', node)
        return node


def parse_expr(s: str):
    p = Parser(tokenize(s))
    e = p.expr()
    if p.peek() is not None:
        raise Unresolvable(f"trailing tokens in {s!r}")
    return e


def chr_val(lit: str) -> int:
    body = lit[1:-1]
    if body.startswith('\\'):
        return {'n': 10, 'r': 13, 't': 9, 'v': 11, 'f': 12, '0': 0, '\\': 92, "'": 39}[body[1]]
    return ord(body)


RULE_VARS = ('R', 'S', 'T', 'P', 'M', 'R1')
NUM_VARS = ('Num', 'Min', 'Max')
CHAR_VARS = ('C', 'D', 'E', 'C1', 'D1', 'C2', 'D2')


def build(e, env: Dict[str, object]):
    """-> list of gram arguments (a pack expands to several)."""
    k = e[0]
    if k == 'pack':
        inner = e[1]
        # a pack variable, or a pattern containing exactly one pack variable: expand element-wise
        pv = [v for v in pack_vars(inner) if isinstance(env.get(v), list)]
        if not pv:
            raise Unresolvable("pack expansion without a pack variable")
        n = len(env[pv[0]])
        out = []
        for j in range(n):
            env2 = dict(env)
            for v in pv:
                env2[v] = env[v][j]
            out += build(inner, env2)
        return out
    if k == 'chr':
        return [C(chr_val(e[1]))]
    if k == 'num':
        return [('num', e[1])]
    if k == 'sub':
        a, b = build(e[1], env), build(e[2], env)
        return [('num', a[0][1] - b[0][1])]
    if k == 'dflt':
        return build(e[1], env)
    name, args = e[1], e[2]
    if args is None and name in env:
        v = env[name]
        if isinstance(v, list):
            if len(v) == 1:       # "when `R...` is a single rule"
                return [v[0]]
            raise Unresolvable(f"pack variable {name} used without expansion")
        return [v]
    if args is None and name in NUM_VARS + CHAR_VARS + RULE_VARS:
        raise Unresolvable(f"unbound variable {name}")
    flat = []
    for a in (args or []):
        flat += build(a, env)
    conv = []
    for a in flat:
        if isinstance(a, tuple) and a and a[0] == 'num':
            conv.append(N(a[1]) if name not in ('one', 'not_one', 'range', 'not_range', 'ranges', 'string', 'istring', 'two', 'three', 'keyword', 'forty_two') else C(a[1]))
        else:
            conv.append(a)
    return [P(name, *conv)]


def pack_vars(e) -> List[str]:
    k = e[0]
    if k == 'id':
        out = [e[1]] if e[2] is None else []
        for a in (e[2] or []):
            out += pack_vars(a)
        return out
    if k in ('pack', 'dflt'):
        return pack_vars(e[1])
    if k == 'sub':
        return pack_vars(e[1]) + pack_vars(e[2])
    return []


def head_vars(e) -> Tuple[str, List[Tuple[str, bool]]]:
    """heading expression -> (rule name, [(variable, is_pack)])"""
    assert e[0] == 'id'
    vs = []
    for a in (e[2] or []):
        pk = False
        if a[0] == 'pack':
            pk, a = True, a[1]
        if a[0] == 'dflt':
            a = a[1]
        if a[0] == 'id' and a[2] is None:
            vs.append((a[1], pk))
        else:
            raise Unresolvable("heading argument is not a variable")
    return e[1], vs


def doc_entries(md: str):
    head = None
    for line in md.splitlines():
        m = re.match(r"###### `([^`]+)`", line)
        if m:
            head = m.group(1)
            continue
        m = re.search(r"\[Equivalent\] to `([^`]+)`(.*)", line)
        if m and head:
            yield head, m.group(1), m.group(2).strip()


def probe_sets():
    a = lambda: P('one', C(A_))
    b = lambda: P('one', C(B_))
    c = lambda: P('one', C(C_))
    ab = lambda: P('seq', P('one', C(A_)), P('one', C(B_)))
    opta = lambda: P('opt', P('one', C(A_)))
    mustb = lambda: P('seq', P('one', C(A_)), P('must', P('one', C(B_))))
    return [
        {'R': a, 'S': b, 'T': c, 'P': c, 'M': ab},
        {'R': ab, 'S': ab, 'T': ab, 'P': c, 'M': P and (lambda: P('seq', P('any'), P('any')))},
        {'R': opta, 'S': b, 'T': opta, 'P': c, 'M': a},
        {'R': a, 'S': mustb, 'T': ab, 'P': b, 'M': ab},
        {'R': b, 'S': a, 'T': a, 'P': a, 'M': opta},
    ]


def instantiate(head: str, rhs: str, tail: str):
    """-> list of (lhs T, rhs T, description) or raises Unresolvable."""
    he, re_ = parse_expr(head), parse_expr(rhs)
    name, hv = head_vars(he) if he[2] is not None else (he[1], [])
    if any(name.startswith(s) for s in SKIP_HEADS):
        raise Unresolvable("not a parsing equivalence (exceptions / actions)")
    if ', but' in tail and name not in PARSING_ONLY:
        raise Unresolvable("'equivalent, but …': not an exact equivalence")
    out = []
    special_rep = (name == 'rep' and '...' in rhs and 'seq< R... >, ...' in rhs)
    for pi, ps in enumerate(probe_sets()):
        for packn in (1, 2):
            if 'single rule' in tail and packn != 1:
                continue
            env: Dict[str, object] = {}
            order = ['R', 'S', 'T', 'P', 'M']
            for v, pk in hv:
                if v in RULE_VARS or v == 'A' or v == 'C' and name in ('control',):
                    base = ps.get(v, ps['R'])
                    if pk:
                        others = [ps[o] for o in order if o != v]
                        env[v] = [base()] + [others[j]() for j in range(packn - 1)]
                    else:
                        env[v] = base()
                elif v in NUM_VARS:
                    env[v] = ('num', {'Num': 2, 'Min': 1, 'Max': 3}[v])
                elif v in CHAR_VARS:
                    vals = {'C': A_, 'D': C_, 'E': X_, 'C1': A_, 'D1': B_, 'C2': X_, 'D2': X_ + 2}
                    env[v] = [C(A_), C(B_)][:packn] if pk else C(vals[v])
                else:
                    raise Unresolvable(f"heading variable {v}")
            if isinstance(env.get('R'), list):
                env['R1'] = env['R'][0]
            if name in ('action', 'state', 'control'):
                raise Unresolvable("needs a non-rule template argument")
            try:
                lhs = build(he, env)
                if special_rep:
                    body = P('seq', *env['R'])
                    r = [P('seq', *[body for _ in range(env['Num'][1])])]
                else:
                    r = build(re_, env)
            except KeyError as e:
                raise Unresolvable(f"unknown symbol {e}")
            if len(lhs) != 1 or len(r) != 1:
                raise Unresolvable("not a single expression")
            out.append((lhs[0], r[0], f"probes#{pi} pack={packn}"))
            if not hv:
                return out
    return out


def run_sem(lines: List[str]) -> List[str]:
    p = subprocess.run([common.driver_path()], input="\n".join(lines) + "\n", capture_output=True, text=True)
    if p.returncode != 0:
        raise RuntimeError("model driver failed: " + p.stderr[:1500])
    return p.stdout.splitlines()


def doc_part(v: common.Verdict, cov: Dict, rng, tier: str):
    md = (common.REPO / 'doc' / 'Rule-Reference.md').read_text()
    maxlen = 4 if tier == 'quick' else 5
    alpha = [A_, B_, C_, X_]
    inputs = [bytes(t) for L in range(0, maxlen + 1) for t in itertools.product(alpha, repeat=L)]
    ascii_inputs = [bytes([x]) for x in range(0, 256)] + [bytes([x, y]) for x in (46, 65, 95, 97, 48, 10, 13, 35, 33) for y in (46, 65, 95, 97, 48, 10, 13, 35, 33, 120)] \
        + [b'...', b'..', b'#!ab\ncd', b'#!', b'#x', b'\r\n', b'aa', b'aaa', b'a' * 42, b'a' * 41, b'a' * 43, b'ab1_ x', b'ab', b'abx', b'ab_']
    st = {'entries': 0, 'compared_entries': 0, 'instantiations': 0, 'evaluations': 0, 'skipped': {}, 'disagreements': 0}
    seen = set()
    gi = 0
    for head, rhs, tail in doc_entries(md):
        key = (head, rhs)
        if key in seen:
            continue
        seen.add(key)
        st['entries'] += 1
        try:
            insts = instantiate(head, rhs, tail)
            if not insts:
                raise Unresolvable("no instantiation")
            jobs = []
            for lhs, r, desc in insts:
                g = Grammar(f"doc{gi}")
                gi += 1
                a, b = g.rule(lhs), g.rule(r)
                g.resolve()
                jobs.append((g, a.id, b.id, desc))
        except (Unresolvable, ValueError, KeyError, AssertionError, IndexError) as e:
            st['skipped'][f"{head} == {rhs}"] = str(e)[:80]
            continue
        st['compared_entries'] += 1
        uses_ascii = not re.search(r"\b(R|S|T|P|M)\b", head)
        ins = ascii_inputs if uses_ascii else inputs
        for g, ia, ib, desc in jobs:
            st['instantiations'] += 1
            lines = g.proto_lines() + ["FUEL 400"]
            for j, d in enumerate(ins):
                hx = d.hex() if d else '-'
                lines.append(f"SEM L{j} {ia} lf_crlf {hx}")
                lines.append(f"SEM R{j} {ib} lf_crlf {hx}")
            res = {}
            for l in run_sem(lines):
                if l.startswith('SEM '):
                    f = l.split(' ', 2)
                    res[f[1]] = f[2] if len(f) > 2 else ''
                elif l.startswith('BAD'):
                    raise RuntimeError(f"driver rejected the table of {head}: {l}")
            for j, d in enumerate(ins):
                st['evaluations'] += 1
                la, rb = res.get(f"L{j}"), res.get(f"R{j}")
                if la != rb and not (la == 'none' or rb == 'none'):
                    st['disagreements'] += 1
                    if st['disagreements'] <= 3:
                        v.broke(f"C09 documentation tie: doc/Rule-Reference.md states `{head}` is equivalent to `{rhs}`, but under the formal semantics "
                                f"(expandKind) they differ on input {d.hex() or '-'} ({desc}): rule -> '{la}', documented combination -> '{rb}'; table: {g.proto_lines()}")
                    break
    st['compared'] = sorted(h for h in {hd for (hd, _r) in seen} if not any(k.startswith(h + ' ==') for k in st['skipped']))[:80]
    cov['documentation_tie'] = st
    cov['evaluations'] += st['evaluations']
