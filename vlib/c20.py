"""c20.py — check for property C20: the URI grammar accepts exactly RFC 3986 URI references.

1. Lean obligations: Props/C20.lean (theorems + examples) and Audit/C20Sync.lean:
   `Gen.uri = Expected.uri` (Gen/Uri.lean is re-translated from /repo's contrib/uri.hpp + contrib/abnf.hpp
   by vlib/c20_translate.py on every run, before `lake build`) and `Gen.rfc3986 = Spec.rfc3986`
   (Gen/Rfc3986.lean is re-translated from spec/rfc3986.abnf, the file the Python oracle reads).
2. Correspondence: harness/leaf_c20.cpp (real `parse< seq< uri::X, eof > >`, exact-size heap buffers,
   ASan+UBSan) against the native Lean driver drv_c20, which evaluates on the committed table
   `Expected.uri` both the executable model (`run`) and the PEG specification (`semEvalE`): result,
   position and blamed rule of a global failure are compared line by line.
3. Oracle: an independent Python recogniser for the RFC 3986 ABNF (vlib/c20_abnf.py: memoised span
   recogniser over spec/rfc3986.abnf, explores every alternative and repetition count, hence
   language-exact), evaluated on every observation of the implementation:
     accepted  <=>  derivable;  parse_error counts as rejection;  any other exception is a violation.
   The Lean spec recogniser (`Abnf.recognise rfc3986`, printed by the driver) must agree with it.
   Known finding F9 (`host = sor< IP_literal, IPv4address, reg_name >` commits to an IPv4 prefix) is
   recognised by a precise predicate, see `classify_f9`; every other disagreement is a violation.
"""
from __future__ import annotations
import itertools
import json
import random
import re
import time
from collections import Counter
from concurrent.futures import ProcessPoolExecutor, ThreadPoolExecutor
from pathlib import Path
from typing import Any, Dict, Iterable, List, Optional, Tuple

from . import common, leaf
from . import c20_abnf as abnf
from . import c20_translate as tr

PROP = 'C20'
HARNESS = common.VERIF / 'harness' / 'leaf_c20.cpp'
ABNF_FILE = common.VERIF / 'spec' / 'rfc3986.abnf'
GEN_URI = common.LEAN / 'PegtlVerif' / 'Gen' / 'Uri.lean'
GEN_RFC = common.LEAN / 'PegtlVerif' / 'Gen' / 'Rfc3986.lean'
EXPECTED_URI = common.LEAN / 'PegtlVerif' / 'Expected' / 'Uri.lean'
BDIR = common.BUILD / 'c20'
JOBS = 4
MAX_REPORT = 12

TOPS = ('URI', 'URI_reference', 'absolute_URI', 'IPv4address', 'IPv6address')
URI_TOPS = TOPS[:3]
RFC_NAME = {t: t.replace('_', '-') for t in TOPS}


def hexs(b: bytes) -> str:
    return b.hex() if b else '-'


def unhex(h: str) -> bytes:
    return b'' if h == '-' else bytes.fromhex(h)


# ---------------------------------------------------------------- Gen files

def render_gen_rfc(rules) -> str:
    lines = [
        "/-",
        "  Gen/Rfc3986.lean — spec/rfc3986.abnf parsed by vlib/c20_abnf.py and rendered as Lean data.",
        "  REGENERATED ON EVERY RUN of ./check C20 — do not edit.  Compared with Spec/Rfc3986.lean in Audit/C20Sync.lean.",
        "-/",
        "import PegtlVerif.Spec.Rfc3986",
        "",
        "namespace Pegtl.Gen",
        "open Pegtl.Spec.Abnf Pegtl.Spec.Rfc3986",
        "",
        abnf.render_lean_rules(rules, 'rfc3986'),
        "",
        "def ruleNames : List (String × RuleName) := [" + ", ".join(f'("{n}", .{abnf.lean_name(n)})' for n in rules) + "]",
        "",
        "end Pegtl.Gen",
    ]
    return "\n".join(lines) + "\n"


def write_gen(v: Optional[common.Verdict]):
    """Translate the headers and the ABNF file; returns (translation | None, rules | None)."""
    GEN_URI.parent.mkdir(parents=True, exist_ok=True)
    t = rules = None
    try:
        t = tr.translate(common.REPO / 'include')
        GEN_URI.write_text(tr.render_lean(t, 'Gen'))
    except (tr.TranslateError, OSError, KeyError, IndexError, AssertionError, ValueError) as e:
        if v:
            v.broke(f"C20_sync: cannot translate contrib/uri.hpp: {e}")
        GEN_URI.write_text("import PegtlVerif.Model.Basic\nnamespace Pegtl.Gen\ndef uri : Pegtl.Grammar := #[]\n"
                           "def uriNames : List (String × Nat) := []\ndef uriTops : List (String × Nat) := []\nend Pegtl.Gen\n")
    try:
        rules = abnf.parse_abnf(ABNF_FILE.read_text())
        GEN_RFC.write_text(render_gen_rfc(rules))
    except (abnf.AbnfError, OSError) as e:
        if v:
            v.broke(f"spec/rfc3986.abnf cannot be parsed: {e}")
    return t, rules


# ---------------------------------------------------------------- names of blamed rules

def norm_cpp(s: str) -> str:
    """Canonical spelling shared by gram.py's C++ names and the demangled names in parse_error messages."""
    s = s.replace(' ', '').replace('tao::pegtl::', '').replace('ascii::', '')
    s = re.sub(r"\(char\)(\d+)", lambda m: f"char({m.group(1)})", s)

    def lit(m):
        body = m.group(1)
        esc = {'n': 10, 't': 9, 'r': 13, '0': 0, '\\': 92, "'": 39}
        c = esc.get(body[1], ord(body[1])) if body[0] == '\\' else ord(body)
        return f"char({c})"
    return re.sub(r"'((?:\\.|[^\\']))'", lit, s)


# ---------------------------------------------------------------- F9

IPV4_PREFIX = re.compile(rb'(?:(?:25[0-5]|2[0-4][0-9]|1[0-9][0-9]|[1-9][0-9]|[0-9])\.){3}(?:25[0-5]|2[0-4][0-9]|1[0-9][0-9]|[1-9][0-9]|[0-9])(?![0-9])')


def host_span(rec: abnf.Recogniser, top: str, s: bytes) -> Optional[Tuple[int, int]]:
    """For an RFC-derivable `s`: the span of the authority's host, if the derivation has an authority
    whose host is not an IP-literal.  (RFC 3986: the authority follows `scheme ":" "//"` or a leading
    "//" and ends at the first "/", "?" or "#"; userinfo ends at "@", which cannot occur elsewhere in
    the authority; a reg-name or IPv4address contains no ":".)"""
    if top in ('URI', 'absolute_URI') or (top == 'URI_reference' and rec.accepts('URI', s)):
        i = s.index(b':') + 1
    elif top == 'URI_reference':
        i = 0
    else:
        return None
    if s[i:i + 2] != b'//':
        return None
    a0 = i + 2
    a1 = len(s)
    for k in range(a0, len(s)):
        if s[k] in b'/?#':
            a1 = k
            break
    auth = s[a0:a1]
    h0 = a0 + (auth.rindex(b'@') + 1 if b'@' in auth else 0)
    if s[h0:h0 + 1] == b'[':
        return None
    h1 = a1
    for k in range(h0, a1):
        if s[k] == 0x3a:
            h1 = k
            break
    return h0, h1


def f9_candidate(rec: abnf.Recogniser, top: str, s: bytes) -> Optional[bytes]:
    """`s` is RFC-derivable and rejected.  If its authority's host starts with a complete IPv4address
    (each dec-octet a maximal digit run, i.e. exactly the prefix the PEG's `IPv4address` commits to)
    followed by at least one further reg-name character, return the control string: the same input with
    the first "." of the host replaced by "-" (still a reg-name, no longer IPv4-prefixed)."""
    sp = host_span(rec, top, s)
    if sp is None:
        return None
    h0, h1 = sp
    host = s[h0:h1]
    m = IPV4_PREFIX.match(host)
    if not m or m.end() == len(host):
        return None
    d = host.index(b'.')
    return s[:h0 + d] + b'-' + s[h0 + d + 1:]


# ---------------------------------------------------------------- input generation

LETTERS = b'azfAFGv'
DIGITS = b'0125'
STRUCT = b':/?#@[].%'
MARKS = b'-~_!+=;'
BAD = b' "<^\\`{|\x00\x7f\x80\xff'
POOL = LETTERS + DIGITS + STRUCT + MARKS + BAD
URI_CHARS = (b'abcdefghijklmnopqrstuvwxyzABCDEFGHIJKLMNOPQRSTUVWXYZ0123456789' + b"-._~:/?#[]@!$&'()*+,;=%")


def alphabet_slice(rng: random.Random, k: int) -> bytes:
    """':' and '/' always; the rest drawn per class from the seed."""
    out = [0x3a, 0x2f]
    classes = [LETTERS, DIGITS, STRUCT[2:], MARKS + BAD]
    ci = 0
    while len(out) < k:
        c = rng.choice(classes[ci % len(classes)])
        ci += 1
        if c not in out:
            out.append(c)
    return bytes(out)


def exhaustive(alpha: bytes, maxlen: int) -> Iterable[bytes]:
    for n in range(maxlen + 1):
        for t in itertools.product(alpha, repeat=n):
            yield bytes(t)


def edits(s: bytes, rng: random.Random, n: int) -> List[bytes]:
    out = []
    for _ in range(n):
        kind = rng.randrange(3)
        c = rng.choice(POOL if rng.random() < 0.5 else URI_CHARS)
        if kind == 0 or not s:
            i = rng.randint(0, len(s))
            out.append(s[:i] + bytes([c]) + s[i:])
        elif kind == 1:
            i = rng.randrange(len(s))
            out.append(s[:i] + s[i + 1:])
        else:
            i = rng.randrange(len(s))
            out.append(s[:i] + bytes([c]) + s[i + 1:])
    return out


OCTETS = [b'0', b'1', b'9', b'10', b'99', b'100', b'199', b'200', b'249', b'250', b'255', b'256', b'260', b'299', b'300',
          b'999', b'1000', b'00', b'01', b'001', b'0255', b'', b'a', b'2x']
H16S = [b'0', b'1', b'ab', b'ABCD', b'FfFf', b'0000', b'0001', b'00001', b'12345', b'g', b'']


def ipv4_forms(rng: random.Random, full: bool) -> List[bytes]:
    out = set()
    base = [b'1', b'2', b'3', b'4']
    for pos in range(4):
        for o in OCTETS:
            x = list(base)
            x[pos] = o
            out.add(b'.'.join(x))
    for o in OCTETS:
        out.add(b'.'.join([o] * 4))
    for n in (1, 2, 3, 5, 6):
        out.add(b'.'.join([b'1'] * n))
    out |= {b'1.2.3.4.', b'.1.2.3.4', b'1..2.3', b'1.2.3.4 ', b'1.2.3,4', b'255.255.255.255', b'256.256.256.256',
            b'0.0.0.0', b'1.2.3.4x', b'1.2.3.45', b'1.2.3.456', b'1.2.3.255', b'1.2.3.2555', b''}
    for _ in range(400 if full else 100):
        out.add(b'.'.join(rng.choice(OCTETS) if rng.random() < 0.3 else str(rng.randint(0, 300)).encode() for _ in range(4)))
    return sorted(out)


def ipv6_forms(rng: random.Random, full: bool) -> List[bytes]:
    out = set()
    v4s = [b'1.2.3.4', b'255.255.255.255', b'1.2.3.256', b'01.2.3.4', b'1.2.3', b'1.2.3.4.5']
    grp = [b'1', b'ab', b'ABCD', b'0']
    # every number of groups before / after a "::" (or no "::"), valid and invalid totals, with and without IPv4 tail
    for before in range(0, 9):
        for after in range(0, 9):
            if before + after > 9:
                continue
            for tail in (None, b'1.2.3.4'):
                b = [grp[i % 4] for i in range(before)]
                a = [grp[(i + 1) % 4] for i in range(after)]
                if tail is not None:
                    a = a + [tail]
                out.add(b':'.join(b) + b'::' + b':'.join(a))
    for n in range(0, 10):
        g = [grp[i % 4] for i in range(n)]
        out.add(b':'.join(g))
        for t in v4s:
            out.add(b':'.join(g + [t]))
    # group spellings at each position of a full and of a compressed address
    for pos in range(8):
        for h in H16S:
            x = [b'1'] * 8
            x[pos] = h
            out.add(b':'.join(x))
    for h in H16S:
        out |= {b'::' + h, h + b'::', h + b'::' + h, b'1:' + h + b'::2', b'::1:' + h, b'::' + h + b':1.2.3.4'}
    for t in v4s + [b'1.2.3.45', b'1.2.3.456', b'0.0.0.0', b'00.0.0.0']:
        out |= {b'::' + t, b'::ffff:' + t, b'1:2:3:4:5:6:' + t, b'1:2:3:4:5:' + t, b'1::' + t, b'::1:2:3:4:5:' + t,
                b'::1:2:3:4:5:6:' + t, t + b'::', b'::' + t + b':1'}
    out |= {b':', b'::', b':::', b'::::', b'1:::2', b'1::2::3', b':1', b'1:', b':1::', b'::1:', b'1:2:3:4:5:6:7:8:',
            b'[::1]', b'::1]', b'::1 ', b'::G', b'::1%25eth0', b''}
    for _ in range(600 if full else 150):
        n = rng.randint(0, 9)
        g = [rng.choice(H16S) if rng.random() < 0.15 else ('%x' % rng.randint(0, 0xffff)).encode() for _ in range(n)]
        if g and rng.random() < 0.6:
            g[rng.randrange(len(g))] = b''
        s = b':'.join(g)
        if rng.random() < 0.3:
            s = rng.choice([b'::', b':']) + s
        if rng.random() < 0.3:
            s = s + rng.choice([b'::', b':', b':1.2.3.4'])
        out.add(s)
    return sorted(out)


HOST_SUFFIXES = [b'', b'x', b'.', b'.5', b'5', b'-', b'%41', b':80', b':', b'/p', b'?q', b'#f', b'x:80/p', b'.com', b'~', b'@h', b'x@h']


FIXED = [b's://1.2.3.4x', b's://1.2.3.4', b's://1.2.3.4.5', b's://1.2.3.45', b's://1.2.3.456', b's://1.2.3.04', b's://u@1.2.3.4x:1/',
         b'ftp://ftp.is.co.za/rfc/rfc1808.txt', b'http://www.ietf.org/rfc/rfc2396.txt', b'ldap://[2001:db8::7]/c=GB?objectClass?one',
         b'mailto:John.Doe@example.com', b'news:comp.infosystems.www.servers.unix', b'tel:+1-816-555-1212', b'telnet://192.0.2.16:80/',
         b'urn:oasis:names:specification:docbook:dtd:xml:4.1.2', b'foo://example.com:8042/over/there?name=ferret#nose',
         b'g:h', b'g', b'./g', b'g/', b'/g', b'//g', b'?y', b'g?y', b'#s', b'g#s', b'g?y#s', b';x', b'g;x', b'g;x?y#s', b'', b'.', b'./',
         b'..', b'../', b'../g', b'../..', b'../../', b'../../g', b'http://a/b/c/d;p?q', b'http:g', b'http://[::1]:80', b'http://[v7.x]/',
         b'http://[::ffff:1.2.3.4]', b'http://[1:2:3:4:5:6:7:8]', b'http://[1::8]', b'http://[::]', b'http://[]', b'http://[:]', b'http://a:b@c:1',
         b'http://%41', b'http://%4', b'http://%', b'a:%zz', b'1a:b', b'a b:c', b'a:b c', b'a:b#c#d', b'a:b?c?d', b'a://b/c//d', b'a:///b',
         b'a:////b', b'//', b'///', b'a:', b':', b':a', b'a/b:c', b'a:b/c:d']


def gen_stream(tier: str, rules, rng: random.Random) -> Tuple[List[Tuple[str, bytes, str]], Dict[str, Any]]:
    """(top, input, origin) triples, deduplicated."""
    full = tier == 'thorough'
    cases: Dict[Tuple[str, bytes], str] = {}
    dist: Dict[str, Any] = {}

    def add(top, s, origin):
        cases.setdefault((top, s), origin)

    # 1. exhaustive short strings
    k, L = (6, 7) if full else (5, 6)
    alpha = alphabet_slice(rng, k)
    n_ex = 0
    for s in exhaustive(alpha, L):
        for top in URI_TOPS:
            add(top, s, 'exhaustive')
        n_ex += 1
    ipalpha = bytes([rng.choice(b'0123456789'), rng.choice(b'12'), 0x2e, 0x3a, rng.choice(b'afAF')] + ([rng.choice(b'5g')] if full else []))
    ipalpha = bytes(dict.fromkeys(ipalpha))
    Lip = 7
    n_exip = 0
    for s in exhaustive(ipalpha, Lip):
        add('IPv6address', s, 'exhaustive-ip')
        add('IPv4address', s, 'exhaustive-ip')
        n_exip += 1
    dist['exhaustive'] = {'alphabet': alpha.decode('latin-1'), 'max_len': L, 'strings': n_ex, 'tops': list(URI_TOPS)}
    dist['exhaustive_ip'] = {'alphabet': ipalpha.decode('latin-1'), 'max_len': Lip, 'strings': n_exip, 'tops': ['IPv4address', 'IPv6address']}

    # 2. sampled from the ABNF + 3. single-edit mutations
    n_samp = 6000 if full else 1500
    n_mut = 4
    samples: List[Tuple[str, bytes]] = []
    for top in TOPS:
        for _ in range(n_samp if top in URI_TOPS else n_samp // 3):
            s = abnf.sample(rules, RFC_NAME[top], rng, max_rep=rng.choice((1, 2, 3, 5)))
            if len(s) > 120:
                continue
            samples.append((top, s))
    # sub-productions embedded into a URI so that the deep rules are exercised
    for _ in range(n_samp):
        auth = abnf.sample(rules, 'authority', rng, max_rep=3)
        path = abnf.sample(rules, 'path-abempty', rng, max_rep=2)
        s = rng.choice([b's:', b'Ab+-.9:', b'']) + b'//' + auth + path + rng.choice([b'', b'?' + abnf.sample(rules, 'query', rng, 2), b'#' + abnf.sample(rules, 'fragment', rng, 2)])
        if len(s) <= 120:
            samples.append((rng.choice(URI_TOPS), s))
    for top, s in samples:
        add(top, s, 'sampled')
        for top2 in URI_TOPS:
            if top in URI_TOPS and top2 != top and rng.random() < 0.3:
                add(top2, s, 'sampled-cross')
    n_m = 0
    for top, s in samples:
        for m in edits(s, rng, n_mut):
            add(top, m, 'mutated')
            n_m += 1
    dist['sampled'] = len(samples)
    dist['mutations'] = n_m

    # 4. IP textual forms, bare and inside a URI
    v4 = ipv4_forms(rng, full)
    v6 = ipv6_forms(rng, full)
    for s in v4:
        add('IPv4address', s, 'ipv4-form')
        add('IPv6address', b'::' + s, 'ipv4-in-ipv6')
        add('IPv6address', b'1:2:3:4:5:6:' + s, 'ipv4-in-ipv6')
    for s in v6:
        add('IPv6address', s, 'ipv6-form')
        add(rng.choice(URI_TOPS), b's://[' + s + b']', 'ipv6-in-uri')
        if rng.random() < 0.3:
            add('URI_reference', b'//u@[' + s + b']:8/p', 'ipv6-in-uri')
    for s in v4:
        for suf in (HOST_SUFFIXES if full else rng.sample(HOST_SUFFIXES, 6)):
            add(rng.choice(URI_TOPS), b's://' + s + suf, 'ipv4-in-uri')
        add('URI_reference', b'//' + s, 'ipv4-in-uri')
        add('URI', b's://u:p@' + s + b':1', 'ipv4-in-uri')
    dist['ipv4_forms'] = len(v4)
    dist['ipv6_forms'] = len(v6)
    # 5. fixed corpus: RFC 3986 section 1.1.2 / 5.4 examples and the known-finding witness
    for s in FIXED:
        for top in URI_TOPS:
            add(top, s, 'fixed')
    out = [(top, s, o) for (top, s), o in cases.items()]
    dist['by_origin'] = dict(Counter(o for _, _, o in out))
    dist['by_top'] = dict(Counter(t for t, _, _ in out))
    dist['length_histogram'] = dict(sorted(Counter(min(len(s), 40) // 5 * 5 for _, s, _ in out).items()))
    return out, dist


# ---------------------------------------------------------------- running the two sides

def build_all(v: Optional[common.Verdict]) -> Optional[Tuple[Path, Path]]:
    BDIR.mkdir(parents=True, exist_ok=True)
    exe = BDIR / 'leaf_c20'
    with ThreadPoolExecutor(2) as ex:
        f1 = ex.submit(leaf.compile_cpp, HARNESS, exe)
        f2 = ex.submit(leaf.build_lean_exe, 'drv_c20')
        (ok1, err1), (ok2, err2) = f1.result(), f2.result()
    if not ok1:
        if v:
            v.broke("harness/leaf_c20.cpp does not compile against /repo: " + err1[-400:])
        return None
    if not ok2:
        if v:
            v.broke("lean driver drv_c20 does not build: " + err2[-400:])
        return None
    return exe, leaf.lean_exe('drv_c20')


def _run_chunk(args) -> Tuple[List[str], str, int]:
    exe, text = args
    p = leaf.run_exe(Path(exe), text)
    return p.stdout.splitlines(), p.stderr[-1500:], p.returncode


def run_lines(exe: Path, lines: List[str], jobs: int = JOBS) -> Tuple[List[Optional[str]], List[Dict[str, Any]]]:
    """Run a line-protocol executable over `lines` in `jobs` chunks; a chunk that aborts (sanitizer) is
    bisected down to the offending line.  Returns outputs aligned with `lines` (None where it crashed)."""
    out: List[Optional[str]] = [None] * len(lines)
    crashes: List[Dict[str, Any]] = []
    if not lines:
        return out, crashes
    n = max(1, (len(lines) + jobs - 1) // jobs)
    chunks = [(i, min(i + n, len(lines))) for i in range(0, len(lines), n)]
    with ThreadPoolExecutor(jobs) as ex:
        res = list(ex.map(lambda c: _run_chunk((str(exe), "\n".join(lines[c[0]:c[1]]) + "\n")), chunks))
    for (a, b), (got, err, rc) in zip(chunks, res):
        if rc == 0 and len(got) == b - a:
            out[a:b] = got
            continue
        # the process stopped after len(got) lines: line a+len(got) is the culprit
        k = min(len(got), b - a - 1)
        out[a:a + k] = got[:k]
        crashes.append({'line': lines[a + k], 'stderr_tail': err, 'rc': rc})
        rest, c2 = run_lines(exe, lines[a + k + 1:b], 1)
        out[a + k + 1:b] = rest
        crashes += c2
    return out, crashes


_REC: Optional[abnf.Recogniser] = None


def _oracle_init(text: str):
    global _REC
    _REC = abnf.Recogniser(abnf.parse_abnf(text))


def _oracle_chunk(items: List[Tuple[str, bytes]]) -> List[bool]:
    return [_REC.accepts(RFC_NAME[t], s) for t, s in items]


def oracle_all(text: str, items: List[Tuple[str, bytes]]) -> List[bool]:
    if len(items) < 2000:
        _oracle_init(text)
        return _oracle_chunk(items)
    n = (len(items) + 4 * JOBS - 1) // (4 * JOBS)
    chunks = [items[i:i + n] for i in range(0, len(items), n)]
    with ProcessPoolExecutor(JOBS, initializer=_oracle_init, initargs=(text,)) as ex:
        res = list(ex.map(_oracle_chunk, chunks))
    return [x for r in res for x in r]


def parse_impl(line: str) -> Dict[str, Any]:
    m = re.match(r'(\S+) (\S+) r=(.*) oob=(-?\d+)$', line)
    if not m:
        return {'bad': line}
    r = m.group(3).split(' ')
    d: Dict[str, Any] = {'top': m.group(1), 'hex': m.group(2), 'code': r[0], 'oob': int(m.group(4))}
    if r[0] == '2':
        d['byte'] = int(r[1])
        d['rule'] = norm_cpp(r[2]) if len(r) > 2 else '?'
    elif r[0] == '3':
        d['what'] = ' '.join(r[1:])
    return d


def parse_model(line: str) -> Dict[str, Any]:
    m = re.match(r'(\S+) (\S+) run=(.*) sem=(.*) rfc=([01])$', line)
    if not m:
        return {'bad': line}
    return {'top': m.group(1), 'hex': m.group(2), 'run': m.group(3).split(' '), 'sem': m.group(4).split(' '), 'rfc': m.group(5) == '1'}


def correspond(impl: Dict[str, Any], model: Dict[str, Any], n: int, names: Dict[int, str]) -> Optional[str]:
    """None if the implementation's observation equals what the model and the PEG spec give."""
    if 'bad' in impl or 'bad' in model:
        return f"unparsable line impl={impl.get('bad')} model={model.get('bad')}"
    run, sem, code = model['run'], model['sem'], impl['code']
    if code in ('0', '1'):
        if run != [code]:
            return f"impl result {code}, model run={' '.join(run)}"
        if sem[0] != code or (code == '1' and sem != ['1', str(n)]):
            return f"impl result {code}, PEG spec sem={' '.join(sem)}"
        return None
    if code == '2':
        if run[0] != '2' or sem[0] != '2':
            return f"impl parse_error, model run={' '.join(run)} sem={' '.join(sem)}"
        if int(run[1]) != impl['byte']:
            return f"parse_error at byte {impl['byte']}, model at {run[1]}"
        blamed = names.get(int(run[2])) if run[2].isdigit() else None
        if blamed != impl['rule']:
            return f"parse_error blames {impl['rule']}, model blames node {run[2]} = {blamed}"
        if sem[1] != run[2]:
            return f"model blames {run[2]}, PEG spec blames {sem[1]}"
        return None
    return f"impl result {code} {impl.get('what', '')}; model run={' '.join(run)}"


# ---------------------------------------------------------------- the check

def evaluate(exe: Path, drv: Path, cases: List[Tuple[str, bytes, str]], abnf_text: str, names: Dict[int, str],
             want_model: bool = True):
    lines = [f"{t} {hexs(s)}" for t, s, _ in cases]
    t1 = time.time()
    with ThreadPoolExecutor(2) as ex:
        fi = ex.submit(run_lines, exe, lines)
        fm = ex.submit(run_lines, drv, lines) if want_model else None
        derivable = oracle_all(abnf_text, [(t, s) for t, s, _ in cases])
        impl_raw, crashes = fi.result()
        model_raw, mcrashes = fm.result() if fm else ([None] * len(lines), [])
    return lines, impl_raw, crashes, model_raw, mcrashes, derivable, time.time() - t1


def run(tier: str) -> int:
    v = common.Verdict(PROP, tier)
    t0 = time.time()
    rng = random.Random(common.seed() * 1000003 + 20)

    # ---- 1. Lean obligations (Gen files first)
    t, rules = write_gen(v)
    rep = common.check_lean(['PegtlVerif.Props.C20'], extra_obligation_modules=['PegtlVerif.Audit.C20Sync'],
                            leanchecker=(tier == 'thorough'))
    if not rep.ok:
        for p in rep.problems[:10]:
            if 'C20Sync' in p:
                p = ("C20_sync / c20_rfc_sync (Audit/C20Sync.lean: the table translated from /repo's contrib/uri.hpp, resp. from "
                     "spec/rfc3986.abnf, equals the committed one) no longer checks: " + p)
            v.broke("lean: " + p)
    t_lean = time.time() - t0

    evidence: Dict[str, Any] = {'level': 'proof', 'coverage': {}}
    cov = evidence['coverage']
    cov.update({'obligations': rep.obligations, 'discharged': rep.discharged, 'checker_cmd': rep.checker_cmd,
                'theorems': rep.theorems, 'axioms': rep.axioms,
                'trusted_base': common.TRUSTED_BASE + [
                    "vlib/c20_translate.py (C++ struct/using declarations of contrib/uri.hpp, contrib/abnf.hpp -> gram.py type expressions -> node table) — re-run and compared with Expected/Uri.lean on every run",
                    "spec/rfc3986.abnf = Spec/Rfc3986.lean `rfc3986`: hand transcription of RFC 3986 Appendix A (+ ALPHA, DIGIT, HEXDIG of RFC 5234), the two copies are compared on every run",
                    "vlib/c20_abnf.py ABNF parser and span recogniser (independent oracle); it is cross-checked against the Lean recogniser `Abnf.recognise` on every explored input"]})
    if rules is None or t is None:
        cov.update({'evaluations': 0, 'distinct_nontrivial': 0, 'explanation': 'translation failed'})
        return v.finish(evidence)
    built = build_all(v)
    if built is None:
        cov.update({'evaluations': 0, 'distinct_nontrivial': 0, 'explanation': 'build failed'})
        return v.finish(evidence)
    exe, drv = built
    # the driver evaluates Expected.uri; blamed nodes are named through the committed table's own comments
    names = expected_names()
    abnf_text = ABNF_FILE.read_text()

    # ---- 2. + 3. correspondence and oracle
    cases, dist = gen_stream(tier, rules, rng)
    lines, impl_raw, crashes, model_raw, mcrashes, derivable, t_eval = evaluate(exe, drv, cases, abnf_text, names)
    if mcrashes:
        v.broke(f"correspondence: lean driver stopped on {mcrashes[0]['line']}: {mcrashes[0]['stderr_tail'][-200:]}")
    reported = 0
    for c in crashes:
        w = c['line'].split()
        v.failing_input({'what': 'sanitizer abort / crash in the implementation', 'top': w[0], 'input_hex': w[1],
                         'input_repr': repr(unhex(w[1])), 'stderr_tail': c['stderr_tail'], 'replay_lines': [c['line']]})
    stats = Counter()
    mism: List[Tuple[int, str]] = []
    f9_pending: List[Tuple[int, bytes]] = []
    viol: List[Tuple[int, str]] = []
    spec_dis: List[int] = []
    rec = abnf.Recogniser(rules)
    nontrivial = set()
    samples_out: List[Dict[str, Any]] = []
    sample_seen: Counter = Counter()
    for i, ((top, s, origin), il, ml, der) in enumerate(zip(cases, impl_raw, model_raw, derivable)):
        if il is None:
            continue
        im = parse_impl(il)
        if ml is not None:
            mo = parse_model(ml)
            why = correspond(im, mo, len(s), names)
            if why:
                mism.append((i, why))
            if 'rfc' in mo and mo['rfc'] != der:
                spec_dis.append(i)
        code = im.get('code')
        acc = code == '1'
        stats[('derivable' if der else 'underivable') + '/' + {'1': 'accepted', '0': 'failed', '2': 'parse_error'}.get(code, 'other')] += 1
        if acc or der or code == '2' or origin == 'mutated':
            nontrivial.add((top, s))
        if code not in ('0', '1', '2'):
            viol.append((i, f"exception other than parse_error: {im.get('what', il)}"))
        elif im.get('oob', 0) != 0:
            viol.append((i, f"{im['oob']} read(s)/advance(s) outside the input window"))
        elif acc and not der:
            viol.append((i, "accepted, but not derivable from the RFC 3986 production"))
        elif der and not acc:
            ctrl = f9_candidate(rec, top, s)
            if ctrl is None:
                viol.append((i, "derivable from the RFC 3986 production, but rejected" + (" (parse_error)" if code == '2' else "")))
            else:
                f9_pending.append((i, ctrl))
        skey = (origin, code, der)
        if sample_seen[skey] < 1 and len(samples_out) < 40 and (len(s) > 3 or origin == 'fixed'):
            sample_seen[skey] += 1
            samples_out.append({'top': top, 'origin': origin, 'input': repr(s), 'impl': il.split(' r=')[1], 'derivable': der,
                                'model': ml.split(' run=')[1] if ml else None})
    # F9 control run: the same input with the IPv4 prefix broken must be accepted by the real parser
    f9_hits = 0
    if f9_pending:
        ctl_lines = [f"{cases[i][0]} {hexs(c)}" for i, c in f9_pending]
        ctl_out, ctl_cr = run_lines(exe, ctl_lines)
        ctl_der = oracle_all(abnf_text, [(cases[i][0], c) for i, c in f9_pending])
        confirmed = []
        for (i, c), o, d in zip(f9_pending, ctl_out, ctl_der):
            ok = o is not None and parse_impl(o).get('code') == '1' and d
            if ok:
                f9_hits += 1
                confirmed.append((len(cases[i][1]), cases[i][1], i, c))
            else:
                viol.append((i, f"derivable from the RFC 3986 production, but rejected; IPv4-prefixed host, but the control input {c!r} is "
                                f"{'not accepted either' if o is not None else 'crashing'}: not explained by F9"))
        if confirmed:
            _, s, i, c = min(confirmed)
            v.known('F9', f"F9 contrib/uri.hpp host = sor< IP_literal, IPv4address, reg_name >: uri::{cases[i][0]} rejects {s!r} "
                          f"(reg-name that starts with an IPv4address; RFC 3986 derives it; control {c!r} is accepted); {f9_hits} such inputs in this run")
    if f9_hits:
        v.known_hit['F9'] = f9_hits
    for i, why in sorted(viol, key=lambda x: (len(cases[x[0]][1]), x[0]))[:MAX_REPORT]:
        top, s, origin = cases[i]
        v.failing_input({'what': why, 'top': top, 'rfc_production': RFC_NAME[top], 'input_hex': hexs(s), 'input_repr': repr(s),
                         'origin': origin, 'observed': impl_raw[i], 'model': model_raw[i], 'derivable': derivable[i],
                         'replay_lines': [lines[i]]})
    if mism:
        i, why = mism[0]
        v.broke(f"correspondence: {len(mism)} case(s) where the implementation and the model/PEG spec on Expected.uri differ; first: "
                f"uri::{cases[i][0]} on {cases[i][1]!r}: {why}")
        if not viol:
            # the disagreeing inputs were judged by the oracle above and conform: still give a replay with the inputs
            v.failing_input({'what': 'correspondence mismatch (implementation conforms to the RFC oracle on this input, the model does not describe it)',
                             'top': cases[i][0], 'input_hex': hexs(cases[i][1]), 'input_repr': repr(cases[i][1]), 'why': why,
                             'observed': impl_raw[i], 'model': model_raw[i], 'replay_lines': [lines[k] for k, _ in mism[:20]],
                             'correspondence_only': True})
    if spec_dis:
        i = spec_dis[0]
        v.broke(f"spec: the Lean recogniser of Spec/Rfc3986.lean and the Python recogniser of spec/rfc3986.abnf disagree on "
                f"{len(spec_dis)} input(s); first: {RFC_NAME[cases[i][0]]} on {cases[i][1]!r}")

    n_eval = sum(1 for x in impl_raw if x is not None)
    cov.update({
        'evaluations': n_eval,
        'distinct_nontrivial': len(nontrivial),
        'rule': "distinct (top-level rule, input) pairs where the input is accepted by the implementation or derivable per RFC 3986, or raised parse_error, or is a single-edit mutation of an ABNF-sampled string",
        'exhaustive': False,
        'exhaustive_parts': {'short strings': dist['exhaustive'], 'short ip strings': dist['exhaustive_ip']},
        'distribution': dist,
        'outcomes': {k: n for k, n in sorted(stats.items())},
        'correspondence_mismatches': len(mism),
        'spec_recogniser_disagreements': len(spec_dis),
        'oracle_violations': len(viol),
        'f9_hits': f9_hits,
        'sanitizer_aborts': len(crashes),
        'samples': samples_out,
        'node_table': {'nodes': len(t.g.nodes), 'named_rules': len(t.names)},
        'timing_s': {'lean': round(t_lean, 1), 'evaluate': round(t_eval, 1)},
        'explanation': "every case is run through the real parser (ASan+UBSan), the Lean model `run` and the PEG spec `semEvalE` on Expected.uri, "
                       "the Lean ABNF recogniser and the Python ABNF recogniser; known finding F9 is matched by predicate + control run",
    })
    print(f"C20: {n_eval} evaluations ({len(nontrivial)} non-trivial), outcomes {dict(stats)}, correspondence mismatches {len(mism)}, "
          f"oracle violations {len(viol)}, F9 hits {f9_hits}, lean {t_lean:.0f}s eval {t_eval:.0f}s")
    return v.finish(evidence)


def expected_names() -> Dict[int, str]:
    """node id -> normalised C++ spelling, read from the committed table's row comments."""
    out = {}
    for m in re.finditer(r'/-\s*(\d+)\s*-/[^\n]*?--\s*(.*)$', EXPECTED_URI.read_text(), re.M):
        out[int(m.group(1))] = norm_cpp(m.group(2).strip())
    return out


def replay(path: str) -> int:
    """Re-evaluate one replay file against /repo's current headers."""
    pl = json.loads(Path(path).read_text())
    if pl.get('kind') != 'failing-input':
        print(f"replay {path}: kind={pl.get('kind')} broken={pl.get('broken')} — no input to re-run; run ./check C20")
        return 1
    t, rules = write_gen(None)
    built = build_all(None)
    if built is None or rules is None:
        print("replay: build failed")
        return 1
    exe, drv = built
    names = expected_names()
    rec = abnf.Recogniser(rules)
    lines = pl['replay_lines']
    out, crashes = run_lines(exe, lines, 1)
    mout, _ = run_lines(drv, lines, 1)
    failing = False
    for c in crashes:
        print(f"replay: {c['line']} -> crash: {c['stderr_tail'][-300:]}")
        failing = True
    for ln, o, mo in zip(lines, out, mout):
        if o is None:
            continue
        top, hx = ln.split()
        s = unhex(hx)
        im = parse_impl(o)
        der = rec.accepts(RFC_NAME[top], s)
        acc = im.get('code') == '1'
        bad = im.get('code') not in ('0', '1', '2') or im.get('oob', 0) != 0 or acc != der
        if bad and der and not acc and f9_candidate(rec, top, s) is not None:
            ctrl = f9_candidate(rec, top, s)
            co, _ = run_lines(exe, [f"{top} {hexs(ctrl)}"], 1)
            if co[0] is not None and parse_impl(co[0]).get('code') == '1' and rec.accepts(RFC_NAME[top], ctrl):
                print(f"replay: uri::{top} {s!r}: known finding F9")
                bad = False
        why = correspond(im, parse_model(mo), len(s), names) if mo is not None else None
        print(f"replay: uri::{top} on {s!r}: impl={o.split(' r=')[1]!r} derivable={der} model={mo.split(' run=')[1] if mo else None!r}"
              f"{' CORRESPONDENCE: ' + why if why else ''} -> {'VIOLATES' if bad else 'conforms'}")
        failing = failing or bad or (bool(why) and pl.get('correspondence_only', False))
    print("replay: still failing" if failing else "replay: passes now")
    return 1 if failing else 0


if __name__ == '__main__':
    # developer entry: python3 -m vlib.c20 --write-expected
    import sys
    if '--write-expected' in sys.argv:
        t_ = tr.translate(common.REPO / 'include')
        EXPECTED_URI.parent.mkdir(parents=True, exist_ok=True)
        EXPECTED_URI.write_text(tr.render_lean(t_, 'Expected'))
        print(f"wrote {EXPECTED_URI} ({len(t_.g.nodes)} nodes)")
