"""diffrun.py — run the same cases through the Lean model driver and through the real
headers (generated C++ compiled against /repo/include), and hand back both traces.
"""
from __future__ import annotations
import hashlib
import os
import subprocess
import sys
import time
from concurrent.futures import ThreadPoolExecutor
from dataclasses import dataclass, field
from typing import Dict, List, Optional, Tuple

from . import common
from .gram import Grammar

EOLS = {'lf': 'tao::pegtl::eol::lf', 'cr': 'tao::pegtl::eol::cr', 'crlf': 'tao::pegtl::eol::crlf',
        'lf_crlf': 'tao::pegtl::eol::lf_crlf', 'cr_crlf': 'tao::pegtl::eol::cr_crlf'}


@dataclass(frozen=True)
class Config:
    root: int
    a: int = 1                 # apply_mode::action
    m: str = 'r'               # rewind_mode required / optional
    eol: str = 'lf_crlf'
    lazy: int = 0
    unwind: int = 1
    fam: int = 0
    tree: int = 0              # run through parse_tree::parse with the grammar's selector (C12)
    mi: int = 0                # control = must_if< errs, ctl >::control (C05)
    cov: int = 0               # 1: run through coverage< Root, Action, Control >(), 2 / 3: through tracer<>::parse (state_control<> around the logging control; C08)

    def cpp(self, g: Grammar) -> str:
        ctl = f"{g.ns}::ctl" if self.unwind else f"{g.ns}::ctl_nu"
        if self.mi:
            ctl = f"{g.ns}::ctl_mi"
        if self.cov:
            return (f"vh::run_case_cov< {g.ns}::tag, {g.nodes[self.root].cpp}, {g.ns}::act{self.fam}, {ctl}, "
                    f"tao::pegtl::tracking_mode::{'lazy' if self.lazy else 'eager'}, {EOLS[self.eol]}, {self.cov} >")
        if self.tree:
            return (f"vh::run_case_tree< {g.ns}::tag, {g.nodes[self.root].cpp}, {g.ns}::sel, {g.ns}::act{self.fam}, {ctl}, "
                    f"tao::pegtl::tracking_mode::{'lazy' if self.lazy else 'eager'}, {EOLS[self.eol]} >")
        if self.lazy == 2:     # over a buffer_input (eager positions, fetched byte by byte)
            return (f"vh::run_case_buf< {g.ns}::tag, {g.nodes[self.root].cpp}, {g.ns}::act{self.fam}, {ctl}, "
                    f"tao::pegtl::apply_mode::{'action' if self.a else 'nothing'}, "
                    f"tao::pegtl::rewind_mode::{'required' if self.m == 'r' else 'optional'}, {EOLS[self.eol]} >")
        return (f"vh::run_case< {g.ns}::tag, {g.nodes[self.root].cpp}, {g.ns}::act{self.fam}, {ctl}, "
                f"tao::pegtl::apply_mode::{'action' if self.a else 'nothing'}, "
                f"tao::pegtl::rewind_mode::{'required' if self.m == 'r' else 'optional'}, "
                f"tao::pegtl::tracking_mode::{'lazy' if self.lazy else 'eager'}, {EOLS[self.eol]} >")


@dataclass
class Case:
    cid: str
    g: Grammar
    cfg: Config
    data: bytes
    init: Tuple[int, int, int] = (0, 1, 1)


@dataclass
class Trace:
    events: List[str] = field(default_factory=list)   # event lines (canonical: see canon_event)
    raw_events: List[str] = field(default_factory=list)   # implementation only: the lines as the harness logged them
    result: str = ''                                  # the R line
    tree: List[str] = field(default_factory=list)     # TREE / T lines (C12)
    alerts: List[str] = field(default_factory=list)   # lines in which the harness itself reports a broken invariant (covbad: coverage counters, SHUF-BAD: state order)
    leaf_sound: str = ''                              # model only: side condition of C12_tree evaluated on this trace
    o: str = ''                                       # the O line
    surv: List[str] = field(default_factory=list)     # model only


def hexs(b: bytes) -> str:
    return b.hex() if b else '-'


_MARKED = ('E', 'X', 'st', 'su', 'fa', 'uw', 'ra', 'ap', 'a0')


def canon_event(line: str) -> str:
    """Implementation side: the harness's second control family marks the tag of every line it logs (`st2 …`).
    The model records the control family of `E` (the control the rule was invoked through) and of `st` (the control
    whose hooks run for the invocation) as a trailing field; the other lines carry no control."""
    tag, _, rest = line.partition(' ')
    k = 0
    if tag.endswith('2') and tag[:-1] in _MARKED:
        tag, k = tag[:-1], 2
    if tag in ('E', 'st'):
        return f"{tag} {rest} {k}"
    return f"{tag} {rest}" if rest else tag


def mask_rp(line: str) -> str:
    """Calls of the action classes of an `apply0< A... >` rule (ids from 3000000) carry no position: compare id and state depth only."""
    if line.startswith('rp '):
        p = line.split()
        if len(p) == 9 and p[1].isdigit() and int(p[1]) >= 3000000:
            return f"rp {p[1]} - - - - - - {p[8]}"
    return line


def parse_traces(text: str, impl: bool = False) -> Dict[str, Trace]:
    out: Dict[str, Trace] = {}
    cur = None
    for line in text.splitlines():
        if line.startswith('CASE '):
            cur = Trace()
            out[line[5:].strip()] = cur
        elif cur is None:
            continue
        elif line == 'END':
            cur = None
        elif line.startswith('R '):
            cur.result = line
        elif line.startswith('O '):
            cur.o = line
        elif line.startswith('S '):
            cur.surv.append(mask_rp(line[2:]))
        elif line.startswith('T ') or line.startswith('TREE'):
            cur.tree.append(line)
        elif line.startswith('LS '):
            cur.leaf_sound = line[3:].strip()
        elif line.startswith('covbad') or line.startswith('SHUF-BAD') or line.startswith('COPY-BAD'):
            cur.alerts.append(line)
        elif impl:
            cur.raw_events.append(line)
            cur.events.append(mask_rp(canon_event(line)))
        else:
            cur.events.append(mask_rp(line))
    return out


# ---------------------------------------------------------------- model side

def _model_chunk(args):
    lines = args
    p = subprocess.run([common.driver_path()], input="\n".join(lines) + "\n", capture_output=True, text=True)
    if p.returncode != 0:
        raise RuntimeError("model driver failed: " + p.stderr[:2000])
    return p.stdout


def run_model(cases: List[Case], fuel: int = 3000, sem: bool = False, jobs: int = 12) -> Tuple[Dict[str, Trace], Dict[str, str]]:
    """Returns (traces, sem results).  Cases are split by grammar over several driver processes."""
    chunks: List[List[str]] = []
    cur: List[str] = []
    last = None
    ncur = 0
    target = max(2000, len(cases) // (jobs * 3) + 1)
    for c in cases:
        if c.g is not last:
            if ncur >= target:
                chunks.append(cur)
                cur, ncur = [], 0
            if not cur:
                cur.append(f"FUEL {fuel}")
            cur.extend(c.g.proto_lines())
            cur.append(f"W {c.g.gid}")
            last = c.g
        cfg = c.cfg
        cur.append(f"C {c.cid} {cfg.root} {cfg.a} {cfg.m} {cfg.eol} {cfg.lazy} {cfg.unwind} "
                   f"{c.init[0]} {c.init[1]} {c.init[2]} {cfg.fam} {hexs(c.data)}" + (" 1" if cfg.mi else ""))
        if sem:
            cur.append(f"SEM {c.cid} {cfg.root} {cfg.eol} {hexs(c.data)}")
        ncur += 1
    if cur:
        chunks.append(cur)
    common.driver_path()      # build the driver (once) before the worker threads use it
    with ThreadPoolExecutor(max_workers=jobs) as ex:
        outs = list(ex.map(_model_chunk, chunks))
    traces: Dict[str, Trace] = {}
    sems: Dict[str, str] = {}
    for out in outs:
        for l in out.splitlines():
            if l.startswith('BAD'):
                raise RuntimeError("model driver rejected input: " + l)
            if l.startswith('SEM '):
                parts = l.split(' ', 2)
                sems[parts[1]] = parts[2]
            elif l.startswith('W '):
                parts = l.split()
                sems['W:' + parts[1]] = parts[2]
        traces.update(parse_traces(out))
    return traces, sems


# ---------------------------------------------------------------- implementation side

CXX = os.environ.get('VERIF_CXX', 'g++')


def cxx_flags(san: str) -> List[str]:
    base = ['-std=c++17', '-I', str(common.REPO / 'include'), '-I', str(common.VERIF / 'harness'),
            '-DTAO_PEGTL_VERIF', '-w']
    if san == 'asan':
        return base + ['-O0', '-fsanitize=address', '-fno-omit-frame-pointer']
    if san == 'asan+ubsan':
        return base + ['-O1', '-g', '-fsanitize=address,undefined', '-fno-sanitize-recover=all']
    return base + ['-O0']


def tu_source(groups: List[Tuple[Grammar, List[Config]]]) -> Tuple[str, Dict[Tuple[str, Config], int]]:
    idx: Dict[Tuple[str, Config], int] = {}
    o = ['#include "vharness.hpp"', '#include <iostream>', '#include <sstream>']
    for g, _ in groups:
        o.append(g.cpp_decls())
    o.append("static void dispatch( int cfg, const char* cid, const std::string& bytes, std::size_t ib, std::size_t il, std::size_t ic ) {")
    o.append("  switch( cfg ) {")
    k = 0
    for g, cfgs in groups:
        for cfg in cfgs:
            idx[(g.gid, cfg)] = k
            o.append(f"  case {k}: {cfg.cpp(g)}( cid, bytes, ib, il, ic ); break;")
            k += 1
    o.append('  default: std::printf( "BAD cfg %d\\n", cfg );')
    o.append("  }")
    o.append("}")
    o.append(r'''
static int hv( char c ) { return ( c >= '0' && c <= '9' ) ? c - '0' : ( c >= 'a' && c <= 'f' ) ? c - 'a' + 10 : 0; }
int main() {''')
    for g, _ in groups:
        o.append(f"  {g.ns}::reg();")
    o.append(r'''  vh::g_step_budget = 300000;  // a parse that no longer terminates ends as an R 2 BUDGET result instead of a hang
  std::string line;
  while( std::getline( std::cin, line ) ) {
    std::istringstream is( line );
    int cfg; std::string cid, hex; std::size_t ib, il, ic;
    if( !( is >> cfg >> cid >> hex >> ib >> il >> ic ) ) continue;
    std::string bytes;
    if( hex != "-" ) for( std::size_t i = 0; i + 1 < hex.size(); i += 2 ) bytes.push_back( char( hv( hex[ i ] ) * 16 + hv( hex[ i + 1 ] ) ) );
    dispatch( cfg, cid.c_str(), bytes, ib, il, ic );
  }
  return 0;
}''')
    return "\n".join(o) + "\n", idx


import threading
_serial_compile = threading.Lock()


@dataclass
class ImplResult:
    traces: Dict[str, Trace]
    compile_errors: List[str]
    crashes: List[Tuple[Optional[str], str]]   # (case id or None, sanitizer report / abnormal exit excerpt)
    compile_s: float = 0.0
    run_s: float = 0.0


def run_impl(cases: List[Case], san: str = 'asan', per_tu: int = 8, jobs: int = 16, tag: str = 'run',
             timeout: int = 150) -> ImplResult:
    """Group cases by grammar, batch grammars into translation units, compile in parallel against
    the current /repo headers, run, parse."""
    by_g: Dict[str, Tuple[Grammar, Dict[Config, None], List[Case]]] = {}
    for c in cases:
        e = by_g.setdefault(c.g.gid, (c.g, {}, []))
        e[1].setdefault(c.cfg, None)
        e[2].append(c)
    glist = list(by_g.values())
    batches = [glist[i:i + per_tu] for i in range(0, len(glist), per_tu)]
    bdir = common.BUILD / tag
    if bdir.exists():
        subprocess.run(['rm', '-rf', str(bdir)])
    bdir.mkdir(parents=True, exist_ok=True)

    def do_batch(bi: int):
        batch = batches[bi]
        src, idx = tu_source([(g, list(cfgs)) for g, cfgs, _ in batch])
        sp = bdir / f"tu{bi}.cpp"
        ex = bdir / f"tu{bi}"
        sp.write_text(src)
        t0 = time.time()
        cp = subprocess.run([CXX] + cxx_flags(san) + [str(sp), '-o', str(ex)], capture_output=True, text=True)
        for _retry in range(3):
            # a compiler killed by the machine (memory pressure next to other jobs) is not a property of the code: try again, alone
            if cp.returncode == 0 or not (cp.returncode < 0 or any(k in cp.stderr for k in ('Killed', 'virtual memory exhausted', 'Cannot allocate memory', 'out of memory', 'fatal error: error writing'))):
                break
            time.sleep(5 + 10 * _retry)
            with _serial_compile:
                cp = subprocess.run([CXX] + cxx_flags(san) + [str(sp), '-o', str(ex)], capture_output=True, text=True)
        ct = time.time() - t0
        if cp.returncode != 0:
            return ('cerr', [(None, f"tu{bi}: " + cp.stderr[:4000])], ct, 0.0, '')
        feed = []
        for g, _, cs in batch:
            for c in cs:
                feed.append((c.cid, f"{idx[(g.gid, c.cfg)]} {c.cid} {hexs(c.data)} {c.init[0]} {c.init[1]} {c.init[2]}"))
        t0 = time.time()
        env = dict(os.environ, ASAN_OPTIONS='detect_leaks=0:abort_on_error=0', UBSAN_OPTIONS='print_stacktrace=1')
        outs = []
        crashes = []
        start = 0
        timeouts = 0
        for _attempt in range(8):
            chunk = feed[start:]
            if not chunk:
                break
            try:
                # a hang (e.g. a loop that no longer consumes) is a result: after the first one the remaining cases get a short budget
                rp = subprocess.run([str(ex)], input="\n".join(l for _, l in chunk) + "\n", capture_output=True, text=True,
                                    timeout=(timeout if timeouts == 0 else 30), env=env)
                out, err, rc = rp.stdout, rp.stderr, rp.returncode
            except subprocess.TimeoutExpired as e:
                out = (e.stdout or b'').decode(errors='replace') if isinstance(e.stdout, bytes) else (e.stdout or '')
                out = out[:20_000_000]
                err, rc = 'timeout (the implementation did not terminate)', -9
                timeouts += 1
                if timeouts > 2:
                    outs.append(out)
                    crashes.append((None, f"tu{bi}: repeated timeouts"))
                    break
            outs.append(out)
            if rc == 0:
                break
            # attribute the abort to the last announced case that has no END
            last = None
            for line in out.splitlines():
                if line.startswith('CASE '):
                    last = line[5:].strip()
                elif line == 'END':
                    last = None
            if last is None:
                crashes.append((None, f"tu{bi}: exit {rc}\n" + err[:3000]))
                break
            crashes.append((last, f"tu{bi}: exit {rc} in case {last}\n" + err[:3000]))
            pos = next((k for k, (cid, _) in enumerate(feed) if cid == last), None)
            if pos is None:
                break
            start = pos + 1
        rt = time.time() - t0
        return ('crash' if crashes else 'ok', crashes, ct, rt, "".join(outs))

    res = ImplResult({}, [], [])
    with ThreadPoolExecutor(max_workers=jobs) as ex:
        for kind, msg, ct, rt, out in ex.map(do_batch, range(len(batches))):
            res.compile_s += ct
            res.run_s += rt
            if kind == 'cerr':
                res.compile_errors.extend(m for _, m in msg)
            else:
                if kind == 'crash':
                    res.crashes.extend(msg)
                res.traces.update(parse_traces(out, impl=True))
    return res
