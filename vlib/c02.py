"""C02 — a locally failing rule never leaves input consumed.
Proof: lean/PegtlVerif/Props/C02.lean (closure of the rewind/frame invariant under all 25 rule
kinds and under the match.hpp protocol).  Tie: full-trace differential run on the systematic family
(consume-then-fail probes in every slot and context, with and without actions).  Oracle: cursor
comparison on the implementation's own enter/exit brackets."""
from . import engine, profiles
from .diffrun import Config
from .engine import oracle_rewind, oracle_surv_spans

ORACLES = [('rewind', oracle_rewind)]


def run(tier: str) -> int:
    ps = [
        profiles.systematic_profile('sys', lambda k, f: True, True, 130, 280, ORACLES,
                                    inputs=profiles.inputs_exhaustive(3, 5, cap_q=90, cap_t=700), per_tu=2),
        profiles.systematic_profile('sysact', lambda k, f: True, True, 10, 60, ORACLES, actions_mode='bool',
                                    inputs=profiles.inputs_exhaustive(3, 4, cap_q=90, cap_t=350), per_tu=2,
                                    ctx_names=['top', 'sor-first', 'seq-tail', 'in-opt', 'in-tcrf']),
        profiles.random_profile('rnd', False, True, 16, 80, ORACLES, actions_mode='bool',
                                inputs=profiles.inputs_exhaustive(4, 5, cap_q=150, cap_t=700), per_tu=2),
        # the same property over a buffer_input (its own rewind marks: rewind_save / rewind_restore of buffer_input.hpp), fetched byte by byte
        profiles.systematic_profile('buf', lambda k, f: f != 'state', True, 40, 140, ORACLES, actions_mode='bool',
                                    inputs=profiles.inputs_exhaustive(3, 4, cap_q=60, cap_t=300), per_tu=2,
                                    configs=lambda g, root, tier: [Config(root, 1, 'r', 'lf_crlf', 2, 1, 0), Config(root, 0, 'o', 'lf_crlf', 2, 1, 0)],
                                    ctx_names=['top', 'sor-first', 'seq-tail', 'in-at']),
        # every leaf rule: a leaf has no rewind guard of its own; it must not consume before it knows that it matches
        profiles.atoms_profile('atoms', ORACLES, cap_q=160, cap_t=600, per_tu=3),
    ]
    def shipped(v, cov, rng):
        # the shipped grammars (json, uri, iri, http with its hand-written chunk rules, abnf, integer, raw_string, utf8/16/32, uintN,
        # json_pointer, lua53, proto3) under a monitor control that checks the property at every invocation of every rule
        from . import c03
        st = c03.shipped_run(v, rng, tier, report='rewind')
        cov['shipped_grammars_rewind_monitor'] = {k: st.get(k) for k in ('compiled', 'cases', 'by_grammar', 'results', 'rewind_violations')}
        cov['evaluations'] += st.get('cases', 0)
    return engine.run_engine('C02', tier, ['PegtlVerif.Props.C02'], ps, extra=shipped)


def replay(path: str) -> int:
    return engine.replay('C02', path, ORACLES)
