"""c17.py — check for property C17: the unescape helpers of tao/pegtl/contrib/unescape.hpp produce
exact UTF-8 and reject invalid code points.

1. Lean obligations: Props/C17.lean (theorems about the model Model/Unescape.lean against
   Spec/Utf8Enc.lean), forbidden-construct scan, axiom audit.
2. Correspondence: harness/leaf_c17.cpp (the real functions/actions, driven through real PEGTL
   grammars where they are actions) vs the Lean driver drv_c17 on the same command stream.
3. Oracle: Python codecs (`chr(cp).encode('utf-8')`, `bytes.decode('utf-16-be')`, `int(ds, 16)`,
   `json.loads`, `unicode_escape`) evaluated on every line the *implementation* printed.
"""
from __future__ import annotations

import json
import random
import struct
import time
from pathlib import Path
from typing import Any, Dict, List, Optional, Tuple

from . import common, leaf

PROP = 'C17'
HARNESS = common.VERIF / 'harness' / 'leaf_c17.cpp'
XD = '0123456789abcdefABCDEF'

# 16-bit boundary classes for \uXXXX sequences: BMP edges of the 1/2/3-byte UTF-8 ranges, both
# ends of the high and low surrogate blocks and their neighbours
J_UNITS = [0x0000, 0x0041, 0x007F, 0x0080, 0x07FF, 0x0800, 0x0FFF, 0x1000, 0xD7FF, 0xD800, 0xD801,
           0xDBFE, 0xDBFF, 0xDC00, 0xDC01, 0xDFFE, 0xDFFF, 0xE000, 0xFFFD, 0xFFFF]

CP_EDGES = [0x110000, 0x110001, 0x10FFFF, 0x1FFFFF, 0x200000, 0x200041, 0x3FFFFFF, 0x4000000, 0x7FFFFFFF,
            0x80000000, 0x80000041, 0xFFFFFFFF, 0xFFFFFFFE, 0xFFFF0041, 0xD800, 0xDFFF, 0xD7FF, 0xE000,
            0, 0x7F, 0x80, 0x7FF, 0x800, 0xFFFF, 0x10000, 0x1D800, 0x1DFFF, 0x10D800, 0x20D800]


# ------------------------------------------------------------------ oracle (independent of the Lean model)

def hx(b: bytes) -> str:
    return b.hex() if b else '-'


def unhx(s: str) -> bytes:
    return b'' if s == '-' else bytes.fromhex(s)


def py_encode(cp: int) -> Optional[bytes]:
    """Python's own codec: the UTF-8 of a scalar value, None for what it refuses."""
    try:
        return chr(cp).encode('utf-8')
    except (ValueError, UnicodeEncodeError, OverflowError):
        return None


def py_utf16(units: List[int]) -> Optional[str]:
    try:
        return b''.join(struct.pack('>H', u) for u in units).decode('utf-16-be')
    except UnicodeDecodeError:
        return None


TY_W = {'c': 8, 'uc': 8, 'us': 16, 'u': 32, 'ull': 64}


def c_escape(ch: str) -> Optional[int]:
    """ISO C simple escapes via Python's unicode_escape codec (plus \\? which Python lacks)."""
    if ch == '?':
        return 63
    if ch in '\'"\\abfnrtv':
        return ord(('\\' + ch).encode('ascii').decode('unicode_escape'))
    return None


def json_escape(ch: str) -> Optional[int]:
    if ch == 'u' or not (0x20 <= ord(ch) < 0x7f):
        return None
    try:
        r = json.loads('"\\' + ch + '"')
    except ValueError:
        return None
    return ord(r) if len(r) == 1 else None


def lit_oracle(body: bytes) -> Tuple[str, bytes]:
    """The meaning of a C-like literal body as documented in src/example/pegtl/unescape.cpp."""
    out = bytearray()
    i, n = 0, len(body)
    while i < n:
        c = body[i]
        if c != 0x5C:
            if c == 0x22 or c < 0x20:
                return 'nomatch', b''
            out.append(c)
            i += 1
            continue
        if i + 1 >= n:
            return 'nomatch', b''
        e = chr(body[i + 1])
        width = {'x': 2, 'u': 4, 'U': 8}.get(e)
        if width is not None and i + 2 + width <= n and all(chr(d) in XD for d in body[i + 2:i + 2 + width]):
            v = int(body[i + 2:i + 2 + width].decode('ascii'), 16)
            if e == 'x':
                out.append(v)
            else:
                enc = py_encode(v)
                if enc is None:
                    return 'err', bytes(out)
                out += enc
            i += 2 + width
            continue
        r = c_escape(e)
        if r is None:
            return 'nomatch', b''
        out.append(r)
        i += 2
    return 'ok', bytes(out)


def expected_lines(cmd: str) -> List[str]:
    """What the property says the implementation must print for one command line."""
    w = cmd.split(' ')
    k = w[0]
    if k == 'R':
        a, n = int(w[1]), int(w[2])
        res = []
        for cp in range(a, a + n):
            e = py_encode(cp)
            res.append(f"A {cp} 1 {hx(e)}" if e is not None else f"A {cp} 0 -")
        return res
    if k == 'P':
        cp, pre = int(w[1]), w[2]
        e = py_encode(cp)
        p = unhx(pre)
        return [f"P {cp} {pre} 1 {hx(p + e)}" if e is not None else f"P {cp} {pre} 0 {hx(p)}"]
    if k == 'HC':
        ch = chr(int(w[1]))
        return [f"HC {w[1]} {int(ch, 16)}" if ch in XD else f"HC {w[1]} nomatch"]
    if k == 'H':
        ds = '' if w[2] == '-' else w[2]
        return [f"H {w[1]} {w[2]} {int(ds or '0', 16) % (1 << TY_W[w[1]])}"]
    if k == 'C':
        r = (json_escape if w[1] == 'j' else c_escape)(chr(int(w[2])))
        return [f"C {w[1]} {w[2]} {r}" if r is not None else f"C {w[1]} {w[2]} nomatch"]
    if k == 'U':
        pre, txt = w[1], w[2]
        v = int(unhx(txt)[1:].decode('ascii'), 16)
        e = py_encode(v)
        p = unhx(pre)
        return [f"U {pre} {txt} ok {hx(p + e)}" if e is not None else f"U {pre} {txt} err {hx(p)}"]
    if k == 'X':
        pre, txt = w[1], w[2]
        v = int(unhx(txt)[1:].decode('ascii'), 16)
        return [f"X {pre} {txt} ok {hx(unhx(pre) + bytes([v]))}"]
    if k == 'J':
        pre, txt = w[1], w[2]
        t = unhx(txt).decode('ascii')
        units = [int(t[i + 2:i + 6], 16) for i in range(0, len(t), 6)]
        p = unhx(pre)
        s = py_utf16(units)
        if s is not None:
            return [f"J {pre} {txt} ok {hx(p + s.encode('utf-8'))}"]
        # rejected: the string holds the longest well-formed prefix (everything before the lone surrogate)
        for j in range(len(units) - 1, -1, -1):
            s = py_utf16(units[:j])
            if s is not None:
                return [f"J {pre} {txt} err {hx(p + s.encode('utf-8'))}"]
    if k == 'L':
        r, out = lit_oracle(unhx(w[1]))
        return [f"L {w[1]} {r} {hx(out)}"]
    return ['?']


def nontrivial(cmd: str) -> bool:
    """rule for `distinct_nontrivial`: the case needs more than a byte copy — a multi-byte encoding,
    a refusal, a surrogate, a hex string of >= 2 digits, a table hit, or a literal with an escape."""
    w = cmd.split(' ')
    k = w[0]
    if k == 'P':
        return int(w[1]) >= 0x80
    if k == 'HC':
        return chr(int(w[1])) in XD
    if k == 'H':
        return len(w[2]) >= 2 and w[2] != '-'
    if k == 'C':
        return (json_escape if w[1] == 'j' else c_escape)(chr(int(w[2]))) is not None
    if k in ('U', 'X'):
        return True
    if k == 'J':
        return len(unhx(w[2])) > 6 or int(unhx(w[2])[2:].decode(), 16) >= 0x80
    if k == 'L':
        return b'\\' in unhx(w[1])
    return False


# ------------------------------------------------------------------ generation

def rcase(rng: random.Random, s: str) -> str:
    return ''.join(ch.upper() if rng.random() < 0.5 else ch.lower() for ch in s)


def gen_sections(tier: str, seed: int) -> Tuple[Dict[str, List[str]], Dict[str, Any]]:
    rng = random.Random(seed * 1000003 + 17)
    thorough = tier == 'thorough'
    sec: Dict[str, List[str]] = {}
    dist: Dict[str, Any] = {}

    # R: every value 0 .. 0x110000, in blocks of 4096
    sec['R'] = [f"R {a} {min(4096, 0x110001 - a)}" for a in range(0, 0x110001, 4096)]
    dist['append_exhaustive_range'] = [0, 0x110000]
    # ... and 4096 values around every power of two 2^21 .. 2^31, the top of the 32-bit range,
    # thorough: additionally every value up to 0x220000
    hi_blocks = [((1 << k) - 2048, 4096) for k in range(21, 32)] + [((1 << 32) - 4096, 4096)]
    if thorough:
        hi_blocks += [(a, 4096) for a in range(0x111000, 0x220000, 4096)]
    sec['R'] += [f"R {a} {n}" for a, n in hi_blocks]
    dist['append_high_blocks'] = [[a, n] for a, n in hi_blocks[:12]] + ([['0x111000..0x220000', 'all']] if thorough else [])

    # P: boundary / high 32-bit values, with prefixes
    ps = []
    for cp in CP_EDGES:
        for pre in ('-', '61', 'c3a9f0'):
            ps.append(f"P {cp} {pre}")
    nrand = 200000 if thorough else 20000
    for i in range(nrand):
        m = i % 4
        if m == 0:
            cp = rng.getrandbits(32)
        elif m == 1:                                   # valid-looking low 21 bits under garbage high bits
            cp = (rng.randrange(1, 2048) << 21) | rng.randrange(0, 0x110000)
        elif m == 2:                                   # powers of two and neighbours
            cp = min(0xFFFFFFFF, max(0, (1 << rng.randrange(0, 33)) + rng.randrange(-2, 3)))
        else:
            cp = rng.randrange(0x110000, 0x400000)
        ps.append(f"P {cp} {'-' if i % 3 else '7e'}")
    sec['P'] = ps
    dist['append_high_values'] = len(ps)

    # HC / H / C
    hs = [f"HC {b}" for b in range(256)]
    maxlen = {'c': 2, 'uc': 4, 'us': 6, 'u': 10, 'ull': 18}   # `char` is signed: stay within its width (longer = UB shift)
    for ty, ml in maxlen.items():
        hs.append(f"H {ty} -")
        for a in XD:                                   # every string of length 1 and 2
            hs.append(f"H {ty} {a}")
            for b in XD:
                hs.append(f"H {ty} {a}{b}")
        for L in range(3, ml + 1):
            fixed = ['f' * L, 'F' * L, '8' + '0' * (L - 1), '7' + 'f' * (L - 1), '0' * (L - 1) + '1', '1' + '0' * (L - 1),
                     ('0123456789abcdefABCDEF' * 2)[:L], ('fedcbaFEDCBA9876543210')[:L]]
            for f in fixed:
                hs.append(f"H {ty} {f}")
            for _ in range(400 if thorough else 60):
                hs.append(f"H {ty} " + ''.join(rng.choice(XD) for _ in range(L)))
    for t in ('c', 'j'):
        hs += [f"C {t} {b}" for b in range(256)]
    sec['H'] = hs
    dist['unhex_lengths'] = maxlen

    # U / X
    us = []
    for u in J_UNITS + [0x00E9, 0x20AC, 0xABCD]:
        for pre in ('-', '7e'):
            us.append(f"U {pre} " + ('u' + rcase(rng, f"{u:04x}")).encode().hex())
    for v in CP_EDGES + [0x1F600, 0xABCDE, 0x10000, 0xFFFF, 0xE9]:
        us.append("U - " + ('U' + rcase(rng, f"{v & 0xFFFFFFFF:08x}")).encode().hex())
    for _ in range(5000 if thorough else 600):
        v = rng.choice([rng.getrandbits(32), rng.randrange(0, 0x110000), rng.randrange(0xD700, 0xE100)])
        us.append("U 61 " + ('U' + rcase(rng, f"{v:08x}")).encode().hex())
        us.append("U - " + ('u' + rcase(rng, f"{v & 0xFFFF:04x}")).encode().hex())
    for b in range(256):
        us.append("X - " + ('x' + f"{b:02x}").encode().hex())
        us.append("X 7e " + ('x' + f"{b:02X}").encode().hex())
    sec['U'] = us

    # J: all sequences of 1..3 escapes from the boundary classes; random longer ones
    js = []
    for a in J_UNITS:
        js.append([a])
        for b in J_UNITS:
            js.append([a, b])
            for c in J_UNITS:
                js.append([a, b, c])
    dist['unescape_j_exhaustive'] = {'units': [f"{u:04X}" for u in J_UNITS], 'lengths': [1, 2, 3], 'sequences': len(js)}

    def runit():
        r = rng.random()
        if r < 0.3:
            return rng.randrange(0xD800, 0xDC00)
        if r < 0.6:
            return rng.randrange(0xDC00, 0xE000)
        if r < 0.8:
            return rng.choice(J_UNITS)
        return rng.randrange(0, 0x10000)

    def rseq():
        """token-wise: proper pairs and BMP units mostly, a lone surrogate now and then"""
        out = []
        for _ in range(rng.randrange(1, 5)):
            r = rng.random()
            if r < 0.40:
                out += [rng.choice([0xD800, 0xDBFF, rng.randrange(0xD800, 0xDC00)]), rng.choice([0xDC00, 0xDFFF, rng.randrange(0xDC00, 0xE000)])]
            elif r < 0.85:
                out.append(rng.choice([rng.randrange(0, 0xD800), rng.randrange(0xE000, 0x10000), rng.choice(J_UNITS[:9] + J_UNITS[17:])]))
            else:
                out.append(runit())
        return out
    nj = 30000 if thorough else 3000
    for _ in range(nj):
        js.append(rseq())
    dist['unescape_j_random'] = nj
    jl = []
    for i, seq in enumerate(js):
        txt = ''.join('\\u' + rcase(rng, f"{u:04x}") for u in seq)
        jl.append(f"J {'-' if i % 4 else '7e'} " + txt.encode().hex())
    sec['J'] = jl

    # L: literals of the example grammar with every action
    def piece():
        r = rng.random()
        if r < 0.30:
            return rng.choice(['a', 'Z', ' ', '~', '\u00e9', '\u20ac', '\U0001F600', '\ud7ff', '\uffff', '\U0010ffff', '\x7f', '\x80']).encode('utf-8')
        if r < 0.45:
            return ('\\x' + rcase(rng, f"{rng.randrange(256):02x}")).encode()
        if r < 0.70:
            return ('\\u' + rcase(rng, f"{runit() if rng.random() < 0.15 else rng.choice([rng.randrange(0, 0xD800), rng.randrange(0xE000, 0x10000), 0x41, 0x7FF, 0x800]):04x}")).encode()
        if r < 0.85:
            v = rng.choice([rng.randrange(0, 0xD800), rng.randrange(0xE000, 0x110000), 0x10FFFF, 0x10000]) if rng.random() < 0.9 else rng.choice([0x110000, 0xD800, 0xDFFF, rng.getrandbits(32)])
            return ('\\U' + rcase(rng, f"{v:08x}")).encode()
        return ('\\' + rng.choice('\'"?\\abfnrtv')).encode()
    ls = ['L -']
    for _ in range(20000 if thorough else 3000):
        body = b''.join(piece() for _ in range(rng.randrange(1, 8)))
        ls.append("L " + body.hex())
    sec['L'] = ls
    dist['literals'] = len(ls)
    return sec, dist


# ------------------------------------------------------------------ running

def n_out(cmd: str) -> int:
    return int(cmd.split(' ')[2]) if cmd.startswith('R ') else 1


def split_outputs(cmds: List[str], lines: List[str]) -> List[List[str]]:
    """Group output lines per command (missing lines -> shorter/empty groups)."""
    res, i = [], 0
    for c in cmds:
        n = n_out(c)
        res.append(lines[i:i + n])
        i += n
    return res


def build(v: common.Verdict) -> Optional[Tuple[Path, Path]]:
    ok, out = leaf.build_lean_exe('drv_c17')
    if not ok:
        v.broke('lean driver drv_c17 does not build: ' + out[-400:])
        return None
    exe = common.BUILD / 'c17' / 'leaf_c17'
    ok, err = leaf.compile_cpp(HARNESS, exe, extra=['-I', str(common.REPO / 'src' / 'example' / 'pegtl')])
    if not ok:
        v.broke('harness/leaf_c17.cpp no longer compiles against the repo headers: ' + err[-600:])
        return None
    return exe, leaf.lean_exe('drv_c17')


def evaluate(v: common.Verdict, exe: Path, drv: Path, sections: Dict[str, List[str]], stats: Dict[str, Any]) -> None:
    """Run both sides on every section, diff them, run the oracle over the implementation's lines."""
    stats.setdefault('evaluations', 0)
    stats.setdefault('nontrivial', set())
    stats.setdefault('mismatch_model', 0)
    stats.setdefault('oracle_hits', 0)
    stats.setdefault('samples', [])
    stats.setdefault('per_section', {})
    stats.setdefault('outcomes', {})
    reported = 0
    for name, cmds in sections.items():
        text = '\n'.join(cmds) + '\n'
        pc = leaf.run_exe(exe, text)
        pl = leaf.run_exe(drv, text)
        c_lines = pc.stdout.splitlines()
        l_lines = pl.stdout.splitlines()
        c_grp = split_outputs(cmds, c_lines)
        l_grp = split_outputs(cmds, l_lines)
        if pl.returncode != 0:
            v.broke(f"lean driver failed on section {name}: rc={pl.returncode} {pl.stderr[-300:]}")
        crashed = pc.returncode != 0
        if crashed:
            v.broke(f"correspondence: the C++ harness died in section {name}: rc={pc.returncode} " + pc.stderr.strip()[:400])
        total = 0
        first_missing_done = False
        for cmd, cg, lg in zip(cmds, c_grp, l_grp):
            n = n_out(cmd)
            total += len(cg)
            exp = expected_lines(cmd)
            if len(cg) < n:
                # the harness died before (or while) answering this command
                if crashed and not first_missing_done:
                    first_missing_done = True
                    v.failing_input({'command': cmd, 'section': name, 'observed': cg[-3:] + ['<process died: ' + pc.stderr.strip()[:600] + '>'],
                                     'expected': exp[:max(1, len(cg) + 1)][-3:], 'oracle': 'python codecs', 'model': lg[-3:]})
                    stats['oracle_hits'] += 1
                continue
            if cg != lg:
                stats['mismatch_model'] += 1
                bad = [(a, b) for a, b in zip(cg, lg) if a != b][:3] or [(cg[-1], '<missing>')]
                v.broke(f"correspondence: model and implementation disagree on `{cmd}`: impl `{bad[0][0]}` model `{bad[0][1]}`")
            if cg != exp:
                stats['oracle_hits'] += 1
                bad = [(a, b) for a, b in zip(cg, exp) if a != b]
                nbad = len(bad)
                if reported < 8:
                    reported += 1
                    if cmd.startswith('R '):
                        cp = int(bad[0][0].split(' ')[1])
                        rc = f"R {cp} 1"
                        nbad, bad = len(bad), bad[:1]
                    else:
                        rc = cmd
                    v.failing_input({'command': rc, 'section': name, 'observed': [b[0] for b in bad[:3]],
                                     'expected': [b[1] for b in bad[:3]], 'oracle': 'python codecs (chr().encode, utf-16-be strict, int(,16), json, unicode_escape)',
                                     'model': [l for l in lg if l not in cg][:3], 'mismatching_lines_in_block': nbad})
            if cmd.startswith('R '):
                a = int(cmd.split(' ')[1])
                stats['nontrivial'].update(f"A {cp}" for cp in range(max(a, 0x80), a + n))
            elif nontrivial(cmd):
                stats['nontrivial'].add(cmd)
            for ln in cg:
                w = ln.split(' ')
                key = w[0] + ':' + (w[2] if w[0] == 'A' else w[3] if w[0] in ('P', 'U', 'X', 'J') else w[2] if w[0] == 'L' else ('nomatch' if w[-1] == 'nomatch' else 'value'))
                stats['outcomes'][key] = stats['outcomes'].get(key, 0) + 1
        stats['evaluations'] += total
        stats['per_section'][name] = {'commands': len(cmds), 'lines': total}
        pick = [c for c in c_lines if not c.startswith('A ')]
        if name == 'R':
            pick = [c_lines[i] for i in (0x41, 0xE9, 0x20AC, 0xD800, 0x1F600, 0x10FFFF, 0x110000) if i < len(c_lines)]
        stats['samples'] += pick[:: max(1, len(pick) // 4)][:5]


def evidence(rep: common.LeanReport, stats: Dict[str, Any], dist: Dict[str, Any], tier: str) -> Dict[str, Any]:
    return {
        'level': 'proof',
        'coverage': {
            'obligations': rep.obligations,
            'discharged': rep.discharged,
            'checker_cmd': rep.checker_cmd,
            'trusted_base': common.TRUSTED_BASE + [
                "C17: `unsigned` modelled as Nat (no operation of utf8_append_utf32/unescape_j can overflow 32 bits; unhex_string's wrap is `% 2^w`); `const char*` modelled as the input suffix; std::string as List UInt8",
                "C17: harness/leaf_c17.cpp includes src/example/pegtl/unescape.cpp and json_unescape.hpp textually; Python codecs (utf-8, utf-16-be strict, unicode_escape, json) are the oracle",
            ],
            'theorems': rep.theorems,
            'axioms': rep.axioms,
            'examples': rep.examples,
            'evaluations': stats.get('evaluations', 0),
            'distinct_nontrivial': len(stats.get('nontrivial', ())),
            'rule': "one evaluation = one observation line of the real code (one utf8_append_utf32 call, one unhex/unescape call or one parse running the unescape actions); "
                    "non-trivial = code point >= 0x80 (multi-byte or refused), hex digit / string of >= 2 digits, escape-table hit, any \\x/\\u/\\U escape, "
                    "a \\uXXXX sequence with >= 2 escapes or a non-ASCII unit, a literal containing a backslash; distinct = distinct command",
            'samples': stats.get('samples', [])[:24],
            'exhaustive': True,
            'exhaustive_scope': "utf8_append_utf32 on every value 0..0x110000; unescape_j on every sequence of 1..3 escapes over the listed 20 boundary units; "
                                "unhex_char / unescape_c tables on all 256 bytes; unhex_string on every digit string of length <= 2 for 5 integer types; unescape_x on all 256 byte values. "
                                "High 32-bit values, longer hex strings, longer escape sequences and literals are boundary-structured + seeded random.",
            'distribution': dist,
            'per_section': stats.get('per_section', {}),
            'outcomes': stats.get('outcomes', {}),
            'model_vs_impl_mismatches': stats.get('mismatch_model', 0),
            'oracle_hits': stats.get('oracle_hits', 0),
            'lean_problems': rep.problems,
        },
        'assumptions': [
            "agreement of model and implementation is observed on the explored inputs (exhaustive where stated), not proved",
            "the documented MUST-preconditions of the actions (xdigit input, (size+1)%6==0) are established by the driving grammars, as in the library's own examples",
        ],
    }


def run(tier: str) -> int:
    v = common.Verdict(PROP, tier)
    t0 = time.time()
    rep = common.check_lean(['PegtlVerif.Props.C17'], leanchecker=(tier == 'thorough'))
    if not rep.ok:
        for p in rep.problems:
            v.broke('lean: ' + p)
    print(f"[C17] lean obligations {rep.discharged}/{rep.obligations} ({time.time() - t0:.1f}s)")
    stats: Dict[str, Any] = {}
    sections, dist = gen_sections(tier, common.seed())
    built = build(v)
    if built is not None:
        exe, drv = built
        evaluate(v, exe, drv, sections, stats)
        print(f"[C17] correspondence: {stats['evaluations']} observations, {len(stats['nontrivial'])} distinct non-trivial, "
              f"model mismatches {stats['mismatch_model']}, oracle hits {stats['oracle_hits']} ({time.time() - t0:.1f}s)")
        print(f"[C17] distribution: " + json.dumps({k: s['lines'] for k, s in stats['per_section'].items()}))
    return v.finish(evidence(rep, stats, dist, tier))


def replay(path: str) -> int:
    payload = json.loads(Path(path).read_text())
    if payload.get('kind') != 'failing-input' or 'command' not in payload:
        return run('quick')
    class ReplayVerdict(common.Verdict):
        def failing_input(self, pl):                      # re-evaluation only: do not write another replay file
            self.violations.append(Path(path))
            self.lines.append(f"VIOLATION property={PROP} replay={path}")

    v = ReplayVerdict(PROP, 'quick')
    built = build(v)
    stats: Dict[str, Any] = {}
    if built is not None:
        evaluate(v, built[0], built[1], {'replay': [payload['command']]}, stats)
        print(f"[C17] replay `{payload['command']}`: oracle hits {stats['oracle_hits']}, model mismatches {stats['mismatch_model']}")
    # a replay writes no evidence file of its own
    for l in v.lines:
        print(l)
    return 1 if (v.violations or v.broken) else 0
