"""C08 — control hooks form a balanced, truthful protocol.
Proof: lean/PegtlVerif/Props/C08.lean (every trace of the model is accepted by the hook automaton, for controls with and
without unwind(); exact local protocol of match(); start = success + failure + unwind per rule).
Tie: full-trace differential run with throwing / vetoing actions on arbitrary rules, must-raisers at every depth, unwind on/off.
Oracle: the same automaton re-implemented in Python, run on the implementation's own hook log; plus the real coverage<>()
facility's counters (start = success + failure + unwind for every rule and branch) on corpus grammars."""
from __future__ import annotations
import os
import random
import subprocess
import time
from typing import Dict, List, Optional, Tuple

from . import common, corpus, engine, profiles
from .diffrun import Case, Config, Trace, cxx_flags, hexs
from .gram import Grammar


def oracle_automaton(c: Case, tr: Trace) -> Optional[str]:
    """One frame per Control<Rule>::match invocation: [id, status] with status fresh | started | acted | ('closed', k)."""
    u = bool(c.cfg.unwind)
    stack: List[List] = []
    for l in tr.events:
        p = l.split()
        t = p[0]
        i = int(p[1])
        if t == 'E':
            stack.append([i, 'fresh', u])
            continue
        if t in ('ra', 'sc', 'ss', 'sd', 'rp', 'cs', 'csu', 'cfa', 'cuw'):
            continue
        if not stack:
            return f"event '{l}' outside any invocation"
        top = stack[-1]
        if t != 'X' and top[0] != i:
            return f"hook '{l}' for rule {i} while the innermost open invocation is of rule {top[0]}"
        if t == 'st':
            if top[1] != 'fresh':
                return f"second start for one invocation of rule {i}"
            top[1] = 'started'
            if len(p) > 5 and p[5] != '0':
                top[2] = True       # the second control family defines unwind()
        elif t in ('ap', 'a0'):
            if top[1] != 'started':
                return f"action call for rule {i} in state {top[1]} (must be after start, before the closing hook, at most once)"
            top[1] = 'acted'
        elif t in ('su', 'fa', 'uw'):
            if top[1] not in ('started', 'acted'):
                return f"closing hook '{l}' for rule {i} in state {top[1]}"
            top[1] = ('closed', {'su': 1, 'fa': 0, 'uw': 2}[t])
        elif t == 'X':
            if top[0] != i:
                return f"exit of rule {i} while rule {top[0]} is innermost"
            r = int(p[2])
            st = top[1]
            ok = True
            if st == 'fresh':
                ctl = c.g.nodes[i].ctl if i in c.g.nodes else False
                wrap = (c.g.acts.get(i).wrap if c.cfg.fam == 0 and c.g.acts.get(i) else 'none')
                if ctl and wrap == 'none' and c.cfg.fam == 0:
                    ok = False      # a rule visible to the control must have received start
            elif st in ('started', 'acted'):
                ok = (r == 2 and not top[2])
            else:
                k = st[1]
                ok = (k == r and (r != 2 or top[2])) or (k == 1 and r == 2)
                if not ok and k == 0 and r == 2 and c.cfg.mi:
                    # must_if< Errors >::control: the failure hook of a rule with raise_on_failure raises (HL's exitOkM); and such a rule never fails locally
                    rof = set(c.g.mi_rof) if getattr(c.g, 'mi_rof', None) is not None else set(getattr(c.g, 'mi_msgs', None) or ())
                    ok = i in rof
                if ok and k == 0 and r == 0 and c.cfg.mi:
                    rof = set(c.g.mi_rof) if getattr(c.g, 'mi_rof', None) is not None else set(getattr(c.g, 'mi_msgs', None) or ())
                    if i in rof:
                        return f"rule {i} has raise_on_failure under the must_if control but failed locally"

            if not ok:
                return f"rule {i} returned {r} but its hooks ended in state {st} (unwind() available: {top[2]})"
            stack.pop()
    if stack:
        return f"invocations left open at the end: {stack}"
    return None


def oracle_raise_source(c: Case, tr: Trace) -> Optional[str]:
    """raise only from a must-context, a raise rule (or a limit wrapper)."""
    open_kinds: List[str] = []
    open_ids: List[int] = []
    rof = set()
    if c.cfg.mi:      # must_if< Errors >::control: the failure hook of a rule with raise_on_failure raises for that rule itself (Lean: raiseOK)
        rof = set(c.g.mi_rof) if getattr(c.g, 'mi_rof', None) is not None else set(getattr(c.g, 'mi_msgs', None) or ())
    prev = ''
    for l in tr.events:
        p = l.split()
        if p[0] == 'E':
            nid = int(p[1])
            open_kinds.append(c.g.nodes[nid].kind if nid in c.g.nodes else '?')
            open_ids.append(nid)
        elif p[0] == 'X':
            open_kinds.pop()
            open_ids.pop()
        elif p[0] == 'ra':
            if int(p[1]) >= 1000000:
                prev = l
                continue
            if open_ids and int(p[1]) == open_ids[-1] and int(p[1]) in rof and prev.split()[:2] == ['fa', p[1]]:
                prev = l
                continue
            if not open_kinds or open_kinds[-1] not in ('must', 'raise'):
                return f"raise for rule {p[1]} while the innermost invocation is of kind {open_kinds[-1] if open_kinds else None}"
        prev = l
    return None


CA_TAGS = ('cs', 'csu', 'cfa', 'cuw')


def oracle_control_action(c: Case, tr: Trace) -> Optional[str]:
    """contrib/control_action.hpp: for a rule whose action class derives from control_action, `start` directly after the invocation
    is entered (same position), then the rule's whole match(), then exactly one of `success` (invocation returns true) / `failure`
    (returns false) at the position the invocation is left at / `unwind` (an exception passes; only if the class defines it)."""
    stack: List[List] = []        # [id, wrap, enter pos, hooks seen]
    for l in tr.events:
        p = l.split()
        t = p[0]
        if t == 'E':
            nid = int(p[1])
            a = c.g.acts.get(nid) if c.cfg.fam == 0 else None
            stack.append([nid, a.wrap if a is not None else 'none', p[4:7], []])
        elif t in CA_TAGS:
            if not stack or stack[-1][0] != int(p[1]):
                return f"control_action hook '{l}' outside the invocation of its rule"
            fr = stack[-1]
            if not fr[1].startswith('cta:'):
                return f"control_action hook '{l}' for a rule without a control_action class"
            if t == 'cs' and (fr[3] or p[2:5] != fr[2]):
                return f"control_action start '{l}' is not the first hook at the position the rule was entered at {fr[2]}"
            if t != 'cs' and fr[3] != ['cs']:
                return f"control_action closing hook '{l}' after {fr[3]}"
            fr[3].append(t)
            fr.append(p[2:5])
        elif t == 'X':
            fr = stack.pop()
            if not fr[1].startswith('cta:'):
                continue
            want = {'1': ['cs', 'csu'], '0': ['cs', 'cfa'], '2': (['cs', 'cuw'] if fr[1] == 'cta:1' else ['cs'])}[p[2]]
            if fr[3] != want:
                return f"rule {fr[0]} with a control_action class returned {p[2]} after the hooks {fr[3]} (expected {want})"
            if p[2] in ('0', '1') and fr[-1] != p[3:6]:
                return f"control_action closing hook of rule {fr[0]} at {fr[-1]}, the invocation ended at {p[3:6]}"
        elif stack and stack[-1][1].startswith('cta:') and stack[-1][3] not in (['cs'],) and int(p[1]) == stack[-1][0] and t in ('st',):
            return f"the rule's own start hook before the control_action start for rule {p[1]}"
    return None


ORACLES = [('automaton', oracle_automaton), ('raise-source', oracle_raise_source)]


# ---------------------------------------------------------------- the real coverage<>() facility

def coverage_part(v: common.Verdict, cov: Dict, rng: random.Random, tier: str):
    n = 10 if tier == 'quick' else 50
    groups = []
    for i in range(n):
        rg = corpus.RandGen(rng, False, True, rng.randint(3, 6))
        g, roots = rg.grammar(f"cv{i}")
        corpus.attach_actions(rng, g, 'throw')
        groups.append((g, roots))
    inputs = corpus.sample_inputs(rng, [97, 98, 99, 120], 4, 120 if tier == 'quick' else 400, 6)
    src = ['#include "vharness.hpp"', '#include <tao/pegtl/contrib/coverage.hpp>', '#include <iostream>', '#include <sstream>']
    for g, _ in groups:
        src.append(g.cpp_decls())
    src.append(r'''
template< typename Root, template< typename... > class Act >
void cov_case( const char* id, const std::string& bytes ) {
  char* buf = new char[ bytes.size() ]; if( !bytes.empty() ) std::memcpy( buf, bytes.data(), bytes.size() );
  tao::pegtl::coverage_result result; const char* res = "fail";
  { tao::pegtl::memory_input<> in( buf, buf + bytes.size(), "cov" );
    try { res = tao::pegtl::coverage< Root, Act >( in, result ) ? "ok" : "fail"; } catch( ... ) { res = "exception"; } }
  std::size_t bad = 0, rules = 0, starts = 0;
  for( const auto& [ name, e ] : result ) { ++rules; starts += e.start;
    if( e.start != e.success + e.failure + e.unwind ) ++bad;
    for( const auto& [ bn, b ] : e.branches ) if( b.start != b.success + b.failure + b.unwind ) ++bad; }
  std::printf( "COV %s %s rules=%zu starts=%zu bad=%zu\n", id, res, rules, starts, bad ); delete[] buf; }
static int hv( char c ) { return ( c >= '0' && c <= '9' ) ? c - '0' : ( c >= 'a' && c <= 'f' ) ? c - 'a' + 10 : 0; }
int main() { std::string line; while( std::getline( std::cin, line ) ) { std::istringstream is( line ); int k; std::string id, hex; if( !( is >> k >> id >> hex ) ) continue;
  std::string bytes; if( hex != "-" ) for( std::size_t i = 0; i + 1 < hex.size(); i += 2 ) bytes.push_back( char( hv( hex[ i ] ) * 16 + hv( hex[ i + 1 ] ) ) );
  switch( k ) {''')
    feed = []
    k = 0
    for g, roots in groups:
        for root in roots[:1]:
            src.append(f"  case {k}: cov_case< {g.nodes[root].cpp}, {g.ns}::act0 >( id.c_str(), bytes ); break;")
            for j, d in enumerate(inputs):
                feed.append(f"{k} {g.gid}_{j} {hexs(d)}")
            k += 1
    src.append("  default: break; } } return 0; }")
    bdir = common.BUILD / 'C08_cov'
    bdir.mkdir(parents=True, exist_ok=True)
    sp, ex = bdir / 'cov.cpp', bdir / 'cov'
    sp.write_text("\n".join(src) + "\n")
    t0 = time.time()
    cp = subprocess.run(['g++'] + cxx_flags('asan') + [str(sp), '-o', str(ex)], capture_output=True, text=True)
    if cp.returncode != 0:
        v.broke("coverage driver no longer compiles against /repo: " + cp.stderr[:2500])
        return
    env = dict(os.environ, ASAN_OPTIONS='detect_leaks=0')
    rp = subprocess.run([str(ex)], input="\n".join(feed) + "\n", capture_output=True, text=True, env=env, timeout=1200)
    if rp.returncode != 0:
        v.broke("coverage driver aborted: " + rp.stderr[:2500])
    st = {'grammars': len(groups), 'cases': 0, 'exception_runs': 0, 'bad': 0, 'compile_s': round(time.time() - t0, 1)}
    for ln in rp.stdout.splitlines():
        if not ln.startswith('COV '):
            continue
        f = ln.split()
        st['cases'] += 1
        if f[2] == 'exception':
            st['exception_runs'] += 1
        bad = int(f[5].split('=')[1])
        if bad:
            st['bad'] += 1
            if len(v.violations) < 5:
                gid, j = f[1].rsplit('_', 1)
                g = next(g for g, _ in groups if g.gid == gid)
                v.failing_input({'oracle': 'coverage-counters', 'what': f"coverage<>() counters violate start = success + failure + unwind for {bad} rule(s)/branch(es)",
                                 'grammar': g.proto_lines(), 'input_hex': inputs[int(j)].hex(), 'observed': ln})
    cov['coverage_facility'] = st
    cov['evaluations'] += st['cases']


def control_action_profile():
    from .gram import ActSpec

    def grams(rng, tier):
        out = []
        corpus.RACT_MODE[0] = 'mixed'
        for i in range(8 if tier == 'quick' else 50):
            rg = corpus.RandGen(rng, False, True, rng.randint(3, 6))
            g, roots = rg.grammar(f"cta{i}")
            corpus.attach_actions(rng, g, 'throw')
            for nid, nd in g.nodes.items():
                if nd.ctl and rng.random() < 0.35:
                    a = g.acts.get(nid) or ActSpec()
                    if a.wrap == 'none':
                        a.wrap = f"cta:{rng.randint(0, 1)}"
                        g.acts[nid] = a
            out.append((g, roots[:4], {'kind': 'control_action'}))
        return out
    return engine.Profile('cta', grams, profiles.amr_configs(ams=((1, 'r'), (1, 'o'), (0, 'o')), unwinds=(1, 0)),
                          profiles.inputs_exhaustive(4, 6, cap_q=100, cap_t=600), ORACLES + [('control_action', oracle_control_action)],
                          per_tu=2, compare_filter=lambda l: l.split(' ', 1)[0] not in CA_TAGS)


def run(tier: str) -> int:
    cfg = profiles.amr_configs(ams=((1, 'r'), (1, 'o'), (0, 'o')), unwinds=(1, 0))
    ps = [
        profiles.systematic_profile('throw', lambda k, f: True, True, 24, 140, ORACLES, actions_mode='throw',
                                    inputs=profiles.inputs_exhaustive(3, 5, cap_q=80, cap_t=500), per_tu=2, configs=cfg,
                                    ctx_names=['top', 'sor-first', 'seq-tail', 'in-tcrf', 'in-must', 'in-at']),
        profiles.random_profile('rnd', False, True, 20, 100, ORACLES, actions_mode='throw',
                                inputs=profiles.inputs_exhaustive(4, 6, cap_q=150, cap_t=900), per_tu=2, configs=cfg),
        profiles.control_profile('cc', 8, 50, ORACLES, actions_mode='throw', per_tu=2),
        # contrib/control_action.hpp: action classes with start / success / failure (/ unwind) on a third of the rules; the model
        # does not know them (their lines are dropped for the comparison), the oracle judges them
        control_action_profile(),
        # the same runs through coverage<>(): state_control<> around the logging control (with and without unwind()) must forward
        # exactly the hooks of a plain parse, for visible rules only
        # (no apply<> / if_apply<> rules here: their action classes are called with every state, also the one state_control<> appends)
        profiles.random_profile('cov', False, True, 8, 50, ORACLES, actions_mode='throw', racts='off',
                                inputs=profiles.inputs_exhaustive(4, 6, cap_q=60, cap_t=400), per_tu=2,
                                configs=lambda g, root, tier: [Config(root, 1, 'o', 'lf_crlf', 0, uw, 0, 0, 0, cv) for uw in (1, 0) for cv in (1, 2, 3)]),   # parse() defaults: apply_mode::action, rewind_mode::optional
        # every raising / catching rule kind through the same three facilities (their control adaptors have separate code paths for
        # raise and raise_nested, and for zero, one and several states)
        profiles.systematic_profile('covsys', lambda k, f: f == 'raise', True, 28, 120, ORACLES, actions_mode='throw', racts='off',
                                    inputs=profiles.inputs_exhaustive(3, 4, cap_q=50, cap_t=300), per_tu=2,
                                    configs=lambda g, root, tier: [Config(root, 1, 'o', 'lf_crlf', 0, 1, 0, 0, 0, cv) for cv in (1, 2, 3)],
                                    ctx_names=['top', 'seq-tail', 'in-tcrf']),
        # the run's control is must_if< Errors, ctl >::control (C08_must_if_never_fails, C08_protocol with Ctx.msgs): failure hooks that raise, with
        # messages and with the documented raise_on_failure opt-in / opt-out table
        profiles.mustif_profile('mi', 8, 40, ORACLES + [('must_if', _oracle_mustif)], per_tu=2),
        # the logging control as the Base of the state-shuffling adaptors (rotate_states_left / right, reverse_states, remove_first_state;
        # zero-, one- and three-state overloads): same hooks as a plain parse, and every hook is handed the states in the documented order
        profiles.random_profile('shuf', False, True, 6, 40, ORACLES + [('shuffle', oracle_shuffle)], actions_mode='throw', racts='off',
                                inputs=profiles.inputs_exhaustive(4, 6, cap_q=50, cap_t=300), per_tu=2,
                                configs=lambda g, root, tier: [Config(root, 1, 'o', 'lf_crlf', 0, 1, 0, 0, 0, cv) for cv in (4, 5, 6, 7, 8, 9)]),
        profiles.systematic_profile('shufsys', lambda k, f: f == 'raise' or k in ('seq2', 'sor2', 'star1', 'at1', 'if_apply1'), True, 16, 60,
                                    ORACLES + [('shuffle', oracle_shuffle)], actions_mode='throw',
                                    inputs=profiles.inputs_exhaustive(3, 4, cap_q=40, cap_t=200), per_tu=2,
                                    configs=lambda g, root, tier: [Config(root, 1, 'o', 'lf_crlf', 0, uw, 0, 0, 0, cv) for (uw, cv) in ((1, 4), (0, 5), (1, 7), (1, 8))],
                                    ctx_names=['top', 'in-tcrf']),
    ]
    return engine.run_engine('C08', tier, ['PegtlVerif.Props.C08'], ps,
                             extra=lambda v, cov, rng: coverage_part(v, cov, rng, tier))


def _oracle_mustif(c: Case, tr: Trace) -> Optional[str]:
    from .c05_mustif import oracle_mustif
    return oracle_mustif(c, tr)


def oracle_shuffle(c: Case, tr: Trace) -> Optional[str]:
    for l in tr.alerts:
        if l.startswith('SHUF-BAD'):
            return f"a control hook below a state-shuffling adaptor was handed the states in the wrong order: '{l}' (run mode {c.cfg.cov})"
    return None


def replay(path: str) -> int:
    return engine.replay('C08', path, ORACLES)
