"""common.py — shared machinery of every check: paths, Lean build + audit (sorry/axiom scan,
`#print axioms`), evidence and replay files, known findings, the verdict protocol."""
from __future__ import annotations
import hashlib
import json
import os
import re
import subprocess
import sys
import time
from pathlib import Path
from typing import Any, Dict, List, Optional, Tuple

VERIF = Path(__file__).resolve().parent.parent
REPO = Path(os.environ.get('VERIF_REPO', '/repo'))
LEAN = VERIF / 'lean'
# (validation runs against a scratch copy of the library redirect their scratch, evidence and replay output, so that they
# can run next to the real checks: seeded/run_all.sh, mutcheck)
BUILD = Path(os.environ.get('VERIF_BUILD', VERIF / 'build'))
EVID = Path(os.environ.get('VERIF_EVID', VERIF / 'evidence'))
REPLAYS = Path(os.environ.get('VERIF_REPLAYS', VERIF / 'replays'))

FORBIDDEN = re.compile(r'\b(sorry|admit|native_decide|bv_decide|implemented_by|unsafe)\b|^axiom |maxHeartbeats 0')
ALLOWED_AXIOMS = {'propext', 'Classical.choice', 'Quot.sound'}

TRUSTED_BASE = [
    "Lean 4.33.0 kernel (lake build; thorough tier re-checks the .olean files with leanchecker)",
    "axioms: only propext, Classical.choice, Quot.sound as printed by #print axioms for every property theorem; no native_decide / bv_decide / sorry / own axioms (source scan on every run)",
    "spec files lean/PegtlVerif/Spec/* (they are the meaning of the property)",
    "hand-written model lean/PegtlVerif/Model/* tied to /repo by the differential correspondence check (agreement is sampled, not proved)",
    "vlib/gram.py resolver of template aliases/inheritance, harness/vharness.hpp observation control, g++ 12 / libstdc++",
]


def seed() -> int:
    try:
        return int(os.environ.get('VERIF_SEED', '1'))
    except ValueError:
        return 1


_driver_built = [False]


def driver_path() -> str:
    """The model driver (lean_exe pegtl_drv), rebuilt from the current Lean sources once per process."""
    exe = LEAN / '.lake' / 'build' / 'bin' / 'pegtl_drv'
    if not _driver_built[0]:
        p = subprocess.run(['lake', 'build', 'pegtl_drv'], cwd=str(LEAN), capture_output=True, text=True, timeout=3600)
        if p.returncode != 0:
            raise RuntimeError("lake build pegtl_drv failed: " + (p.stdout + p.stderr)[-2000:])
        _driver_built[0] = True
    return str(exe)


def repo_fingerprint() -> str:
    h = hashlib.sha256()
    for p in sorted((REPO / 'include').rglob('*.hpp')):
        h.update(str(p.relative_to(REPO)).encode())
        h.update(p.read_bytes())
    return h.hexdigest()[:16]


def sh(cmd: List[str], cwd: Optional[Path] = None, timeout: Optional[int] = None) -> subprocess.CompletedProcess:
    return subprocess.run(cmd, cwd=str(cwd) if cwd else None, capture_output=True, text=True, timeout=timeout)


# ---------------------------------------------------------------- Lean

def strip_comments(src: str) -> str:
    """Remove `--` line comments and (nested) `/- -/` block comments."""
    out = []
    i, depth, n = 0, 0, len(src)
    while i < n:
        if src.startswith('/-', i):
            depth += 1
            i += 2
        elif depth and src.startswith('-/', i):
            depth -= 1
            i += 2
        elif depth:
            if src[i] == '\n':
                out.append('\n')
            i += 1
        elif src.startswith('--', i):
            while i < n and src[i] != '\n':
                i += 1
        else:
            out.append(src[i])
            i += 1
    return ''.join(out)


def scan_forbidden(files: List[Path]) -> List[str]:
    hits = []
    for f in files:
        for ln, line in enumerate(strip_comments(f.read_text()).splitlines(), 1):
            if FORBIDDEN.search(line):
                hits.append(f"{f.relative_to(VERIF)}:{ln}: {line.strip()}")
    return hits


def lean_sources() -> List[Path]:
    return sorted(p for p in (LEAN / 'PegtlVerif').rglob('*.lean')) + [LEAN / 'Main.lean']


def lake_build(targets: List[str], timeout: int = 3600) -> Tuple[bool, str]:
    p = sh(['lake', 'build'] + targets, cwd=LEAN, timeout=timeout)
    return p.returncode == 0, (p.stdout + p.stderr)


def theorem_names(module_file: Path) -> List[str]:
    """Names of the theorems declared in a Props file (namespace-qualified by `namespace` lines)."""
    src = strip_comments(module_file.read_text())
    ns: List[str] = []
    names = []
    for line in src.splitlines():
        m = re.match(r'\s*namespace\s+(\S+)', line)
        if m:
            ns.append(m.group(1))
            continue
        m = re.match(r'\s*end\s+(\S+)', line)
        if m and ns and ns[-1] == m.group(1):
            ns.pop()
            continue
        m = re.match(r'\s*(?:protected\s+|private\s+)?theorem\s+([^\s:({\[]+)', line)
        if m:
            names.append('.'.join(ns + [m.group(1)]))
    return names


def count_examples(module_file: Path) -> int:
    src = strip_comments(module_file.read_text())
    return len(re.findall(r'(?m)^\s*example\b', src))


def audit_axioms(module: str, names: List[str]) -> Tuple[Dict[str, List[str]], str]:
    """`#print axioms` for every name; returns name -> axioms."""
    tmp = BUILD / 'audit'
    tmp.mkdir(parents=True, exist_ok=True)
    f = tmp / f"audit_{module.replace('.', '_')}.lean"
    f.write_text(f"import {module}\n" + "".join(f"#print axioms {n}\n" for n in names))
    p = sh(['lake', 'env', 'lean', str(f)], cwd=LEAN, timeout=1800)
    out = p.stdout + p.stderr
    res: Dict[str, List[str]] = {}
    for m in re.finditer(r"'([^']+)' depends on axioms: \[([^\]]*)\]", out, re.S):
        res[m.group(1)] = [a.strip() for a in m.group(2).replace('\n', ' ').split(',') if a.strip()]
    for m in re.finditer(r"'([^']+)' does not depend on any axioms", out):
        res[m.group(1)] = []
    return res, out


class LeanReport:
    def __init__(self):
        self.ok = True
        self.obligations = 0
        self.discharged = 0
        self.theorems: List[str] = []
        self.axioms: Dict[str, List[str]] = {}
        self.problems: List[str] = []
        self.examples = 0
        self.checker_cmd = ''


def check_lean(prop_modules: List[str], extra_obligation_modules: List[str] = (), leanchecker: bool = False) -> LeanReport:
    """Build the property modules, count obligations (theorems + non-vacuity examples in the
    Props files, + one per extra module such as a `Gen = Expected` sync file), scan for forbidden
    constructs in every Lean source, audit axioms of every property theorem."""
    rep = LeanReport()
    targets = list(prop_modules) + list(extra_obligation_modules)
    rep.checker_cmd = 'cd lean && lake build ' + ' '.join(targets) + ' && lake env lean <#print axioms file>'
    files = []
    for m in prop_modules:
        f = LEAN / (m.replace('.', '/') + '.lean')
        files.append(f)
        if not f.exists():
            rep.ok = False
            rep.problems.append(f"missing {f}")
            continue
        ths = theorem_names(f)
        rep.theorems += ths
        rep.examples += count_examples(f)
    rep.obligations = len(rep.theorems) + rep.examples + len(extra_obligation_modules)
    hits = scan_forbidden(lean_sources())
    if hits:
        rep.ok = False
        rep.problems += ["forbidden construct: " + h for h in hits]
    ok, out = lake_build(targets)
    if not ok:
        rep.ok = False
        errs = [l for l in out.splitlines() if 'error' in l.lower()][:20]
        rep.problems.append("lake build failed: " + " | ".join(errs))
        return rep
    if re.search(r"declaration uses 'sorry'|declaration uses `sorry`", out):
        rep.ok = False
        rep.problems.append("build output mentions sorry")
    disc = len(extra_obligation_modules) + rep.examples
    for m in prop_modules:
        f = LEAN / (m.replace('.', '/') + '.lean')
        ths = theorem_names(f)
        ax, raw = audit_axioms(m, ths)
        for t in ths:
            if t not in ax:
                rep.ok = False
                rep.problems.append(f"no axiom report for {t}")
                continue
            rep.axioms[t] = ax[t]
            bad = [a for a in ax[t] if a not in ALLOWED_AXIOMS]
            if bad:
                rep.ok = False
                rep.problems.append(f"{t} depends on {bad}")
            else:
                disc += 1
    rep.discharged = disc
    if leanchecker:
        for m in prop_modules:
            p = sh(['lake', 'env', 'leanchecker', m], cwd=LEAN, timeout=3600)
            if p.returncode != 0:
                rep.ok = False
                rep.problems.append(f"leanchecker {m}: " + (p.stdout + p.stderr)[-500:])
        rep.checker_cmd += ' && lake env leanchecker <module>'
    return rep


# ---------------------------------------------------------------- findings, replays, evidence

def load_known() -> List[Dict[str, Any]]:
    f = VERIF / 'known_findings.json'
    if not f.exists():
        return []
    return json.loads(f.read_text())['findings']


def write_replay(prop: str, payload: Dict[str, Any]) -> Path:
    REPLAYS.mkdir(exist_ok=True)
    body = json.dumps(payload, indent=1, sort_keys=True, default=str)
    h = hashlib.sha256(body.encode()).hexdigest()[:12]
    p = REPLAYS / f"{prop}-{h}.json"
    p.write_text(body + "\n")
    return p


class Verdict:
    """Collects what one check run found and prints the protocol lines."""

    def __init__(self, prop: str, tier: str):
        self.prop = prop
        self.tier = tier
        self.t0 = time.time()
        self.violations: List[Path] = []
        self.lines: List[str] = []
        self.known_hit: Dict[str, int] = {}
        self.broken: List[str] = []          # theorem / obligation / projection names that no longer check

    def failing_input(self, payload: Dict[str, Any]):
        payload = dict(payload, property=self.prop, kind='failing-input', seed=seed(), repo_fingerprint=repo_fingerprint())
        p = write_replay(self.prop, payload)
        self.violations.append(p)
        self.lines.append(f"VIOLATION property={self.prop} replay={p}")

    def known(self, finding_id: str, what: str):
        if finding_id not in self.known_hit:
            self.lines.append(f"KNOWN-FINDING: property={self.prop} {what}")
        self.known_hit[finding_id] = self.known_hit.get(finding_id, 0) + 1

    def broke(self, what: str):
        self.broken.append(what)

    def finish(self, evidence: Dict[str, Any]) -> int:
        if self.broken and not self.violations:
            payload = {'property': self.prop, 'kind': 'no-failing-input-found', 'broken': self.broken,
                       'seed': seed(), 'repo_fingerprint': repo_fingerprint()}
            p = write_replay(self.prop, payload)
            self.violations.append(p)
            self.lines.append(f"VIOLATION property={self.prop} replay={p} no-failing-input-found")
        evidence.setdefault('property_id', self.prop)
        evidence.setdefault('tier', self.tier)
        evidence.setdefault('seed', seed())
        evidence['wall_s'] = round(time.time() - self.t0, 2)
        evidence['violations'] = len(self.violations)
        evidence.setdefault('coverage', {})['known_findings_hit'] = self.known_hit
        EVID.mkdir(exist_ok=True)
        (EVID / f"{self.prop}.json").write_text(json.dumps(evidence, indent=1, default=str) + "\n")
        for l in self.lines:
            print(l)
        sys.stdout.flush()
        return 1 if self.violations else 0
