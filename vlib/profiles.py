"""profiles.py — corpus profiles shared by the engine properties."""
from __future__ import annotations
import random
from typing import Dict, List, Tuple

from . import corpus
from .diffrun import Config
from .engine import Profile
from .gram import Grammar

ALPHA = [97, 98, 99, 120]        # a b c x(foreign)


def amr_configs(eols=('lf_crlf',), lazies=(0,), unwinds=(1,), ams=((1, 'r'), (1, 'o'), (0, 'r'), (0, 'o'))):
    def f(g: Grammar, root: int, tier: str) -> List[Config]:
        return [Config(root, a, m, e, lz, uw) for (a, m) in ams for e in eols for lz in lazies for uw in unwinds]
    return f


def inputs_exhaustive(qlen: int, tlen: int, cap_q: int = 400, cap_t: int = 1500, alpha=ALPHA, longer=4):
    def f(rng: random.Random, g: Grammar, tier: str) -> List[bytes]:
        if tier == 'quick':
            return corpus.sample_inputs(rng, alpha, qlen, cap_q, longer)
        return corpus.sample_inputs(rng, alpha, tlen, cap_t, longer * 3)
    return f


def systematic_profile(name: str, kind_filter, raisers: bool, nq: int, nt: int, oracles, actions_mode='none',
                       configs=None, inputs=None, use_sem=False, heavy=False, ctx_names=None, **kw) -> Profile:
    def grams(rng: random.Random, tier: str):
        n = nq if tier == 'quick' else nt
        act = (lambda r, g, roots: corpus.attach_actions(r, g, actions_mode)) if actions_mode != 'none' else None
        return corpus.systematic(rng, name, kind_filter, raisers, max_grammars=n, heavy=heavy, ctx_names=ctx_names, actions=act)
    return Profile(name, grams, configs or amr_configs(), inputs or inputs_exhaustive(4, 5), oracles, use_sem=use_sem, **kw)


def random_profile(name: str, core_only: bool, raisers: bool, nq: int, nt: int, oracles, actions_mode='none',
                   configs=None, inputs=None, use_sem=False, n_rules=(4, 7), alphabet=(97, 98, 99), eol_atoms=False, switches=False, **kw) -> Profile:
    def grams(rng: random.Random, tier: str):
        n = nq if tier == 'quick' else nt
        out = []
        for i in range(n):
            rg = corpus.RandGen(rng, core_only, raisers, rng.randint(*n_rules), alphabet=alphabet, eol_atoms=eol_atoms, switches=switches)
            g, roots = rg.grammar(f"{name}{i}")
            corpus.attach_actions(rng, g, actions_mode)
            out.append((g, roots, {'kind': 'random'}))
        return out
    return Profile(name, grams, configs or amr_configs(), inputs or inputs_exhaustive(4, 5), oracles, use_sem=use_sem, **kw)
