"""profiles.py — corpus profiles shared by the engine properties."""
from __future__ import annotations
import random
from typing import Dict, List, Tuple

from . import corpus
from .diffrun import Config
from .engine import Profile
from .gram import Grammar

ALPHA = [97, 98, 99, 120]        # a b c x(foreign)


def amr_configs(eols=('lf_crlf',), lazies=(0,), unwinds=(1,), ams=((1, 'r'), (1, 'o'), (0, 'r'), (0, 'o'))):
    def f(g: Grammar, root: int, tier: str) -> List[Config]:
        return [Config(root, a, m, e, lz, uw) for (a, m) in ams for e in eols for lz in lazies for uw in unwinds]
    return f


def inputs_exhaustive(qlen: int, tlen: int, cap_q: int = 400, cap_t: int = 1500, alpha=ALPHA, longer=4):
    def f(rng: random.Random, g: Grammar, tier: str) -> List[bytes]:
        if tier == 'quick':
            return corpus.sample_inputs(rng, alpha, qlen, cap_q, longer)
        return corpus.sample_inputs(rng, alpha, tlen, cap_t, longer * 3)
    return f


def systematic_profile(name: str, kind_filter, raisers: bool, nq: int, nt: int, oracles, actions_mode='none',
                       configs=None, inputs=None, use_sem=False, heavy=False, ctx_names=None, eol_probes=False, racts=None, **kw) -> Profile:
    def grams(rng: random.Random, tier: str):
        n = nq if tier == 'quick' else nt
        act = (lambda r, g, roots: corpus.attach_actions(r, g, actions_mode)) if actions_mode != 'none' else None
        corpus.RACT_MODE[0] = racts or ('void' if use_sem else 'mixed')
        return corpus.systematic(rng, name, kind_filter, raisers, max_grammars=n, heavy=heavy, ctx_names=ctx_names, actions=act, eol_probes=eol_probes)
    return Profile(name, grams, configs or amr_configs(), inputs or inputs_exhaustive(4, 5), oracles, use_sem=use_sem, **kw)


def random_profile(name: str, core_only: bool, raisers: bool, nq: int, nt: int, oracles, actions_mode='none',
                   configs=None, inputs=None, use_sem=False, n_rules=(4, 7), alphabet=(97, 98, 99), eol_atoms=False, switches=False,
                   racts=None, **kw) -> Profile:
    def grams(rng: random.Random, tier: str):
        n = nq if tier == 'quick' else nt
        out = []
        corpus.RACT_MODE[0] = racts or ('void' if use_sem else 'mixed')
        for i in range(n):
            rg = corpus.RandGen(rng, core_only, raisers, rng.randint(*n_rules), alphabet=alphabet, eol_atoms=eol_atoms, switches=switches)
            g, roots = rg.grammar(f"{name}{i}")
            corpus.attach_actions(rng, g, actions_mode)
            out.append((g, roots, {'kind': 'random'}))
        return out
    return Profile(name, grams, configs or amr_configs(), inputs or inputs_exhaustive(4, 5), oracles, use_sem=use_sem, **kw)


def control_profile(name: str, nq: int, nt: int, oracles, actions_mode='throw', configs=None, inputs=None, **kw) -> Profile:
    """Control switching: random grammars in which some named rules are also reachable through `control< ctl2, R >`
    (alone and followed by the same rule outside the wrapper) and ~30 % of the rules visible to the control carry
    `change_control< ctl2 >`.  The second family marks every line it logs and always defines unwind(); the first one
    is the run's control (with or without unwind())."""
    from .gram import P, CTL, Ref, ActSpec

    def grams(rng: random.Random, tier: str):
        n = nq if tier == 'quick' else nt
        out = []
        for i in range(n):
            rg = corpus.RandGen(rng, False, True, rng.randint(3, 6), switches=True)
            g, roots = rg.grammar(f"{name}{i}")
            extra_roots = []
            for rid in list(g.named)[:3]:
                extra_roots.append(g.rule(P('control', CTL(2), Ref(rid))).id)
                extra_roots.append(g.rule(P('seq', P('control', CTL(2), Ref(rid)), Ref(rid))).id)
            g.resolve()
            corpus.attach_actions(rng, g, actions_mode)
            for nid, nd in g.nodes.items():
                if nd.ctl and rng.random() < 0.3:
                    a = g.acts.get(nid) or ActSpec()
                    if a.wrap == 'none':
                        a.wrap = 'cc'
                        g.acts[nid] = a
            out.append((g, (extra_roots + roots)[:6], {'kind': 'control'}))
        return out
    return Profile(name, grams, configs or amr_configs(ams=((1, 'r'), (0, 'o')), unwinds=(1, 0)), inputs or inputs_exhaustive(4, 5, cap_q=80, cap_t=400),
                   oracles, **kw)


def mustif_profile(name: str, nq: int, nt: int, oracles, configs=None, inputs=None, **kw) -> Profile:
    """The run's control is `must_if< Errors, ctl >::control`: random grammars (must / raise rules, vetoing and void actions,
    try_catch) with a message for a third of the rules visible to the control."""
    def grams(rng: random.Random, tier: str):
        n = nq if tier == 'quick' else nt
        out = []
        corpus.RACT_MODE[0] = 'novoid-throw'
        for i in range(n):
            rg = corpus.RandGen(rng, False, True, rng.randint(3, 6))
            g, roots = rg.grammar(f"{name}{i}")
            corpus.attach_actions(rng, g, 'bool')
            g.mi_msgs = {nid: f"custom-message-{nid}" for nid, nd in g.nodes.items() if nd.ctl and rng.random() < 0.33}
            if i % 2 == 1:
                # an Errors class with its own raise_on_failure table: opt-out for half of the rules that have a message,
                # opt-in for a few that have none (those raise with the default message)
                g.mi_rof = {nid for nid in g.mi_msgs if rng.random() < 0.5} | {nid for nid, nd in g.nodes.items() if nd.ctl and nid not in g.mi_msgs and rng.random() < 0.12}
            out.append((g, roots[:3], {'kind': 'must_if'}))
        corpus.RACT_MODE[0] = 'mixed'
        return out

    def cfgs(g: Grammar, root: int, tier: str) -> List[Config]:
        return [Config(root, a, m, 'lf_crlf', 0, uw, 0, 0, 1) for (a, m) in ((1, 'r'), (1, 'o'), (0, 'o')) for uw in (1,)]
    return Profile(name, grams, configs or cfgs, inputs or inputs_exhaustive(4, 5, cap_q=70, cap_t=300), oracles, **kw)


def atoms_profile(name: str, oracles, qlen: int = 3, tlen: int = 4, cap_q: int = 260, cap_t: int = 2500, configs=None, exclude=(), inputs=None, **kw) -> Profile:
    """Every leaf rule the model has an atom for (ascii classes, utf8 ranges, maximum_rule, rep_one_min_max, predicates, …) alone
    and in the simple contexts where a leaf that consumes before failing shows (corpus.zoo_grammars), on strings over digits,
    letters, eol bytes and a two-byte UTF-8 sequence."""
    def grams(rng: random.Random, tier: str):
        return corpus.zoo_grammars(name, exclude=exclude)
    return Profile(name, grams, configs or amr_configs(ams=((1, 'r'), (1, 'o'))),
                   inputs or inputs_exhaustive(qlen, tlen, cap_q=cap_q, cap_t=cap_t, alpha=corpus.ZOO_ALPHA, longer=2), oracles, **kw)
