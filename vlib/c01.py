"""C01 — core PEG operators match exactly as the PEG formalism defines.
Proof: lean/PegtlVerif/Props/C01.lean (refinement of `run` into `Sem`, determinism, independence).
Tie: full-trace differential run on core-kind grammars with/without void actions, 4 A×M configs.
Oracle: the spec evaluator semEval (Lean, shares no code with the model's matcher) vs the real result."""
from . import engine, profiles
from .engine import oracle_sem

CORE = {'seq1', 'sor1', 'seq2', 'seq3', 'sor2', 'sor3', 'star1', 'star2', 'plus1', 'plus2', 'opt1', 'opt2', 'at1', 'at2', 'not_at1', 'not_at2'}
ORACLES = [('sem', oracle_sem)]


def oracle_independent_factory():
    """Result and consumed prefix must not depend on A, M or the attached void actions: group the cases of one
    (grammar, root, input) and compare their R lines."""
    seen = {}
    cur = [None]

    def oracle(c, tr):
        if cur[0] != c.g.gid:       # cases arrive grammar by grammar
            seen.clear()
            cur[0] = c.g.gid
        key = (c.g.gid, c.cfg.root, c.data, c.cfg.eol, c.cfg.lazy)
        r = tr.result.split()[:3] if tr.result.startswith('R 1') else tr.result.split()[:2]
        prev = seen.setdefault(key, (r, c.cfg))
        if prev[0] != r:
            return f"outcome depends on configuration: {prev[1]} gave {prev[0]}, {c.cfg} gave {r}"
        return None
    return oracle


def run(tier: str) -> int:
    ind = oracle_independent_factory()
    oracles = ORACLES + [('independent', ind)]
    ps = [
        profiles.systematic_profile('core', lambda k, f: k in CORE, False, 30, 160, oracles, actions_mode='void',
                                    inputs=profiles.inputs_exhaustive(3, 5, cap_q=90, cap_t=700), per_tu=2, use_sem=True, heavy=True,
                                    ctx_names=['top', 'sor-first', 'seq-tail', 'seq-head', 'in-at', 'in-not_at', 'in-opt']),
        # the atoms themselves: every leaf rule (degenerate forms included) against the formalism's accept sets
        profiles.atoms_profile('atoms', oracles, cap_q=60, cap_t=300, per_tu=3, use_sem=True, exclude=('bol', 'bof', 'istring', 'istring0')),
        profiles.random_profile('rndcore', True, False, 20, 100, oracles, actions_mode='void',
                                inputs=profiles.inputs_exhaustive(4, 6, cap_q=200, cap_t=1200), per_tu=2, use_sem=True),
        profiles.random_profile('rndcore_noact', True, False, 8, 40, oracles, actions_mode='none',
                                inputs=profiles.inputs_exhaustive(4, 6, cap_q=200, cap_t=1200), per_tu=2, use_sem=True),
    ]
    return engine.run_engine('C01', tier, ['PegtlVerif.Props.C01'], ps)


def replay(path: str) -> int:
    return engine.replay('C01', path, ORACLES, use_sem=True)
