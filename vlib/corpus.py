"""corpus.py — case generation for the engine properties (DESIGN §3.1): the systematic family
(every rule kind × every probe sub-rule in every slot × every context), random type-directed
grammars, and input enumeration.  Every random choice comes from one `random.Random(seed)`."""
from __future__ import annotations
import itertools
import random
from typing import Callable, Dict, Iterable, List, Optional, Sequence, Tuple

from .gram import ActSpec, B, C, Grammar, N, P, Ref, T, X, STATE, FAM, RACT

A_, B_, C_ = 97, 98, 99   # 'a' 'b' 'c'
IFAPPLY_ENABLED = True    # apply< A... > / if_apply< R, A... > in the corpus (needs the model's ifApply / applyR kinds)
ROM_ENABLED = True        # contrib rep_one_min_max in the corpus (needs the model's repOne atom)

# ---------------------------------------------------------------- probes: sub-rules with a known behaviour class
# each probe: (name, class, builder(g) -> type expression)

def probes(raisers: bool = True, heavy: bool = False, eol: bool = False):
    if eol:
        # end-of-line probes (C06): what a rule that scans for, or steps over, line ends is built from
        return [
            ('eol', 'atom', lambda g: P('eol')),
            ('eolf', 'nullable', lambda g: P('eolf')),
            ('lf', 'atom', lambda g: P('one', C(10))),
            ('cr', 'atom', lambda g: P('one', C(13))),
            ('a', 'atom', lambda g: P('one', C(A_))),
            ('a_eol', 'consume-then-fail', lambda g: P('seq', P('one', C(A_)), P('eol'))),
            ('any', 'atom', lambda g: P('any')),
            ('ab', 'consume-then-fail', lambda g: P('seq', P('one', C(A_)), P('one', C(B_)))),
        ]
    ps = [
        ('a', 'atom', lambda g: P('one', C(A_))),
        ('ab', 'consume-then-fail', lambda g: P('seq', P('one', C(A_)), P('one', C(B_)))),
        ('sab', 'consume-then-fail', lambda g: P('string', C(A_), C(B_))),
        ('opta', 'nullable', lambda g: P('opt', P('one', C(A_)))),
        ('succ', 'nullable', lambda g: P('success')),
        ('ata', 'look-ahead', lambda g: P('at', P('one', C(A_)))),
        ('nata', 'look-ahead', lambda g: P('not_at', P('one', C(A_)))),
        ('b', 'atom', lambda g: P('one', C(B_))),
    ]
    if raisers:
        ps += [
            ('musta', 'raiser', lambda g: P('must', P('one', C(A_)))),
            ('a_mustb', 'raiser', lambda g: P('seq', P('one', C(A_)), P('must', P('one', C(B_))))),
            ('a_raise', 'raiser', lambda g: P('seq', P('one', C(A_)), P('raise', P('one', C(B_))))),
            ('b_or_raisemsg', 'raiser', lambda g: P('sor', P('one', C(B_)), P('raise_message', C(109), C(115), C(103)))),
        ]
    if heavy:
        ps += [
            ('stara', 'nullable', lambda g: P('star', P('one', C(A_)))),
            ('any', 'atom', lambda g: P('any')),
            ('eof', 'nullable', lambda g: P('eof')),
            ('fail', 'atom', lambda g: P('failure')),
        ]
        if ROM_ENABLED:
            ps += [
                ('rom12', 'consume-then-fail', lambda g: P('rep_one_min_max', N(1), N(2), C(A_))),
                ('rom02', 'nullable', lambda g: P('rep_one_min_max', N(0), N(2), C(A_))),
            ]
    return ps


# ---------------------------------------------------------------- kinds: public rule templates with typed slots
# (name, number of rule slots, builder(slots...) -> T, family)

_ract_counter = [2000000]


RACT_MODE = ['mixed']     # 'void' while a corpus is generated for a profile judged by the PEG formalism (actions must not affect matching)


def _next_ract() -> int:
    _ract_counter[0] += 1
    return _ract_counter[0]


def rule_acts(rng: random.Random, mode: str = 'mixed'):
    """One to three rule-level action classes with unique ids; void, vetoing bool, throwing."""
    if RACT_MODE[0] == 'void':
        mode = 'void'
    nothrow = (RACT_MODE[0] == 'novoid-throw')      # void and vetoing classes only
    out = []
    for _ in range(rng.choice([1, 1, 2, 3])):
        _ract_counter[0] += 1
        q = rng.random()
        if mode == 'void' or q < 0.4:
            out.append(RACT(_ract_counter[0]))
        elif q < 0.75 or nothrow:
            out.append(RACT(_ract_counter[0], True, rng.choice([2, 3, 3, 5])))
        else:
            out.append(RACT(_ract_counter[0], rng.random() < 0.4, rng.choice([0, 3]), rng.choice([3, 4, 5]), rng.random() < 0.5))
    return out


_ract0_counter = [3000000]


def rule_acts0(rng: random.Random, mode: str = 'mixed'):
    """One to three action classes for an `apply0< … >` rule: void, never / always vetoing bool, always throwing."""
    from .gram import RACT0
    if RACT_MODE[0] == 'void':
        mode = 'void'
    nothrow = (RACT_MODE[0] == 'novoid-throw')
    out = []
    for _ in range(rng.choice([1, 1, 2, 3])):
        _ract0_counter[0] += 1
        q = rng.random()
        if mode == 'void' or q < 0.45:
            out.append(RACT0(_ract0_counter[0]))
        elif q < 0.65:
            out.append(RACT0(_ract0_counter[0], True, False))
        elif q < 0.85 or nothrow:
            out.append(RACT0(_ract0_counter[0], True, True))
        else:
            out.append(RACT0(_ract0_counter[0], rng.random() < 0.5, False, True, rng.random() < 0.5))
    return out


def kinds(core_only: bool = False, raisers: bool = True):
    ks = [
        ('seq1', 1, lambda x: P('seq', x), 'core'),           # the one-element form has a code path of its own (no mark, the caller's mode passed on)
        ('sor1', 1, lambda x: P('sor', x), 'core'),
        ('seq2', 2, lambda x, y: P('seq', x, y), 'core'),
        ('seq3', 3, lambda x, y, z: P('seq', x, y, z), 'core'),
        ('sor2', 2, lambda x, y: P('sor', x, y), 'core'),
        ('sor3', 3, lambda x, y, z: P('sor', x, y, z), 'core'),
        ('star1', 1, lambda x: P('star', x), 'core'),
        ('star2', 2, lambda x, y: P('star', x, y), 'core'),
        ('plus1', 1, lambda x: P('plus', x), 'core'),
        ('plus2', 2, lambda x, y: P('plus', x, y), 'core'),
        ('opt1', 1, lambda x: P('opt', x), 'core'),
        ('opt2', 2, lambda x, y: P('opt', x, y), 'core'),
        ('at1', 1, lambda x: P('at', x), 'core'),
        ('at2', 2, lambda x, y: P('at', x, y), 'core'),
        ('not_at1', 1, lambda x: P('not_at', x), 'core'),
        ('not_at2', 2, lambda x, y: P('not_at', x, y), 'core'),
    ]
    if core_only:
        return ks
    ks += [
        ('until1', 1, lambda x: P('until', x), 'conv'),
        ('until2', 2, lambda x, y: P('until', x, y), 'conv'),
        ('until3', 3, lambda x, y, z: P('until', x, y, z), 'conv'),
        ('if_then_else', 3, lambda x, y, z: P('if_then_else', x, y, z), 'conv'),
        ('strict1', 1, lambda x: P('strict', x), 'conv'),
        ('strict2', 2, lambda x, y: P('strict', x, y), 'conv'),
        ('star_strict2', 2, lambda x, y: P('star_strict', x, y), 'conv'),
        ('partial2', 2, lambda x, y: P('partial', x, y), 'conv'),
        ('star_partial2', 2, lambda x, y: P('star_partial', x, y), 'conv'),
        ('rematch2', 2, lambda x, y: P('rematch', x, y), 'conv'),
        ('rematch3', 3, lambda x, y, z: P('rematch', x, y, z), 'conv'),
        ('minus', 2, lambda x, y: P('minus', x, y), 'conv'),
        ('list', 2, lambda x, y: P('list', x, y), 'conv'),
        ('list3', 3, lambda x, y, z: P('list', x, y, z), 'conv'),
        ('list_tail', 2, lambda x, y: P('list_tail', x, y), 'conv'),
        ('list_tail3', 3, lambda x, y, z: P('list_tail', x, y, z), 'conv'),
        ('pad', 2, lambda x, y: P('pad', x, y), 'conv'),
        ('pad3', 3, lambda x, y, z: P('pad', x, y, z), 'conv'),
        ('pad_opt', 2, lambda x, y: P('pad_opt', x, y), 'conv'),
        ('if_then', 2, lambda x, y: P('if_then', x, y), 'conv'),
        ('if_then3', 3, lambda x, y, z: P('if_then', x, y, z), 'conv'),
        # the member aliases else_if_then / else_then: chains whose conditions overlap (the third accepts what the second accepts),
        # so the order in which the pairs are tried is visible
        ('if_then_chain2e', 3, lambda x, y, z: P('if_then_chain', N(2), P('one', C(A_)), x, P('one', C(B_)), y, z), 'conv'),
        ('if_then_chain3', 3, lambda x, y, z: P('if_then_chain', N(3), P('one', C(A_)), x, P('one', C(B_)), y, P('range', C(A_), C(A_ + 2)), P('seq', z, P('one', C(B_)))), 'conv'),
        ('if_then_chain3e', 3, lambda x, y, z: P('if_then_chain', N(3), P('one', C(A_)), x, P('one', C(B_)), y, P('range', C(A_), C(A_ + 2)), P('seq', z, P('one', C(B_))), x), 'conv'),
        ('if_then_chain4', 3, lambda x, y, z: P('if_then_chain', N(4), P('one', C(A_)), x, P('one', C(B_)), y, P('range', C(A_), C(A_ + 2)), P('seq', z, P('one', C(B_))),
                                                P('any'), P('seq', P('one', C(A_)), x)), 'conv'),
        ('separated_seq3', 3, lambda s, x, y: P('separated_seq', s, x, y, x), 'conv'),
        ('separated_seq1', 2, lambda s, x: P('separated_seq', s, x), 'conv'),
        ('rep_string', 1, lambda x: P('seq', P('rep_string', N(2), C(A_), C(B_)), x), 'conv'),
        # every count up to 7 on its own (the type-level construction may treat odd / even / power-of-two counts differently)
        ('rep_string0', 0, lambda: P('rep_string', N(0), C(A_)), 'conv'),
        ('rep_string1', 0, lambda: P('rep_string', N(1), C(A_), C(B_)), 'conv'),
        ('rep_string3', 0, lambda: P('rep_string', N(3), C(A_)), 'conv'),
        ('rep_string3ab', 0, lambda: P('rep_string', N(3), C(A_), C(B_)), 'conv'),
        ('rep_string4', 0, lambda: P('rep_string', N(4), C(A_)), 'conv'),
        ('rep_string5', 0, lambda: P('rep_string', N(5), C(A_)), 'conv'),
        ('rep_string6', 0, lambda: P('rep_string', N(6), C(A_)), 'conv'),
        ('rep_string7', 0, lambda: P('rep_string', N(7), C(A_)), 'conv'),
        ('enable', 1, lambda x: P('enable', x), 'conv'),
        ('disable', 1, lambda x: P('disable', x), 'conv'),
        ('state_c', 1, lambda x: P('state', STATE(0), x), 'state'),
        ('state_d', 1, lambda x: P('state', STATE(1), x), 'state'),
        ('state_c2', 2, lambda x, y: P('state', STATE(0), x, y), 'state'),
    ]
    if IFAPPLY_ENABLED:
        r0 = random.Random(4711)
        ks += [
            # the rule that switches the action family for its sub-rules (and back): family 1 is created by attach_actions
            ('action_rule', 1, lambda x: P('action', FAM(1), x), 'actrule'),
            ('action_rule2', 2, lambda x, y: P('action', FAM(1), x, y), 'actrule'),
            ('action_rule_nested', 2, lambda x, y: P('action', FAM(1), P('seq', x, P('action', FAM(0), y), x)), 'actrule'),
            ('if_apply1', 1, lambda x: P('if_apply', x, *rule_acts(r0)), 'apply'),
            ('if_apply1v', 1, lambda x: P('if_apply', x, *rule_acts(r0, 'void')), 'apply'),
            ('if_apply_veto', 1, lambda x: P('if_apply', x, RACT(_next_ract(), True, 1)), 'apply'),                      # always returns false
            ('if_apply_void_then_false', 1, lambda x: P('if_apply', x, RACT(_next_ract()), RACT(_next_ract(), True, 1)), 'apply'),   # a void action, then one that always returns false
            ('if_apply_void_veto', 1, lambda x: P('if_apply', x, RACT(_next_ract()), RACT(_next_ract(), True, 2)), 'apply'),    # void, then false on some spans
            ('if_apply_throw', 1, lambda x: P('if_apply', x, RACT(_next_ract(), False, 0, 3, True)), 'apply'),
            ('seq_apply', 1, lambda x: P('seq', x, P('apply', *rule_acts(r0))), 'apply'),
            ('seq_apply0', 1, lambda x: P('seq', x, P('apply0', *rule_acts0(r0))), 'apply'),
            ('sor_apply0', 1, lambda x: P('sor', P('seq', x, P('apply0', *rule_acts0(r0))), P('any')), 'apply'),
        ]
    for n in range(0, 4):
        ks.append((f'rep{n}', 1, (lambda n: lambda x: P('rep', N(n), x))(n), 'rep'))
        if n > 0:   # rep_opt< 0, R > with a single rule is an ambiguous partial specialisation in internal/rep_opt.hpp (does not compile)
            ks.append((f'rep_opt{n}', 1, (lambda n: lambda x: P('rep_opt', N(n), x))(n), 'rep'))
        ks.append((f'rep_min{n}', 1, (lambda n: lambda x: P('rep_min', N(n), x))(n), 'rep'))
        ks.append((f'rep_max{n}', 1, (lambda n: lambda x: P('rep_max', N(n), x))(n), 'rep'))
    for lo in range(0, 3):
        for hi in range(lo, 4):
            ks.append((f'rep_min_max{lo}_{hi}', 1, (lambda lo, hi: lambda x: P('rep_min_max', N(lo), N(hi), x))(lo, hi), 'rep'))
    ks.append(('rep2_2', 2, lambda x, y: P('rep', N(2), x, y), 'rep'))
    ks.append(('rep_min_max1_2_2', 2, lambda x, y: P('rep_min_max', N(1), N(2), x, y), 'rep'))
    if raisers:
        ks += [
            ('must1', 1, lambda x: P('must', x), 'raise'),
            ('must2', 2, lambda x, y: P('must', x, y), 'raise'),
            ('if_must', 2, lambda x, y: P('if_must', x, y), 'raise'),
            ('if_must3', 3, lambda x, y, z: P('if_must', x, y, z), 'raise'),
            ('if_must_else', 3, lambda x, y, z: P('if_must_else', x, y, z), 'raise'),
            ('opt_must', 2, lambda x, y: P('opt_must', x, y), 'raise'),
            ('star_must', 2, lambda x, y: P('star_must', x, y), 'raise'),
            ('list_must', 2, lambda x, y: P('list_must', x, y), 'raise'),
            ('tcrf', 1, lambda x: P('try_catch_return_false', x), 'raise'),
            ('tcrf2', 2, lambda x, y: P('try_catch_return_false', x, y), 'raise'),
            ('tcrn', 1, lambda x: P('try_catch_raise_nested', x), 'raise'),
            ('tc_any_rf', 1, lambda x: P('try_catch_any_return_false', x), 'raise'),
            ('tc_std_rf', 1, lambda x: P('try_catch_std_return_false', x), 'raise'),
            ('tc_any_rn', 1, lambda x: P('try_catch_any_raise_nested', x), 'raise'),
            ('tc_std_rn', 1, lambda x: P('try_catch_std_raise_nested', x), 'raise'),
            # the variadic primary templates forward the exception type to the one-rule specialisation: separate code
            ('tcrn2', 2, lambda x, y: P('try_catch_raise_nested', x, y), 'raise'),
            ('tc_any_rf2', 2, lambda x, y: P('try_catch_any_return_false', x, y), 'raise'),
            ('tc_std_rf2', 2, lambda x, y: P('try_catch_std_return_false', x, y), 'raise'),
            ('tc_any_rn2', 2, lambda x, y: P('try_catch_any_raise_nested', x, y), 'raise'),
            ('tc_std_rn2', 2, lambda x, y: P('try_catch_std_raise_nested', x, y), 'raise'),
            # the forms that take the exception type as their first argument
            ('tc_type_std_rf', 1, lambda x: P('try_catch_type_return_false', X('std::exception'), x), 'raise'),
            ('tc_type_pe_rf2', 2, lambda x, y: P('try_catch_type_return_false', X('tao::pegtl::parse_error'), x, y), 'raise'),
            ('tc_type_any_rn', 1, lambda x: P('try_catch_type_raise_nested', X('void'), x), 'raise'),
            ('tc_type_pe_rn2', 2, lambda x, y: P('try_catch_type_raise_nested', X('tao::pegtl::parse_error'), x, y), 'raise'),
        ]
    return ks


# ---------------------------------------------------------------- contexts: where the rule under test sits

def contexts(raisers: bool = True):
    cs = [
        ('top', lambda k: k),
        ('sor-first', lambda k: P('sor', k, P('one', C(C_)))),
        ('seq-tail', lambda k: P('seq', P('one', C(C_)), k)),
        ('seq-head', lambda k: P('seq', k, P('one', C(C_)))),
        ('in-at', lambda k: P('at', k)),
        ('in-not_at', lambda k: P('not_at', k)),
        ('in-opt', lambda k: P('opt', k, P('one', C(C_)))),
        ('in-disable', lambda k: P('disable', k)),
        ('in-state', lambda k: P('state', STATE(0), k)),
        ('in-state-at', lambda k: P('at', P('state', STATE(1), k))),
    ]
    if raisers:
        cs += [
            ('in-tcrf', lambda k: P('sor', P('try_catch_return_false', k), P('one', C(C_)))),
            ('in-must', lambda k: P('must', k)),
        ]
    return cs


# ---------------------------------------------------------------- inputs

def all_strings(alphabet: Sequence[int], maxlen: int) -> List[bytes]:
    out = [b'']
    for n in range(1, maxlen + 1):
        out.extend(bytes(t) for t in itertools.product(alphabet, repeat=n))
    return out


def sample_inputs(rng: random.Random, alphabet: Sequence[int], maxlen: int, cap: int, longer: int = 0) -> List[bytes]:
    """All strings up to maxlen if that is at most `cap`, else the short ones exhaustively and a sample of the rest."""
    full = all_strings(alphabet, maxlen)
    if len(full) > cap:
        short = [s for s in full if len(s) <= max(1, maxlen - 2)]
        rest = [s for s in full if len(s) > max(1, maxlen - 2)]
        rng.shuffle(rest)
        full = short + rest[:max(0, cap - len(short))]
    for _ in range(longer):
        n = rng.randint(maxlen + 1, maxlen + 6)
        full.append(bytes(rng.choice(alphabet) for _ in range(n)))
    return full


# ---------------------------------------------------------------- systematic family

def systematic(rng: random.Random, gid_prefix: str, kind_filter: Callable[[str, str], bool],
               raisers: bool, max_grammars: Optional[int] = None, probe_cap: int = 10,
               heavy: bool = False, ctx_names: Optional[Sequence[str]] = None,
               actions: Optional[Callable[[random.Random, Grammar, List[int]], None]] = None, eol_probes: bool = False
               ) -> List[Tuple[Grammar, List[int], Dict]]:
    """One grammar per (kind, probe assignment); its roots are the kind placed in every context.
    Returns (grammar, root ids, meta)."""
    ps = probes(raisers, heavy, eol_probes)
    ks = [k for k in kinds(False, raisers) if kind_filter(k[0], k[3])]
    cs = [c for c in contexts(raisers) if ctx_names is None or c[0] in ctx_names]
    combos = []
    for kname, nslots, build, fam in ks:
        assigns = list(itertools.product(range(len(ps)), repeat=nslots))
        rng.shuffle(assigns)
        # always keep the assignments that put each probe into each slot at least once
        keep = []
        seen = set()
        for a in assigns:
            new = [(i, p) for i, p in enumerate(a) if (i, p) not in seen]
            if new:
                keep.append(a)
                seen.update(new)
        extra = [a for a in assigns if a not in keep][:max(0, probe_cap - len(keep))]
        for a in keep + extra:
            combos.append((kname, build, a))
    # kind coverage first (kinds in random order): per kind the assignment that puts a consume-then-fail probe into every slot
    # (the most demanding one for rewinding: every sub-rule can fail after consuming), then one more assignment per kind,
    # then the remaining assignments shuffled
    rng.shuffle(combos)
    ctf = next(i for i, p in enumerate(ps) if p[0] == ('eol' if eol_probes else 'ab'))
    by_kind = {}
    for cb in combos:
        by_kind.setdefault(cb[0], []).append(cb)
    first, second, third, rest = [], [], [], []
    for kname, cbs in by_kind.items():
        allctf = next((cb for cb in cbs if all(x == ctf for x in cb[2])), None)
        if allctf is None:
            allctf = (kname, cbs[0][1], tuple(ctf for _ in cbs[0][2]))
        first.append(allctf)
        others = [cb for cb in cbs if cb is not allctf]
        # second: a one-byte atom in every slot, so that also the rules with several slots match completely on short inputs
        if not eol_probes and len(allctf[2]) > 1:
            ia = next(i for i, p in enumerate(ps) if p[0] == 'a')
            alla = next((cb for cb in others if all(x == ia for x in cb[2])), None)
            if alla is None:
                alla = (kname, cbs[0][1], tuple(ia for _ in cbs[0][2]))
            second.append(alla)
            others = [cb for cb in others if cb is not alla]
        if others:
            third.append(others[0])
            rest.extend(others[1:])
    rng.shuffle(rest)
    combos = first + second + third + rest
    if max_grammars is not None:
        combos = combos[:max_grammars]
    out = []
    for gi, (kname, build, assign) in enumerate(combos):
        g = Grammar(f"{gid_prefix}{gi}")
        slots = [ps[p][2](g) for p in assign]
        kexpr = build(*slots)
        kref = g.rule(kexpr)
        roots = []
        for cname, wrap in cs:
            if cname == 'top':
                roots.append(kref.id)
            else:
                roots.append(g.rule(wrap(kref)).id)
        g.resolve()
        if actions is not None:
            actions(rng, g, roots)
        meta = {'kind': kname, 'probes': [ps[p][0] for p in assign], 'classes': [ps[p][1] for p in assign],
                'contexts': [c[0] for c in cs]}
        out.append((g, roots, meta))
    return out


# ---------------------------------------------------------------- random type-directed grammars

class RandGen:
    """Random mutually recursive grammars that terminate on every input by construction:
    a reference to a rule with a smaller-or-equal index is only generated behind a consuming atom,
    and repetition bodies are forced to consume."""

    def __init__(self, rng: random.Random, core_only: bool, raisers: bool, n_rules: int, alphabet=(A_, B_, C_), eol_atoms: bool = False,
                 switches: bool = False):
        self.switches = switches
        self.rng = rng
        self.core_only = core_only
        self.raisers = raisers
        self.n = n_rules
        self.alpha = list(alphabet)
        self.eol_atoms = eol_atoms

    def atom(self, consuming: bool):
        r = self.rng
        opts = ['one', 'one', 'one', 'string', 'range', 'any', 'not_one']
        if ROM_ENABLED:
            opts += ['rom', 'pred']
        if self.eol_atoms:
            opts += ['eol', 'eol', 'any', 'bytes']
            if not consuming:
                opts += ['eolf']
        if not consuming:
            opts += ['eof', 'success', 'failure']
        k = r.choice(opts)
        if k == 'one':
            return P('one', *[C(c) for c in r.sample(self.alpha, r.choice([1, 1, 2]))])
        if k == 'not_one':
            return P('not_one', C(r.choice(self.alpha)))
        if k == 'string':
            return P('string', *[C(r.choice(self.alpha)) for _ in range(r.choice([1, 2, 2, 3]))])
        if k == 'range':
            return P('range', C(A_), C(r.choice([B_, C_])))
        if k == 'bytes':
            return P('bytes', N(r.choice([1, 2])))
        if k == 'pred':
            subs = []
            for _ in range(r.choice([1, 2, 2, 3])):
                q = r.choice(['one', 'not_one', 'range', 'not_range'])
                if q in ('one', 'not_one'):
                    subs.append(P(q, *[C(c) for c in r.sample(self.alpha + [120], r.choice([1, 2]))]))
                else:
                    subs.append(P(q, C(A_), C(r.choice([B_, C_, 122]))))
            op = r.choice(['predicates_and', 'predicates_or', 'predicate_not'])
            return P(op, subs[0]) if op == 'predicate_not' else P(op, *subs)
        if k == 'rom':
            lo = r.choice([1, 1, 2]) if consuming else r.choice([0, 1, 2])
            return P('rep_one_min_max', N(lo), N(lo + r.choice([0, 1, 2])), C(r.choice(self.alpha)))
        return P(k)

    def expr(self, g: Grammar, refs: List[Ref], idx: int, depth: int, consuming: bool, guarded: bool):
        """consuming: must consume on success. guarded: something was consumed before on this path,
        so any rule may be referenced."""
        r = self.rng
        if depth <= 0 or r.random() < 0.25:
            cands = refs if guarded else refs[idx + 1:]
            if cands and not consuming and r.random() < 0.45:
                return r.choice(cands)
            return self.atom(consuming)
        ops = ['seq', 'seq', 'sor', 'sor', 'star', 'plus', 'opt', 'at', 'not_at']
        if not self.core_only:
            ops += ['until', 'rep', 'rep_min_max', 'rep_opt', 'if_then_else', 'strict', 'star_strict', 'partial',
                    'star_partial', 'rematch', 'list', 'pad', 'minus', 'list_tail', 'rep_min', 'pad_opt']
            if self.raisers:
                ops += ['must', 'if_must', 'opt_must', 'try_catch_return_false', 'try_catch_raise_nested', 'star_must',
                        'if_must_else', 'list_must', 'raise']
        if self.switches:
            ops += ['state', 'state', 'state', 'enable', 'disable']
        if IFAPPLY_ENABLED and not self.core_only and RACT_MODE[0] != 'off':
            ops += ['if_apply', 'apply']
        if consuming:
            ops = [o for o in ops if o not in ('until', 'star', 'opt', 'at', 'not_at', 'rep_opt', 'strict', 'partial', 'star_partial',
                                               'star_strict', 'opt_must', 'star_must', 'pad_opt')]
        op = r.choice(ops)
        E = lambda cons, grd: self.expr(g, refs, idx, depth - 1, cons, grd)
        if op == 'seq':
            n = r.choice([2, 2, 3])
            first = E(consuming, guarded)
            firstc = consuming
            parts = [first]
            for _ in range(n - 1):
                parts.append(E(False, guarded or firstc))
            return P('seq', *parts)
        if op == 'sor':
            return P('sor', *[E(consuming, guarded) for _ in range(r.choice([2, 2, 3]))])
        if op == 'star':
            return P('star', E(True, guarded))
        if op == 'plus':
            return P('plus', E(True, guarded))
        if op == 'opt':
            return P('opt', E(False, guarded))
        if op in ('at', 'not_at'):
            return P(op, E(False, guarded))
        if op == 'until':
            if r.random() < 0.5:
                return P('until', E(False, guarded))
            return P('until', E(False, guarded), E(True, guarded))
        if op == 'rep':
            return P('rep', N(r.randint(0, 3) if not consuming else r.randint(1, 3)), E(consuming, guarded))
        if op == 'rep_min':
            return P('rep_min', N(r.randint(0, 2) if not consuming else r.randint(1, 2)), E(True, guarded))
        if op == 'rep_min_max':
            lo = r.randint(0, 2) if not consuming else r.randint(1, 2)
            return P('rep_min_max', N(lo), N(lo + r.randint(0, 2)), E(consuming, guarded))
        if op == 'rep_opt':
            return P('rep_opt', N(r.randint(1, 3)), E(False, guarded))
        if op == 'if_then_else':
            return P('if_then_else', E(False, guarded), E(consuming, guarded), E(consuming, guarded))
        if op == 'strict':
            return P('strict', E(False, guarded), E(False, guarded))
        if op == 'star_strict':
            return P('star_strict', E(True, guarded), E(False, True))
        if op == 'partial':
            return P('partial', E(False, guarded), E(False, guarded))
        if op == 'star_partial':
            return P('star_partial', E(True, guarded), E(False, True))
        if op == 'rematch':
            return P('rematch', E(consuming, guarded), E(False, guarded))
        if op == 'minus':
            return P('minus', E(consuming, guarded), E(False, guarded))
        if op == 'list':
            return P('list', E(True, guarded), E(False, True))
        if op == 'list_tail':
            return P('list_tail', E(True, guarded), E(False, True))
        if op == 'list_must':
            return P('list_must', E(True, guarded), E(False, True))
        if op == 'pad':
            return P('pad', E(consuming, guarded), P('one', C(C_)))
        if op == 'pad_opt':
            return P('pad_opt', E(False, guarded), P('one', C(C_)))
        if op == 'raise':
            # a raise rule never matches: keep an alternative or a prefix so that the grammar is not trivially failing
            rr = P('raise', self.atom(True)) if r.random() < 0.6 else P('raise_message', C(101), C(114), C(114), C(48 + r.randint(0, 9)))
            if r.random() < 0.5:
                return P('sor', E(consuming, guarded), rr)
            return P('seq', E(True, guarded), rr)
        if op == 'must':
            return P('must', E(consuming, guarded))
        if op == 'if_must':
            return P('if_must', E(consuming, guarded), E(False, guarded or consuming))
        if op == 'if_must_else':
            return P('if_must_else', E(False, guarded), E(consuming, guarded), E(consuming, guarded))
        if op == 'opt_must':
            return P('opt_must', E(False, guarded), E(False, guarded))
        if op == 'star_must':
            return P('star_must', E(True, guarded), E(False, True))
        if op in ('try_catch_return_false', 'try_catch_raise_nested'):
            return P(op, E(consuming, guarded))
        if op == 'if_apply':
            return P('if_apply', E(consuming, guarded), *rule_acts(r, 'mixed' if self.raisers else 'void'))
        if op == 'apply':
            if r.random() < 0.5:
                ap = P('apply', *rule_acts(r, 'mixed' if self.raisers else 'void'))
            else:
                ap = P('apply0', *rule_acts0(r, 'mixed' if self.raisers else 'void'))
            return P('seq', E(True, guarded), ap) if consuming else ap
        if op == 'state':
            return P('state', STATE(r.random() < 0.4), E(consuming, guarded))
        if op in ('enable', 'disable'):
            return P(op, E(consuming, guarded))
        raise ValueError(op)

    def grammar(self, gid: str) -> Tuple[Grammar, List[int]]:
        g = Grammar(gid)
        refs = [g.declare() for _ in range(self.n)]
        for i, ref in enumerate(refs):
            e = self.expr(g, refs, i, self.rng.choice([1, 2, 2, 3]), False, False)
            if isinstance(e, Ref):
                e = P('seq', e)
            g.define(ref, e)
        g.resolve()
        return g, [r.id for r in refs[:2]]


def attach_actions(rng: random.Random, g: Grammar, mode: str):
    """See _attach_actions; afterwards every action family named by an `action< A, R... >` rule of the grammar exists (void actions on about
    half of the controlled rules when the mode did not create it)."""
    _attach_actions(rng, g, mode)
    for nd in g.nodes.values():
        if nd.kind == 'action':
            fam = nd.params[0]
            fam = fam[1] if isinstance(fam, (tuple, list)) else int(fam)
            if fam != 0 and fam not in g.fams:
                g.fams[fam] = {nid: ActSpec(rng.choice(['apply', 'apply0'])) for nid, n2 in g.nodes.items() if n2.ctl and rng.random() < 0.5}


def _attach_actions(rng: random.Random, g: Grammar, mode: str):
    """mode: none | void | bool | throw | throwmany | switch | states.  Attach to ~half of the controlled nodes.
    switch: bool-style actions plus disable_action / enable_action / change_action< family 1 > bases, and a second action family."""
    g.acts.clear()
    g.fams.clear()
    if mode.endswith('+msg'):
        # custom error_message members on a quarter of the named rules (message text -> rule id is registered in the harness)
        mode = mode[:-4]
        g.messages = {rid: f"custom message of rule {rid}" for rid in g.named if rng.random() < 0.25}
    if mode == 'none':
        return
    if mode in ('switch', 'states'):
        st = (mode == 'states')

        def pick():
            kind = rng.choice(['apply', 'apply0'])
            if rng.random() < 0.4:
                return ActSpec(kind, True, rng.choice([2, 3, 3, 5]))
            return ActSpec(kind)
        fam1 = {}
        for nid, nd in g.nodes.items():
            if not nd.ctl:
                continue
            q = rng.random()
            a = pick() if rng.random() < 0.55 else ActSpec()
            if q < 0.12:
                a.wrap = 'da'
            elif q < 0.22:
                a.wrap = 'ea'
            elif q < 0.34:
                a.wrap = 'ca:1'
            elif st and q < 0.5:
                a.wrap = f"cs:{rng.randint(0, 1)}"
            elif st and q < 0.62:
                a.wrap = f"cas:1:{rng.randint(0, 1)}"
            if a.kind != 'none' or a.wrap != 'none':
                g.acts[nid] = a
            b = pick() if rng.random() < 0.55 else ActSpec()
            q = rng.random()
            if q < 0.1:
                b.wrap = 'ca:0'
            elif q < 0.18:
                b.wrap = 'da'
            elif q < 0.26:
                b.wrap = 'ea'
            elif st and q < 0.4:
                b.wrap = f"cs:{rng.randint(0, 1)}"
            elif st and q < 0.48:
                b.wrap = f"cas:0:{rng.randint(0, 1)}"
            if (a.wrap.startswith('ca:') or a.wrap.startswith('cas:')) and (b.wrap.startswith('ca:') or b.wrap.startswith('cas:')):
                b.wrap = 'none'     # family 0 -> 1 -> 0 on the same rule would recurse for ever (in C++ as in the model)
            if b.kind != 'none' or b.wrap != 'none':
                fam1[nid] = b
        g.fams[1] = fam1
        return
    for nid, nd in g.nodes.items():
        if not nd.ctl or rng.random() < 0.45:
            continue
        kind = rng.choice(['apply', 'apply0'])
        if mode == 'void':
            g.acts[nid] = ActSpec(kind)
        elif mode == 'bool':
            if rng.random() < 0.5:
                g.acts[nid] = ActSpec(kind, True, rng.choice([2, 3, 3, 5]))
            else:
                g.acts[nid] = ActSpec(kind)
        elif mode == 'throwmany':
            # most rules throw on some spans (std and non-std), so that every try_catch variant sees foreign exceptions from inside
            if rng.random() < 0.75:
                g.acts[nid] = ActSpec(kind, False, 0, rng.choice([2, 2, 3]), rng.random() < 0.5)
            else:
                g.acts[nid] = ActSpec(kind)
        elif mode == 'throw':
            q = rng.random()
            if q < 0.3:
                g.acts[nid] = ActSpec(kind, rng.random() < 0.3, rng.choice([0, 3]), rng.choice([3, 4, 5]), rng.random() < 0.5)
            elif q < 0.6:
                g.acts[nid] = ActSpec(kind, True, rng.choice([2, 3, 5]))
            else:
                g.acts[nid] = ActSpec(kind)


# ---------------------------------------------------------------- every atom in every simple context

ZOO_ALPHA = [48, 49, 50, 53, 54, 97, 65, 10, 13, 0xC3, 0xA9, 33]     # 0 1 2 5 6 a A \n \r é(2 bytes) !


def atom_zoo():
    """(name, rule) for every leaf rule the model has an atom for: the ascii / utf8 / contrib leaves with parameters chosen so that
    each both matches and fails on strings over ZOO_ALPHA (several digits for maximum_rule: match, overflow after one or two digits)."""
    from .gram import X
    return [
        ('any', P('any')), ('one', P('one', C(49))), ('one2', P('one', C(49), C(97))), ('not_one', P('not_one', C(49))),
        ('one0', P('one')), ('not_one0', P('not_one')), ('ranges0', P('ranges')), ('ranges1', P('ranges', C(53))), ('string0', P('string')), ('istring0', P('istring')),
        ('bytes0', P('bytes', N(0))), ('range_same', P('range', C(53), C(53))), ('not_range_same', P('not_range', C(53), C(53))),
        ('range', P('range', C(48), C(53))), ('not_range', P('not_range', C(48), C(53))),
        ('ranges', P('ranges', C(48), C(50), C(97), C(98), C(54))), ('string', P('string', C(49), C(50))), ('string3', P('string', C(49), C(50), C(53))),
        ('istring', P('istring', C(97), C(49))), ('bytes2', P('bytes', N(2))), ('require2', P('require', N(2))),
        ('eof', P('eof')), ('bof', P('bof')), ('bol', P('bol')), ('eol', P('eol')), ('eolf', P('eolf')),
        ('success', P('success')), ('failure', P('failure')), ('everything', P('everything')),
        ('u8range', P('utf8::range', N(0x80), N(0x7FF))), ('u8not_range', P('utf8::not_range', N(0x30), N(0x39))),
        ('max8', P('maximum_rule', X('std::uint8_t'))), ('max25', P('maximum_rule', X('std::uint8_t'), N(25))),
        ('max16', P('maximum_rule', X('std::uint16_t'))), ('max1', P('maximum_rule', X('std::uint8_t'), N(1))),
        ('rom12', P('rep_one_min_max', N(1), N(2), C(49))), ('rom23', P('rep_one_min_max', N(2), N(3), C(49))),
        ('digit', P('digit')), ('alpha', P('alpha')), ('alnum', P('alnum')), ('xdigit', P('xdigit')), ('blank', P('blank')),
        ('space', P('space')), ('nul', P('nul')), ('lower', P('lower')), ('upper', P('upper')), ('odigit', P('odigit')),
        ('print', P('print')), ('seven', P('seven')), ('ellipsis', P('ellipsis')),
        ('two', P('two', C(49))), ('three', P('three', C(49))), ('identifier', P('identifier')), ('keyword', P('keyword', C(97), C(49))),
        ('pred_and', P('predicates_and', P('range', C(48), C(57)), P('not_one', C(53)))),
        ('pred_or', P('predicates_or', P('one', C(97)), P('range', C(48), C(50)))),
        ('pred_not', P('predicate_not', P('range', C(48), C(53)))),
    ]


def zoo_grammars(gid_prefix: str, per_grammar: int = 4, exclude=()):
    """Grammars with `per_grammar` atoms each; every atom X as: X, seq< X, 'a' >, seq< '1', X >, sor< seq< X, '!' >, any >, opt< X >,
    at< X >, not_at< X >, seq< X, X >, star< seq< X, 'a' > >."""
    zoo = [z for z in atom_zoo() if z[0] not in exclude]
    out = []
    for gi in range(0, len(zoo), per_grammar):
        g = Grammar(f"{gid_prefix}{gi // per_grammar}")
        roots = []
        names = []
        for name, x in zoo[gi:gi + per_grammar]:
            names.append(name)
            for t in (x, P('seq', x, P('one', C(97))), P('seq', P('one', C(49)), x), P('sor', P('seq', x, P('one', C(33))), P('any')),
                      P('opt', x), P('at', x), P('not_at', x), P('seq', x, x), P('star', P('seq', x, P('one', C(97))))):
                roots.append(g.rule(t).id)
        g.resolve()
        out.append((g, roots, {'kind': 'atoms', 'atoms': names}))
    return out
