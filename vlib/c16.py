"""c16.py — check for property C16: raw_string implements Lua long-bracket literals.

1. Lean obligations: lean/PegtlVerif/Props/C16.lean (theorems about the model
   lean/PegtlVerif/Model/RawString.lean against the spec lean/PegtlVerif/Spec/LuaLong.lean).
2. Correspondence: harness/leaf_c16.cpp (real contrib/raw_string.hpp from /repo, ASan+UBSan, inputs in
   exact-size heap buffers) against the compiled Lean model lean/DrvC16.lean on the same lines.
3. Oracle: an independent Python scanner for the Lua long-bracket definition (`lua_long` below, built
   on bytes.find / regular expressions, none of the model's loops) evaluated on the implementation's
   observations for every explored input; it also cross-checks the Lean spec function `LuaLong.scan`.

Line protocol (both drivers):  `<Open> <Marker> <Close> <eol 0..4> <contents 0..3> <hex input|->`.
"""
from __future__ import annotations
import itertools
import json
import random
import re
import sys
import time
from concurrent.futures import ProcessPoolExecutor, ThreadPoolExecutor
from pathlib import Path
from typing import Any, Dict, List, Optional, Tuple

from . import common, leaf

PROP = 'C16'
TRIPLES = [(0x5b, 0x3d, 0x5d),   # '[' '=' ']'   the Lua characters
           (0x3c, 0x2d, 0x3e),   # '<' '-' '>'   custom
           (0x22, 0x3d, 0x22),   # '"' '=' '"'   Close = Open
           (0x5b, 0x3d, 0x3d)]   # '[' '=' '='   Close = Marker
EOLS = ['lf', 'cr', 'crlf', 'lf_crlf', 'cr_crlf']
CONTENTS = ['none', 'any', 'any,any', "not_one<'x'>"]
TAGS = ['A1R', 'A1O', 'A0R', 'A0O']
LF, CR, X = 0x0a, 0x0d, 0x78


# ------------------------------------------------------------------ the oracle (independent scanner)

def eol_len(eol: int, s: bytes, p: int) -> int:
    """Documented accept set of `eol` per policy: length of the line ending at p (0: none)."""
    t = s[p:p + 2]
    if eol == 0:
        return 1 if t[:1] == b'\n' else 0
    if eol == 1:
        return 1 if t[:1] == b'\r' else 0
    if eol == 2:
        return 2 if t == b'\r\n' else 0
    if eol == 3:
        return 1 if t[:1] == b'\n' else (2 if t == b'\r\n' else 0)
    return 2 if t == b'\r\n' else (1 if t[:1] == b'\r' else 0)


_open_re: Dict[Tuple[int, int], Any] = {}


def lua_open(o: int, m: int, s: bytes) -> Optional[int]:
    """Level of the opening long bracket at the start of s (Open Marker* Open), or None."""
    r = _open_re.get((o, m))
    if r is None:
        r = re.compile(re.escape(bytes([o])) + b'((?:' + re.escape(bytes([m])) + b')*)' + re.escape(bytes([o])), re.S)
        _open_re[(o, m)] = r
    mt = r.match(s)
    return None if mt is None else len(mt.group(1))


def lua_long(o: int, m: int, c: int, eol: int, contents: int, s: bytes) -> Optional[Tuple[int, int, int]]:
    """(level n, content begin b, content end e) of the long literal at the start of s, or None.
    The literal is s[0 : e+n+2].  contents: 0 none; 1 `any` (pieces of one byte); 2 `any, any`
    (pieces of two bytes); 3 not_one<'x'> (pieces of one byte other than 'x').  With content rules
    the literal ends at the first closing bracket of level n that starts at a piece boundary."""
    n = lua_open(o, m, s)
    if n is None:
        return None
    b = n + 2 + eol_len(eol, s, n + 2)
    close = bytes([c]) + bytes([m]) * n + bytes([c])
    if contents == 2:
        q = b
        while True:
            if s.startswith(close, q):
                return (n, b, q)
            if q + 2 > len(s):
                return None
            q += 2
    e = s.find(close, b)
    if e < 0:
        return None
    if contents == 3 and X in s[b:e]:
        return None
    return (n, b, e)


def expected_fields(exp: Optional[Tuple[int, int, int]]) -> Dict[str, Optional[List[str]]]:
    """What the property fixes of each observation; None entries are not constrained.
    Returned per tag: list of fields [result, byte, line, column, span…] with None for 'any'."""
    out: Dict[str, Any] = {}
    for tag in TAGS:
        act = tag[1] == '1'
        req = tag[2] == 'R'
        if exp is not None:
            n, b, e = exp
            f = ['1', str(e + n + 2), None, None]
            f += [str(b), None, None, str(e)] if act else ['-']
        elif req:
            f = ['0', '0', '1', '1', '-']          # fails locally without consuming: cursor fully restored
        else:
            f = ['0', None, None, None, '-']       # rewind_mode::optional: the caller rewinds, position is free
        out[tag] = f
    return out


def split_obs(line: str) -> Dict[str, List[str]]:
    """`A1R … A1O … A0R … A0O …` → tag → fields."""
    toks = line.split(' ')
    res: Dict[str, List[str]] = {}
    cur: Optional[List[str]] = None
    for t in toks:
        if t in TAGS:
            cur = []
            res[t] = cur
        elif t == 'S':
            cur = []
            res['S'] = cur
        elif cur is not None:
            cur.append(t)
    return res


def oracle_line(o: int, m: int, c: int, eol: int, contents: int, s: bytes, impl_line: str) -> Tuple[Optional[str], Optional[Tuple[int, int, int]]]:
    """Evaluate the property on one implementation observation. Returns (complaint or None, expected)."""
    exp = lua_long(o, m, c, eol, contents, s)
    obs = split_obs(impl_line)
    want = expected_fields(exp)
    for tag in TAGS:
        got = obs.get(tag)
        w = want[tag]
        if got is None:
            return f"{tag}: no observation ({impl_line!r})", exp
        if len(got) != len(w) or any(x is not None and g != x for g, x in zip(got, w)):
            lit = 'no literal' if exp is None else 'level %d, content [%d,%d), end %d' % (exp[0], exp[1], exp[2], exp[2] + exp[0] + 2)
            shape = ' '.join('*' if x is None else x for x in w)
            return (f"{tag} (action {'bound to content' if tag[1] == '1' else 'off'}, rewind_mode::{'required' if tag[2] == 'R' else 'optional'}): "
                    f"observed [{' '.join(got)}], the long-bracket definition gives {lit}, i.e. [{shape}] "
                    f"(result byte line column span; * = not fixed by the property)"), exp
        # never consume past the end, whatever the mode
        if got[1].isdigit() and int(got[1]) > len(s):
            return f"{tag}: cursor {got[1]} behind the end {len(s)}", exp
    return None, exp


# ------------------------------------------------------------------ input generation

def alphabet(t: Tuple[int, int, int]) -> List[int]:
    out: List[int] = []
    for x in list(t) + [LF, CR, X]:
        if x not in out:
            out.append(x)
    return out


def hexs(b: bytes) -> str:
    return b.hex() if b else '-'


def exhaustive_inputs(t: Tuple[int, int, int], full_len: int, slice_lens: List[int], slice_mod: int, slice_rem: int) -> Tuple[List[bytes], Dict[str, int]]:
    """All strings of length ≤ 3; all strings `Open`·w with |w| ≤ full_len-1; of the longer lengths in
    slice_lens the residue class (index mod slice_mod = slice_rem) of `Open`·w."""
    al = alphabet(t)
    o = t[0]
    seen = set()
    out: List[bytes] = []
    dist: Dict[str, int] = {}
    for L in range(0, 4):
        for w in itertools.product(al, repeat=L):
            b = bytes(w)
            if b not in seen:
                seen.add(b)
                out.append(b)
        dist[f"any-start len<=3"] = len(out)
    for L in range(1, full_len + 1):
        k = 0
        for w in itertools.product(al, repeat=L - 1):
            b = bytes((o,) + w)
            if b not in seen:
                seen.add(b)
                out.append(b)
                k += 1
        dist[f"open-prefixed len={L} (all)"] = k
    for L in slice_lens:
        k = 0
        for i, w in enumerate(itertools.product(al, repeat=L - 1)):
            if i % slice_mod == slice_rem:
                out.append(bytes((o,) + w))
                k += 1
        dist[f"open-prefixed len={L} (1/{slice_mod} slice, residue {slice_rem})"] = k
    return out, dist


def structured_random(t: Tuple[int, int, int], rng: random.Random, count: int) -> List[bytes]:
    """Longer inputs built around the definition: opener of level 0..3, optional line ending(s), a body
    sprinkled with closing brackets of other levels, near-miss closers and line endings, then a closer
    of the same level (or none / a wrong one), then trailing bytes."""
    o, m, c = t
    al = alphabet(t)
    out = []
    for _ in range(count):
        n = rng.choice([0, 1, 2, 3, 3, 2, rng.randrange(0, 6)])
        s = bytearray([o] + [m] * n + [o])
        r = rng.random()
        if r < 0.15:
            s += b'\n'
        elif r < 0.3:
            s += b'\r\n'
        elif r < 0.4:
            s += b'\r'
        elif r < 0.45:
            s += b'\n\n'
        elif r < 0.5:
            s += b'\r\r\n'
        for _ in range(rng.randrange(0, 7)):
            k = rng.random()
            if k < 0.35:
                s += bytes(rng.choice(al) for _ in range(rng.randrange(0, 5)))
            elif k < 0.6:
                n2 = rng.choice([x for x in range(0, 5) if x != n])
                s += bytes([c] + [m] * n2 + [c])                      # closing bracket of another level
            elif k < 0.75:
                s += bytes([c] + [m] * n)                             # closer without its last bracket
            elif k < 0.85:
                s += bytes([c] + [m] * max(0, n - 1) + [X] + [c])     # closer with a foreign byte inside
            elif k < 0.95:
                s += bytes([o] + [m] * rng.randrange(0, 4) + [o])     # nested opener
            else:
                s += rng.choice([b'\n', b'\r\n', b'\r', b'x'])
        r = rng.random()
        if r < 0.7:
            s += bytes([c] + [m] * n + [c])
            if rng.random() < 0.5:
                s += bytes(rng.choice(al) for _ in range(rng.randrange(0, 4)))
            if rng.random() < 0.2:
                s += bytes([c] + [m] * n + [c])                       # a second closer: must not be reached
        elif r < 0.8:
            s += bytes([c] + [m] * (n + 1) + [c])
        elif r < 0.9:
            s += bytes([c] + [m] * n)
        out.append(bytes(s))
    # plain random strings over the alphabet, length 9..24
    for _ in range(count // 3):
        L = rng.randrange(9, 25)
        out.append(bytes([o]) + bytes(rng.choice(al) for _ in range(L - 1)))
    return out


# ------------------------------------------------------------------ one shard = one (triple, contents), all five eol policies

def cpp_exe(ti: int) -> Path:
    return common.BUILD / 'c16' / f'leaf_c16_t{ti}'


def run_shard(args: Tuple[int, int, str, int]) -> Dict[str, Any]:
    ti, ci, tier, seed = args
    t = TRIPLES[ti]
    o, m, c = t
    rng = random.Random(f"c16-{seed}-{ti}-{ci}")
    if tier == 'thorough':
        mod = 6
        inputs, dist = exhaustive_inputs(t, 8, [9], mod, rng.randrange(mod))
        nrand = 6000
    else:
        mod = 8
        inputs, dist = exhaustive_inputs(t, 7, [8], mod, rng.randrange(mod))
        nrand = 1500
    rnd = structured_random(t, rng, nrand)
    dist['structured/random longer'] = len(rnd)
    n_exh = len(inputs)
    inputs = inputs + rnd
    res: Dict[str, Any] = {'shard': [ti, ci], 'evaluations': 0, 'nontrivial': 0, 'dist': dist, 'mismatch': [],
                           'oracle': [], 'spec_oracle': [], 'stats': {}, 'samples': [], 'problems': [], 'maxlen': 0}
    stats: Dict[str, int] = {}
    distinct = set()
    for ei in range(5):
        lines = [f"{o} {m} {c} {ei} {ci} {hexs(s)}" for s in inputs]
        text = '\n'.join(lines) + '\n'
        pc = leaf.run_exe(cpp_exe(ti), text, timeout=3000)
        pl = leaf.run_exe(leaf.lean_exe('drv_c16'), text, timeout=3000)
        if pc.returncode != 0:
            # a sanitizer report or crash: find the first input that triggers it
            bad = None
            for ln in lines[len(pc.stdout.splitlines()):][:50]:
                p1 = leaf.run_exe(cpp_exe(ti), ln + '\n', timeout=60)
                if p1.returncode != 0:
                    err = p1.stderr or ''
                    k = err.find('ERROR:')
                    k = err.find('runtime error') if k < 0 else k
                    bad = (ln, err[max(k, 0):][:900])
                    break
            res['problems'].append({'what': 'implementation driver failed (sanitizer report or crash)', 'rc': pc.returncode,
                                    'line': bad[0] if bad else None, 'stderr': bad[1] if bad else (pc.stderr or '')[-1500:]})
            continue
        if pl.returncode != 0:
            res['problems'].append({'what': 'model driver failed', 'rc': pl.returncode, 'stderr': (pl.stderr or '')[-500:]})
            continue
        co = pc.stdout.splitlines()
        lo = pl.stdout.splitlines()
        if len(co) != len(lines) or len(lo) != len(lines):
            res['problems'].append({'what': f'line count: sent {len(lines)}, implementation {len(co)}, model {len(lo)}'})
            continue
        for idx, (s, ln, ic, ml) in enumerate(zip(inputs, lines, co, lo)):
            res['evaluations'] += 1
            k = ml.rfind(' S ')
            mo, sp = (ml[:k], ml[k + 3:]) if k >= 0 else (ml, '?')
            if ic != mo and len(res['mismatch']) < 20:
                res['mismatch'].append({'line': ln, 'impl': ic, 'model': mo})
            elif ic != mo:
                res['mismatch_more'] = res.get('mismatch_more', 0) + 1
            complaint, exp = oracle_line(o, m, c, ei, ci, s, ic)
            if complaint is not None and len(res['oracle']) < 20:
                res['oracle'].append({'line': ln, 'impl': ic, 'complaint': complaint,
                                      'expected': None if exp is None else {'level': exp[0], 'content_begin': exp[1], 'content_end': exp[2], 'end': exp[2] + exp[0] + 2}})
            elif complaint is not None:
                res['oracle_more'] = res.get('oracle_more', 0) + 1
            # the Lean spec function against the Python scanner (rule-less definition)
            plain = lua_long(o, m, c, ei, 0, s)
            want_sp = '-' if plain is None else f"{plain[0]} {plain[1]} {plain[2]}"
            if sp != want_sp and len(res['spec_oracle']) < 10:
                res['spec_oracle'].append({'line': ln, 'lean_spec': sp, 'python': want_sp})
            # classification
            lvl = lua_open(o, m, s)
            if lvl is not None:
                if (ei, s) not in distinct:
                    distinct.add((ei, s))
                    res['nontrivial'] += 1
                key = f"level{min(lvl, 4)}{'+' if lvl >= 4 else ''}:{'ok' if exp else 'fail'}"
                stats[key] = stats.get(key, 0) + 1
                if exp is not None:
                    if exp[1] > lvl + 2:
                        stats['eol-skipped'] = stats.get('eol-skipped', 0) + 1
                    body = s[exp[1]:exp[2]]
                    if c in body[:-1] if len(body) > 1 else False:
                        stats['close-char-inside-content'] = stats.get('close-char-inside-content', 0) + 1
                    if plain is not None and plain[2] != exp[2]:
                        stats['content-rule-steps-over-a-closer'] = stats.get('content-rule-steps-over-a-closer', 0) + 1
                elif plain is not None:
                    stats['content-rule-rejects-a-literal'] = stats.get('content-rule-rejects-a-literal', 0) + 1
            else:
                stats['no-opener'] = stats.get('no-opener', 0) + 1
            if len(s) > res['maxlen']:
                res['maxlen'] = len(s)
            if ei == 3 and idx in (n_exh - 1, n_exh + 1, n_exh + 2) and len(res['samples']) < 3:
                res['samples'].append({'line': ln, 'input': s.decode('latin1'), 'impl': ic, 'oracle': None if exp is None else list(exp)})
    res['stats'] = stats
    res['exhaustive_inputs'] = n_exh
    return res


# ------------------------------------------------------------------ build

def build_all(triples: List[int]) -> List[str]:
    problems = []
    ok, out = leaf.build_lean_exe('drv_c16')
    if not ok:
        problems.append('lake build drv_c16 failed: ' + out[-800:])
    src = common.VERIF / 'harness' / 'leaf_c16.cpp'

    def one(ti: int):
        return ti, leaf.compile_cpp(src, cpp_exe(ti), extra=[f'-DC16_TRIPLE={ti}'])
    with ThreadPoolExecutor(max_workers=4) as ex:
        for ti, (ok, err) in ex.map(one, triples):
            if not ok:
                problems.append(f'harness/leaf_c16.cpp (triple {ti}) does not compile against {common.REPO}/include: ' + err[-1500:])
    return problems


def broken_theorems(ci: int, hit: Dict[str, Any]) -> List[str]:
    """Which theorem of Props/C16.lean the observation contradicts (for the replay file)."""
    obs = split_obs(hit['impl']).get('A1R')
    exp = hit.get('expected')
    match_thm = 'C16_match' if ci == 0 else 'C16_contents'
    if not obs or not obs[0] in ('0', '1'):
        return ['no observation (crash / sanitizer report): the model reads inside the window only', match_thm]
    if exp is None:
        return [match_thm + ' / C16_fail: matched although no long literal starts here'] if obs[0] == '1' else \
               ['C16_fail_rewind: a failed raw_string left the cursor moved in rewind_mode::required']
    if obs[0] == '0' or obs[1] != str(exp['end']):
        return [match_thm + ': result / bytes consumed']
    return ['C16_content' if ci == 0 else 'C16_contents_content', 'projection: content span']


def payload_for(hit: Dict[str, Any]) -> Dict[str, Any]:
    f = hit['line'].split(' ')
    o, m, c, ei, ci = (int(x) for x in f[:5])
    return {'config': {'open': o, 'marker': m, 'close': c, 'eol': EOLS[ei], 'contents': CONTENTS[ci],
                       'rule': f"raw_string< {chr(o)!r}, {chr(m)!r}, {chr(c)!r}{'' if ci == 0 else ', ' + CONTENTS[ci]} >",
                       'input': 'memory_input< tracking_mode::eager, eol::%s >, exact-size heap buffer' % EOLS[ei]},
            'protocol_line': hit['line'], 'input_hex': f[5], 'input_text': bytes.fromhex('' if f[5] == '-' else f[5]).decode('latin1'),
            'observed': hit['impl'], 'expected': hit.get('expected'), 'complaint': hit['complaint'],
            'oracle': 'vlib/c16.py lua_long (Lua long-bracket definition); fields: <tag> result byte line column span, tags A<action?><Required|Optional>',
            'broken': broken_theorems(ci, hit)}


# ------------------------------------------------------------------ entry points

def run(tier: str) -> int:
    v = common.Verdict(PROP, tier)
    t0 = time.time()
    rep = common.check_lean(['PegtlVerif.Props.C16'], leanchecker=(tier == 'thorough'))
    if not rep.ok:
        for p in rep.problems:
            v.broke('lean: ' + p)
    t_lean = time.time() - t0
    problems = build_all(list(range(len(TRIPLES))))
    for p in problems:
        v.broke('build: ' + p)
    cov: Dict[str, Any] = {'obligations': rep.obligations, 'discharged': rep.discharged, 'checker_cmd': rep.checker_cmd,
                           'theorems': rep.theorems, 'axioms': rep.axioms,
                           'trusted_base': common.TRUSTED_BASE[:4] + [
                               'lean/PegtlVerif/Spec/LuaLong.lean (Long / LongWith / eolLen) is the meaning of "Lua long bracket literal"',
                               'harness/leaf_c16.cpp observation driver, lean/DrvC16.lean, vlib/c16.py (generator, diff, Python scanner lua_long), g++ 12 / libstdc++',
                               'Contents... is modelled as a step function on the input state; exceptions thrown by content rules are not modelled']}
    evidence: Dict[str, Any] = {'level': 'proof', 'coverage': cov,
                                'assumptions': ['Open != Marker (otherwise raw_string_open does not compile: duplicate case label)',
                                                'memory_input with eager tracking; the theorems speak about byte offsets, line/column are compared model-vs-code only']}
    if problems:
        cov.update({'evaluations': 0, 'distinct_nontrivial': 0, 'rule': 'build failed', 'samples': []})
        return v.finish(evidence)
    t1 = time.time()
    shards = [(ti, ci, tier, common.seed()) for ti in range(len(TRIPLES)) for ci in range(len(CONTENTS))]
    workers = 6 if tier == 'thorough' else 4
    with ProcessPoolExecutor(max_workers=workers) as ex:
        results = list(ex.map(run_shard, shards))
    t_run = time.time() - t1
    evals = sum(r['evaluations'] for r in results)
    nontriv = sum(r['nontrivial'] for r in results)
    stats: Dict[str, int] = {}
    for r in results:
        for k, x in r['stats'].items():
            stats[k] = stats.get(k, 0) + x
    # oracle hits first (failing inputs), then disagreements, then infrastructure problems
    n_or = 0
    for r in results:
        for hit in r['oracle']:
            n_or += 1
            if n_or <= 5:
                v.failing_input(payload_for(hit))
        n_or += r.get('oracle_more', 0)
    n_mis = 0
    n_crash = 0
    for r in results:
        for mm in r['mismatch']:
            n_mis += 1
            if n_mis <= 5:
                v.broke(f"correspondence: line `{mm['line']}`: implementation `{mm['impl']}` model `{mm['model']}`")
        n_mis += r.get('mismatch_more', 0)
        for sp in r['spec_oracle']:
            v.broke(f"spec-vs-oracle: line `{sp['line']}`: LuaLong.scan `{sp['lean_spec']}` python `{sp['python']}`")
        for p in r['problems']:
            n_crash += 1
            if p.get('line') and n_crash > 5:
                continue
            if p.get('line'):
                hit = {'line': p['line'], 'impl': 'driver exit %s' % p.get('rc'), 'complaint': p['what'] + ': ' + (p.get('stderr') or '')[:900]}
                v.failing_input(payload_for(hit))
            else:
                v.broke('correspondence run: ' + json.dumps(p)[:800])
    samples = [s for r in results for s in r['samples']][:8]
    full = 8 if tier == 'thorough' else 7
    cov.update({
        'evaluations': evals,
        'distinct_nontrivial': nontriv,
        'rule': ('one evaluation = one protocol line (triple, eol policy, contents variant, input) on which the real raw_string is '
                 'run 4 times (action attached or not x rewind required/optional) and compared with the model and the oracle; '
                 'non-trivial = the input starts with an opening long bracket (the scan for a closing bracket runs); '
                 'distinct = distinct (triple, contents, eol, input)'),
        'samples': samples,
        'exhaustive': True,
        'exhaustive_scope': (f'every string of length <= 3 and every string Open.w of length <= {full} over {{Open, Marker, Close, LF, CR, x}} '
                             f'for {len(TRIPLES)} triples x {len(CONTENTS)} contents variants x 5 eol policies'
                             + ('; length 9: a seed-chosen 1/6 residue class' if tier == 'thorough' else '; length 8: a seed-chosen 1/8 residue class (all of them in the thorough tier)')),
        'distribution': {'per_shard_inputs': results[0]['dist'], 'classes': stats, 'max_input_length': max(r['maxlen'] for r in results)},
        'triples': [''.join(chr(x) for x in t) for t in TRIPLES], 'eol_policies': EOLS, 'contents_variants': CONTENTS,
        'oracle_hits': n_or, 'model_disagreements': n_mis,
        'time_s': {'lean': round(t_lean, 1), 'build_and_run': round(time.time() - t0 - t_lean, 1), 'run': round(t_run, 1)},
    })
    print(f"C16: {evals} evaluations ({nontriv} distinct non-trivial), {n_or} oracle hits, {n_mis} model disagreements; "
          f"obligations {rep.discharged}/{rep.obligations}; classes {stats}")
    return v.finish(evidence)


def replay(path: str) -> int:
    payload = json.loads(Path(path).read_text())
    v = common.Verdict(PROP, 'quick')
    line = payload.get('protocol_line')
    if not line:
        print('replay file has no protocol_line (kind=%s); broken: %s' % (payload.get('kind'), payload.get('broken')))
        return 1
    f = line.split(' ')
    o, m, c, ei, ci = (int(x) for x in f[:5])
    ti = TRIPLES.index((o, m, c))
    problems = build_all([ti])
    if problems:
        for p in problems:
            print(p)
        return 1
    s = bytes.fromhex('' if f[5] == '-' else f[5])
    pc = leaf.run_exe(cpp_exe(ti), line + '\n', timeout=120)
    pl = leaf.run_exe(leaf.lean_exe('drv_c16'), line + '\n', timeout=120)
    ic = pc.stdout.strip()
    print('input      :', repr(s.decode('latin1')), f"({payload['config']['rule']}, eol::{EOLS[ei]})")
    print('implementation:', ic if pc.returncode == 0 else f'exit {pc.returncode}: {pc.stderr[-800:]}')
    print('model         :', pl.stdout.strip())
    if pc.returncode != 0:
        print(f"VIOLATION property={PROP} replay={path}")
        return 1
    complaint, exp = oracle_line(o, m, c, ei, ci, s, ic)
    print('oracle        :', 'no literal' if exp is None else 'level %d content [%d,%d) end %d' % (exp[0], exp[1], exp[2], exp[2] + exp[0] + 2))
    if complaint:
        print('complaint     :', complaint)
        print(f"VIOLATION property={PROP} replay={path}")
        return 1
    print('the implementation now agrees with the oracle on this input')
    return 0
