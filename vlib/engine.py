"""engine.py — the shared check for the properties decided on the matcher model (`Model/Run.lean`):
Lean obligations, differential run (model driver vs. real headers), per-property oracles over the
implementation's own observations, verdict and evidence."""
from __future__ import annotations
import hashlib
import os
import json
import random
import time
from dataclasses import dataclass, field
from typing import Callable, Dict, List, Optional, Sequence, Tuple

from . import common
from .diffrun import Case, Config, ImplResult, Trace, run_impl, run_model
from .gram import Grammar, grammar_from_json, grammar_to_json


# ---------------------------------------------------------------- helpers over traces

def ev_fields(line: str) -> List[str]:
    return line.split()


def compute_surv(events: List[str]) -> List[str]:
    """The transactional action log: drop everything logged inside an invocation that returned
    false or threw (DESIGN C04 tie)."""
    surv: List[str] = []
    stack: List[int] = []
    for l in events:
        t = l.split(' ', 1)[0]
        if t == 'E':
            stack.append(len(surv))
        elif t in ('ap', 'a0', 'rp'):
            surv.append(l)
        elif t == 'X':
            start = stack.pop() if stack else 0
            if l.split()[2] != '1':
                del surv[start:]
    return surv


def is_nontrivial(tr: Trace) -> bool:
    """A case is non-trivial if the run backtracked after consuming, succeeded consuming at least
    one byte, or ended in an exception."""
    if tr.result.startswith('R 2'):
        return True
    f = tr.result.split()
    if len(f) >= 3 and f[1] == '1' and f[2] != '0':
        return True
    stack = []
    maxpos = 0
    for l in tr.events:
        p = l.split()
        if p[0] == 'E':
            stack.append(int(p[4]))
        elif p[0] == 'X':
            start = stack.pop() if stack else 0
            if p[2] == '0' and maxpos > start:
                return True
        if p[0] in ('X', 'su', 'fa'):
            maxpos = max(maxpos, int(p[3])) if p[0] == 'X' else max(maxpos, int(p[2]))
    return False


def case_payload(c: Case, impl: Optional[Trace], model: Optional[Trace], extra: Dict) -> Dict:
    d = {
        'grammar_def': grammar_to_json(c.g),
        'grammar': c.g.proto_lines(),
        'grammar_cpp': [f"n{nid}: {nd.cpp} [{nd.flavour}]" for nid, nd in sorted(c.g.nodes.items())],
        'config': {k: getattr(c.cfg, k) for k in ('root', 'a', 'm', 'eol', 'lazy', 'unwind', 'fam', 'tree', 'mi', 'cov')},
        'init': list(c.init),
        'input_hex': c.data.hex(),
        'observed': {'events': impl.events, 'result': impl.result, 'o': impl.o, 'tree': impl.tree} if impl else None,
        'model': {'events': model.events, 'result': model.result, 'o': model.o, 'surv': model.surv, 'tree': model.tree} if model else None,
    }
    d.update(extra)
    return d


# ---------------------------------------------------------------- oracles (implementation trace only)

def oracle_rewind(c: Case, tr: Trace) -> Optional[str]:
    """C02: a failing invocation under rewind_mode::required, and every look-ahead invocation, leaves
    the cursor (byte, line, column) where it was; a succeeding one never moves it backwards."""
    stack = []
    for l in tr.events:
        p = l.split()
        if p[0] == 'E':
            stack.append(p)
        elif p[0] == 'X':
            if not stack:
                return f"unbalanced exit {l}"
            e = stack.pop()
            if e[1] != p[1]:
                return f"exit {l} does not match enter {' '.join(e)}"
            nid = int(p[1])
            cur_in, cur_out = e[4:7], p[3:6]
            kind = c.g.nodes[nid].kind if nid in c.g.nodes else '?'
            if p[2] == '0' and e[3] == 'r' and cur_in != cur_out:
                return f"rule {nid} ({kind}) failed under required but cursor moved {cur_in} -> {cur_out}"
            if kind in ('atR', 'notAt') and p[2] != '2' and cur_in != cur_out:
                return f"look-ahead rule {nid} ({kind}) moved the cursor {cur_in} -> {cur_out}"
            if p[2] == '1' and int(cur_out[0]) < int(cur_in[0]):
                return f"rule {nid} succeeded but cursor moved backwards {cur_in} -> {cur_out}"
    return None


def oracle_hooks(c: Case, tr: Trace) -> Optional[str]:
    """C08: start/success/failure/unwind are balanced like a call stack and truthful; apply/apply0
    come after the rule's inner events and before its closing hook; raise only from must/raise
    (or a must_if failure hook)."""
    hstack: List[Tuple[int, bool]] = []      # (rule, action-seen)
    bstack: List[List] = []                  # per enter: [id, hook-open?, closed-by]
    for l in tr.events:
        p = l.split()
        t = p[0]
        if t == 'E':
            bstack.append([int(p[1]), None, bool(c.cfg.unwind)])
        elif t == 'st':
            hstack.append((int(p[1]), False))
            if not bstack or bstack[-1][0] != int(p[1]):
                return f"start for rule {p[1]} outside its own invocation"
            if len(p) > 5 and p[5] != '0':
                bstack[-1][2] = True      # hooks run by the second control family, which defines unwind()
        elif t in ('ap', 'a0'):
            if not hstack or hstack[-1][0] != int(p[1]):
                return f"{t} for rule {p[1]} while rule {hstack[-1][0] if hstack else None} is open"
            if hstack[-1][1]:
                return f"second action call for one attempt of rule {p[1]}"
            hstack[-1] = (hstack[-1][0], True)
        elif t in ('su', 'fa', 'uw'):
            if not hstack or hstack[-1][0] != int(p[1]):
                return f"{t} for rule {p[1]} does not close the innermost open start ({hstack[-1][0] if hstack else None})"
            hstack.pop()
            if bstack:
                bstack[-1][1] = t
        elif t == 'X':
            if not bstack:
                return "unbalanced exit"
            b = bstack.pop()
            nid = int(p[1])
            ctl = c.g.nodes[nid].ctl if nid in c.g.nodes else False
            if ctl:
                want = {'1': 'su', '0': 'fa', '2': 'uw'}[p[2]]
                if p[2] == '2' and not b[2]:
                    # no unwind() in this control: the start stays open; discard it
                    if hstack and hstack[-1][0] == nid:
                        hstack.pop()
                    continue
                if b[1] != want:
                    return f"rule {nid} returned {p[2]} but its closing hook was {b[1]}"
            elif b[1] is not None and False:
                return f"hidden rule {nid} received hooks"
        elif t == 'ra':
            pass
    if hstack and not tr.result.startswith('R 2'):
        return f"open starts at end of run: {hstack}"
    return None


def oracle_sem(c: Case, tr: Trace, sem: Optional[str]) -> Optional[str]:
    """C01/C09: result, consumed prefix and blamed rule equal the PEG formalism's, evaluated on the
    documented expansion by the spec evaluator (Spec/Peg.lean semEval)."""
    if sem is None or sem.startswith('none'):
        return None
    r = tr.result.split()
    s = sem.split()
    if s[0] == '1':
        if r[1] != '1' or r[2] != s[1]:
            return f"formalism: success consuming {s[1]}; implementation: {tr.result}"
    elif s[0] == '0':
        if r[1] != '0':
            return f"formalism: local failure; implementation: {tr.result}"
    elif s[0] == '2':
        if r[1] != '2':
            return f"formalism: global failure {' '.join(s[1:])}; implementation: {tr.result}"
        # compare the blame structure: P l / N l ( ... )
        impl_blame = [x for i, x in enumerate(r[5:]) if x in ('P', 'N', '(', ')') or (i > 0 and r[5:][i - 1] in ('P', 'N'))]
        if impl_blame != s[1:]:
            return f"formalism blames {' '.join(s[1:])}; implementation: {' '.join(impl_blame)}"
    return None


def oracle_surv_spans(c: Case, tr: Trace) -> Optional[str]:
    """C04 (local part): every apply event's begin equals the cursor when the rule was entered and its end
    equals the cursor when the action ran; apply/apply0 only while actions are enabled for that invocation."""
    stack = []
    for l in tr.events:
        p = l.split()
        if p[0] == 'E':
            stack.append(p)
        elif p[0] == 'X':
            stack.pop()
        elif p[0] == 'ap':
            e = stack[-1]
            if e[1] != p[1]:
                return f"apply for rule {p[1]} inside invocation of {e[1]}"
            if e[2] != '1':
                return f"apply for rule {p[1]} although apply_mode is nothing"
            if p[2:5] != e[4:7]:
                return f"apply span of rule {p[1]} begins at {p[2:5]} but the match began at {e[4:7]}"
        elif p[0] == 'a0':
            e = stack[-1]
            if e[1] != p[1] or e[2] != '1':
                return f"apply0 for rule {p[1]} in the wrong invocation or with actions disabled"
    return None


# ---------------------------------------------------------------- the engine

@dataclass
class Profile:
    name: str
    grammars: Callable[[random.Random, str], List[Tuple[Grammar, List[int], Dict]]]
    configs: Callable[[Grammar, int, str], List[Config]]
    inputs: Callable[[random.Random, Grammar, str], List[bytes]]
    oracles: List[Tuple[str, Callable]] = field(default_factory=list)
    use_sem: bool = False
    compare_surv: bool = True
    san: str = 'asan'
    per_tu: int = 6
    fuel: int = 200
    inits: Sequence[Tuple[int, int, int]] = ((0, 1, 1),)
    known: Optional[Callable[[Case, Trace, str, str], Optional[Tuple[str, str]]]] = None  # (case, trace, oracle, msg) -> (finding id, what)
    compare_filter: Optional[Callable[[str], bool]] = None   # keep only event lines for which this is true


def run_engine(prop: str, tier: str, lean_modules: List[str], profiles: List[Profile],
               extra_obligations: List[str] = (), level_text: str = '', extra=None) -> int:
    v = common.Verdict(prop, tier)
    rng = random.Random(common.seed() * 7919 + sum(map(ord, prop)))
    rep = common.check_lean(lean_modules, list(extra_obligations), leanchecker=(tier == 'thorough'))
    for pb in rep.problems:
        v.broke("lean: " + pb)

    cov = {'obligations': rep.obligations, 'discharged': rep.discharged if rep.ok else min(rep.discharged, rep.obligations - 1 if rep.obligations else 0),
           'checker_cmd': rep.checker_cmd, 'trusted_base': list(common.TRUSTED_BASE),
           'theorems': rep.theorems, 'axioms': rep.axioms, 'nonvacuity_examples': rep.examples,
           'evaluations': 0, 'distinct_nontrivial': 0, 'programs': 0, 'profiles': {},
           'rule': "cases = (generated grammar, root, apply/rewind mode, eol policy, tracking, input bytes); exhaustive inputs up to the profile's length over the grammar alphabet plus a foreign byte; "
                   "non-trivial = the real run backtracked after consuming, or succeeded consuming >= 1 byte, or ended in an exception; distinct by sha256 of (grammar table, config, input)",
           'samples': []}
    seen = set()
    dist: Dict[str, int] = {}
    mismatches = 0
    chunk_n = int(os.environ.get('VERIF_ENGINE_CHUNK', '48'))     # grammars handled at a time: bounds the memory held in traces
    for prof in profiles:
      t0 = time.time()
      groups_all = prof.grammars(rng, tier)
      k = 0
      pacc = None
      for ci in range(0, max(len(groups_all), 1), chunk_n):
        groups = groups_all[ci:ci + chunk_n]
        cases: List[Case] = []
        for g, roots, meta in groups:
            inputs = prof.inputs(rng, g, tier)
            for root in roots:
                for cfg in prof.configs(g, root, tier):
                    for init in prof.inits:
                        for data in inputs:
                            cases.append(Case(f"{prof.name}_{k}", g, cfg, data, init))
                            k += 1
        # model first: drop grammars on which the model runs out of fuel (the C++ would not terminate quickly)
        mt, sems = run_model(cases, prof.fuel, prof.use_sem)
        bad_g = {c.g.gid for c in cases if mt[c.cid].result == 'R none'}
        cases = [c for c in cases if c.g.gid not in bad_g]
        ir = run_impl(cases, san=prof.san, per_tu=prof.per_tu, tag=f"{prop}_{prof.name}")
        for ce in ir.compile_errors:
            v.broke(f"harness no longer compiles against /repo ({prof.name}): {ce[:1500]}")
        by_cid = {c.cid: c for c in cases}
        for cid, cr in ir.crashes:
            if cid is not None and cid in by_cid and len(v.violations) < 5:
                c0 = by_cid[cid]
                v.failing_input(case_payload(c0, None, mt.get(cid), {'oracle': 'sanitizer', 'profile': prof.name,
                                                                      'what': "the real parser aborted under AddressSanitizer/UBSan on this input", 'report': cr[:3000]}))
            elif cid is None:
                v.broke(f"harness run aborted ({prof.name}): {cr[:3000]}")
        wft = {k[2:]: v for k, v in sems.items() if k.startswith('W:')}
        pstat = {'grammars': len(groups), 'grammars_meeting_theorem_hypotheses_WFT': sum(1 for g, _, _ in groups if wft.get(g.gid) == '1' and g.gid not in bad_g),
                 'dropped_out_of_fuel': len(bad_g), 'cases': len(cases), 'compile_cpu_s': round(ir.compile_s, 1),
                 'run_s': round(ir.run_s, 1), 'results': {'ok': 0, 'fail': 0, 'exception': 0}, 'kinds': {}}
        for g, roots, meta in groups:
            if g.gid in bad_g:
                continue
            for nd in g.nodes.values():
                pstat['kinds'][nd.kind] = pstat['kinds'].get(nd.kind, 0) + 1
        for c in cases:
            m = mt[c.cid]
            i = ir.traces.get(c.cid)
            if i is None or not i.result:
                continue      # not run, or aborted by a sanitizer (reported above)
            cov['evaluations'] += 1
            pstat['results'][{'1': 'ok', '0': 'fail', '2': 'exception'}.get(i.result.split()[1], 'fail')] += 1
            h = hashlib.sha256(("\n".join(c.g.proto_lines()) + repr(c.cfg) + c.data.hex() + repr(c.init)).encode()).hexdigest()
            if h not in seen:
                seen.add(h)
                if is_nontrivial(i):
                    cov['distinct_nontrivial'] += 1
            # correspondence
            filt = prof.compare_filter
            me = [l for l in m.events if filt(l)] if filt else m.events
            ie = [l for l in i.events if filt(l)] if filt else i.events
            agree = (me == ie and m.result == i.result and m.o == i.o)
            if agree and c.cfg.tree and m.tree != i.tree:
                agree = False
            if c.cfg.tree:
                ls = cov.setdefault('leaf_optimisation_side_condition', {'runs_checked': 0, 'violated': 0,
                                    'meaning': "hypothesis leafOKT of C12_tree evaluated on the model's trace of this run (no selected rule is entered below a rule the model classifies is_leaf)"})
                ls['runs_checked'] += 1
                if m.leaf_sound != '1':
                    ls['violated'] += 1
                    if ls['violated'] == 1:
                        v.broke(f"C12: the side condition of C12_tree (leaf optimisation sound) does not hold on the model trace of case {c.cid}")
            if agree and prof.compare_surv and compute_surv(i.events) != m.surv:
                agree = False
            hits = []
            if i.alerts:
                agree = False
                what = {'covbad': "the counters coverage<>() produced do not satisfy start = success + failure + unwind for every rule and branch",
                        'SHUF-BAD': "a control hook below a state-shuffling adaptor was handed the states in the wrong order",
                        'COPY-BAD': "a state object handed to parse() was copied on the way to a rule, hook or action (states are passed on by reference)"}
                hits.append(('harness-alert', '; '.join(f"{what.get(a.split()[0], 'harness alert')}: '{a}'" for a in i.alerts[:3])))
            for oname, ofn in prof.oracles:
                if oname == 'sem':
                    msg = ofn(c, i, sems.get(c.cid))
                else:
                    msg = ofn(c, i)
                if msg:
                    hits.append((oname, msg))
            for oname, msg in hits:
                kf = prof.known(c, i, oname, msg) if prof.known else None
                if kf:
                    v.known(kf[0], kf[1])
                elif len(v.violations) < 5:
                    v.failing_input(case_payload(c, i, m, {'oracle': oname, 'what': msg, 'profile': prof.name}))
            if not agree:
                mismatches += 1
                if mismatches <= 3 and not hits:
                    fd = next((f"event {k}: model '{a}' / implementation '{b}'" for k, (a, b) in enumerate(zip(me + ['<end>'], ie + ['<end>'])) if a != b), None)
                    if fd is None:
                        fd = (f"result: model '{m.result}' / implementation '{i.result}'" if m.result != i.result else
                              f"O line: model '{m.o}' / implementation '{i.o}'" if m.o != i.o else "tree or surviving actions")
                    v.broke(f"correspondence: model and implementation disagree on case {c.cid} of profile {prof.name} (first difference — {fd}; input {c.data.hex() or '-'}, {c.cfg}): "
                            + json.dumps(case_payload(c, i, m, {}))[:6000])
                elif not hits and mismatches == 4:
                    v.broke("correspondence: further disagreements suppressed")
            if len(cov['samples']) < 4 and is_nontrivial(i) and rng.random() < 0.01:
                cov['samples'].append({'grammar': c.g.proto_lines(), 'root': c.cfg.root, 'config': repr(c.cfg),
                                       'input_hex': c.data.hex(), 'result': i.result, 'events': len(i.events)})
        # fold this chunk's statistics into the profile's
        if pacc is None:
            pacc = pstat
        else:
            for key in ('grammars', 'grammars_meeting_theorem_hypotheses_WFT', 'dropped_out_of_fuel', 'cases'):
                pacc[key] += pstat[key]
            pacc['compile_cpu_s'] = round(pacc['compile_cpu_s'] + pstat['compile_cpu_s'], 1)
            pacc['run_s'] = round(pacc['run_s'] + pstat['run_s'], 1)
            for key, n in pstat['results'].items():
                pacc['results'][key] += n
            for key, n in pstat['kinds'].items():
                pacc['kinds'][key] = pacc['kinds'].get(key, 0) + n
        del cases, mt, sems, ir, by_cid
      pstat = pacc
      pstat['wall_s'] = round(time.time() - t0, 1)
      cov['programs'] += pstat['grammars'] - pstat['dropped_out_of_fuel']
      cov['profiles'][prof.name] = pstat
    cov['model_impl_disagreements'] = mismatches
    if extra is not None:
        extra(v, cov, rng)
    if not cov['samples']:
        cov['samples'].append({'note': 'no non-trivial case sampled'})
    ev = {'level': 'proof', 'coverage': cov,
          'assumptions': ["agreement of model and implementation is established on the generated cases only",
                          "template dispatch, RAII and exception unwinding are modelled by explicit control flow (DESIGN §2.4)"]}
    return v.finish(ev)


def replay(prop: str, path: str, oracles, use_sem: bool = False) -> int:
    """Re-evaluate one replay file against /repo's current headers: regenerate the single-grammar
    harness, run model and implementation, re-apply the oracles."""
    d = json.loads(open(path).read())
    if d.get('kind') == 'no-failing-input-found' or 'grammar_def' not in d:
        print(f"replay {path}: no failing input recorded (broken: {d.get('broken')}); re-run the check itself")
        return 1
    g = grammar_from_json(d['grammar_def'])
    cfg = Config(**d['config'])
    c = Case('replay_0', g, cfg, bytes.fromhex(d['input_hex']), tuple(d.get('init', (0, 1, 1))))
    mt, sems = run_model([c], 400, use_sem)
    ir = run_impl([c], san='asan+ubsan', per_tu=1, tag=f"{prop}_replay")
    if ir.compile_errors or ir.crashes:
        print("\n".join(ir.compile_errors + [m for _, m in ir.crashes])[:4000])
        print(f"VIOLATION property={prop} replay={path}")
        return 1
    i = ir.traces.get(c.cid)
    m = mt.get(c.cid)
    bad = []
    for oname, ofn in oracles:
        msg = ofn(c, i, sems.get(c.cid)) if oname == 'sem' else ofn(c, i)
        if msg:
            bad.append(f"{oname}: {msg}")
    agree = m is not None and i is not None and m.events == i.events and m.result == i.result and m.o == i.o
    print("implementation:", i.result, "| model:", m.result if m else None, "| traces agree:", agree)
    for b in bad:
        print("oracle hit:", b)
    if bad:
        print(f"VIOLATION property={prop} replay={path}")
        return 1
    return 0
