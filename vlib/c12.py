"""C12 — the parse tree is exactly the surviving derivation of the selected rules.
Proof: lean/PegtlVerif/Props/C12.lean (the node builder of parse_tree.hpp, a stack machine over the hook events, computes the
declarative surviving derivation on every trace of the matcher model; tree iff success; transformers as documented).
Tie: the real parse_tree::parse (with the real selector<> machinery, the logging control underneath and one user state that must
reach the actions through rotate_states_right / remove_first_state) against the model: same enter/exit/action trace, same tree.
Oracle (implementation only): the declarative derivation recomputed in Python from the implementation's own enter/exit log,
compared with the tree it returned; tree iff success; every node's span = cursor at enter / at exit."""
from __future__ import annotations
import random
from typing import Dict, List, Optional, Tuple

from . import common, corpus, engine, profiles
from .diffrun import Case, Config, Trace
from .gram import C, Grammar, N, P, Ref

KEEP = ('E', 'X', 'ap', 'a0', 'ra', 'sc', 'ss', 'sd')


def keep_line(l: str) -> bool:
    return l.split(' ', 1)[0] in KEEP


def spec_forest(c: Case, events: List[str]):
    """[(depth, id, begin, end|None)] — the surviving derivation, computed from the enter/exit log alone."""
    sel = c.g.sel
    stack = [[None, None, []]]       # frames: [id, begin, kids]; kids: list of (node tuple, children list)
    for l in events:
        p = l.split()
        if p[0] == 'E':
            stack.append([int(p[1]), tuple(p[4:7]), []])
        elif p[0] == 'X':
            nid, b, kids = stack.pop()
            if int(p[1]) != nid:
                raise ValueError("log not well nested")
            if p[2] != '1':
                continue
            k = sel.get(nid)
            nd = c.g.nodes.get(nid)
            if k is None or nd is None or not nd.ctl:
                stack[-1][2].extend(kids)
                continue
            node = [nid, b, tuple(p[3:6]), kids]
            if k == 'store':
                stack[-1][2].append(node)
            elif k == 'remove':
                node[2] = None
                stack[-1][2].append(node)
            elif k == 'fold':
                if len(kids) == 1:
                    stack[-1][2].append(kids[0])
                else:
                    node[2] = None
                    stack[-1][2].append(node)
            elif k == 'discard':
                if kids:
                    node[2] = None
                    stack[-1][2].append(node)
    out = []

    def walk(nodes, d):
        for nid, b, e, kids in nodes:
            out.append(f"T {d} {nid} {' '.join(b)} {' '.join(e) if e is not None else '-'}")
            walk(kids, d + 1)
    walk(stack[0][2], 0)
    return out


def oracle_tree(c: Case, tr: Trace) -> Optional[str]:
    if not c.cfg.tree:
        return None          # the plain-parse twin of the case (see oracle_plain_factory)
    ok = tr.result.startswith('R 1')
    if not tr.tree:
        return "no tree report"
    head = tr.tree[0]
    if any(t == 'TREE bad-root' for t in tr.tree):
        return "the returned root node has a type or content"
    if ok != (head != 'TREE none'):
        return f"parse result is '{tr.result}' but the tree report is '{head}' (a tree must be returned iff the parse succeeds)"
    if not ok:
        return None
    try:
        want = spec_forest(c, tr.events)
    except (ValueError, IndexError) as e:
        return f"enter/exit log not well nested: {e}"
    got = [t for t in tr.tree[1:]]
    if got != want:
        k = next((j for j in range(min(len(got), len(want))) if got[j] != want[j]), min(len(got), len(want)))
        return (f"returned tree differs from the surviving derivation at node #{k}: tree has '{got[k] if k < len(got) else None}', "
                f"derivation has '{want[k] if k < len(want) else None}' ({len(got)} vs {len(want)} nodes)")
    return None


def oracle_user_state(c: Case, tr: Trace) -> Optional[str]:
    for l in tr.events:
        p = l.split()
        if p[0] in ('ap', 'a0') and p[-1] == '-1':
            return f"an action received the tree-building state instead of the user state: '{l}'"
    return None


def oracle_containment(c: Case, tr: Trace) -> Optional[str]:
    """'children contained in and ordered within their parent', judged on the returned tree alone: below every node the
    children's spans are ordered (each begins at or after the end of the previous one, as far as that end is known) and lie
    within the node's span.  A node whose content was removed has no end: its children are only checked against its begin."""
    if not c.cfg.tree or not tr.tree or not tr.result.startswith('R 1'):
        return None
    nodes = []
    for t in tr.tree[1:]:
        p = t.split()
        if p[0] != 'T':
            continue
        d, nid, b = int(p[1]), int(p[2]), int(p[3])
        e = None if p[6] == '-' else int(p[6])
        nodes.append((d, nid, b, e))
    stack = []          # [depth, id, begin, end, running lower bound for the next child]
    for d, nid, b, e in nodes:
        while stack and stack[-1][0] >= d:
            stack.pop()
        if e is not None and e < b:
            return f"node of rule {nid} ends at byte {e} before it begins at byte {b}"
        if stack:
            pd, pid, pb, pe, lo = stack[-1]
            if b < lo:
                return (f"child of rule {nid} [{b},{e if e is not None else '?'}) begins before byte {lo} "
                        f"(the begin of its parent, rule {pid} [{pb},{pe if pe is not None else '?'}), or the end of its previous sibling)")
            if pe is not None and (e if e is not None else b) > pe:
                return f"child of rule {nid} [{b},{e if e is not None else '?'}) reaches beyond its parent, rule {pid} [{pb},{pe})"
            stack[-1][4] = e if e is not None else b
        stack.append([d, nid, b, e, b])
    return None


REREAD_KINDS = ('atR', 'notAt', 'rematch')


def known_c12(c: Case, tr: Trace, oname: str, msg: str):
    """F20: containment cannot hold below a rule that re-reads input (at / not_at / rematch): the property itself counts matches
    inside a succeeding and-predicate as part of the tree, and they lie beyond what the predicate — and its ancestors — consumed.
    Lean: C12_containment_fails_below_lookahead; C12_children_contained proves containment for every grammar without such rules,
    so a containment failure on a grammar without them is never tolerated."""
    if oname != 'containment':
        return None
    if not any(f.get('id') == 'F20' and f.get('status') == 'known' for f in common.load_known()):
        return None
    if any(nd.kind in REREAD_KINDS for nd in c.g.nodes.values()):
        return ('F20', "F20 parse tree: a node matched inside a succeeding at<> / not_at<> / rematch<> is not contained in its parent's span "
                       f"(e.g. grammar {c.g.gid}, input {c.data.hex() or '-'}: {msg})")
    return None


def oracle_plain_factory():
    """'a tree iff the plain parse succeeds', against the plain parse itself: every case is also run through tao::pegtl::parse with
    the same actions and control (Config.tree = 0, first); the run through parse_tree::parse must end the same way — result, consumed
    bytes, blamed rule — and make the same rule invocations and action calls."""
    plain = {}
    cur = [None]

    def oracle(c: Case, tr: Trace) -> Optional[str]:
        if cur[0] != c.g.gid:       # cases arrive grammar by grammar: nothing of an earlier grammar is needed again
            plain.clear()
            cur[0] = c.g.gid
        key = (c.g.gid, c.cfg.root, c.data, c.cfg.a, c.cfg.m, c.cfg.unwind)
        obs = (tr.result, [l for l in tr.events if l.split(' ', 1)[0] in ('E', 'X', 'ap', 'a0')])
        if not c.cfg.tree:
            plain[key] = obs
            return None
        ref = plain.get(key)
        if ref is None:
            return None
        if ref[0] != obs[0]:
            return f"plain parse ends with '{ref[0]}', parse_tree::parse with '{obs[0]}'"
        if ref[1] != obs[1]:
            k = next((j for j in range(min(len(ref[1]), len(obs[1]))) if ref[1][j] != obs[1][j]), min(len(ref[1]), len(obs[1])))
            return (f"rule invocations / action calls differ between the plain parse and parse_tree::parse at event {k}: "
                    f"'{ref[1][k] if k < len(ref[1]) else None}' vs '{obs[1][k] if k < len(obs[1]) else None}'")
        return None
    return oracle


ORACLES = [('tree', oracle_tree), ('user-state', oracle_user_state), ('containment', oracle_containment)]


def choose_sel(rng: random.Random, g: Grammar, mode: str):
    ctl = [nid for nid, nd in g.nodes.items() if nd.ctl]
    sel: Dict[int, str] = {}
    if mode == 'all':
        for nid in ctl:
            sel[nid] = 'store'
    elif mode == 'none':
        pass
    else:
        dens = rng.choice([0.25, 0.5, 0.8])
        for nid in ctl:
            if rng.random() < dens:
                sel[nid] = rng.choice(['store', 'store', 'store', 'remove', 'fold', 'discard'] if mode == 'mixed' else ['store'])
    g.sel = sel


def with_sel(gen, modes):
    def f(rng, tier):
        out = gen(rng, tier)
        for k, (g, roots, meta) in enumerate(out):
            m = modes[k % len(modes)]
            choose_sel(rng, g, m)
            meta['selector'] = m
        return out
    return f


def deep_grammars(rng: random.Random, tier: str):
    """Chains of unselected rules deeper than the leaf-optimisation level (8) with a selected rule at the bottom, inside
    alternatives that fail after the selected rule matched, inside look-ahead, and recursive rules."""
    out = []
    n = 10 if tier == 'quick' else 40
    for gi in range(n):
        g = Grammar(f"deep{gi}")
        depth = rng.choice([6, 7, 8, 9, 10, 12])
        bottom = g.rule(P('one', C(97)))
        cur = bottom
        wraps = ['seq', 'opt', 'star', 'plus', 'at', 'sor', 'rep', 'disable', 'must']
        for d in range(depth):
            w = rng.choice(wraps)
            if w == 'seq':
                e = P('seq', cur, P('opt', P('one', C(99))))
            elif w == 'opt':
                e = P('opt', cur)
            elif w == 'star':
                e = P('star', cur)
            elif w == 'plus':
                e = P('plus', cur)
            elif w == 'at':
                e = P('seq', P('at', cur), cur)
            elif w == 'sor':
                e = P('sor', P('seq', cur, P('one', C(120))), cur)
            elif w == 'rep':
                e = P('rep', N(1), cur)
            elif w == 'disable':
                e = P('disable', cur)
            else:
                e = P('sor', cur, P('success'))
            # half of the levels are hidden (anonymous), half are named rules
            cur = g.rule(e) if rng.random() < 0.5 else e
            if not isinstance(cur, Ref):
                cur = cur
        top_ok = g.rule(P('seq', cur, P('eof')) if not isinstance(cur, Ref) else P('seq', cur, P('eof')))
        # the chain matches and then the enclosing alternative fails: the selected bottom node must not survive
        top_bt = g.rule(P('sor', P('seq', cur, P('one', C(98))), P('seq', P('star', P('one', C(97))), P('opt', P('one', C(98))), P('eof'))))
        # recursive rule: depth of the static rule graph is unbounded
        recd = g.declare()
        g.define(recd, P('sor', P('seq', P('one', C(40)), recd, P('one', C(41))), bottom))
        top_rec = g.rule(P('seq', recd, P('eof')))
        g.resolve()
        # only the bottom rule (and sometimes the tops) are selected: everything between is unselected
        g.sel = {bottom.id: 'store'}
        if rng.random() < 0.5:
            g.sel[top_bt.id] = rng.choice(['store', 'fold', 'discard'])
        if rng.random() < 0.5:
            g.sel[recd.id] = rng.choice(['store', 'fold', 'remove'])
        out.append((g, [top_ok.id, top_bt.id, top_rec.id], {'kind': 'deep-chain', 'depth': depth}))
    return out


def transformer_chains(rng: random.Random, tier: str):
    """Every combination of selector kinds along a chain of single-child rules: `L0 = seq< L1, opt< 'b' > >`, `L1 = seq< L2 >`,
    `L2 = seq< L3, opt< 'c' > >`, `L3 = one< 'a' >`, the kinds of L0..L2 ranging over store / remove / fold / discard / unselected
    (L3 stored or unselected): what a transformer does to a node whose only child is itself a selected node with one child, with two
    children, or with none."""
    kinds = ['store', 'remove', 'fold', 'discard', None]
    combos = [(a, b, c, d) for a in kinds for b in kinds for c in kinds for d in ('store', None)]
    rng.shuffle(combos)
    per = 25
    out = []
    for gi in range(0, len(combos), per):
        g = Grammar(f"chain{gi // per}")
        roots, sel = [], {}
        for (k0, k1, k2, k3) in combos[gi:gi + per]:
            l3 = g.rule(P('one', C(97)))
            l2 = g.rule(P('seq', l3, P('opt', P('one', C(99)))))
            l1 = g.rule(P('seq', l2))
            l0 = g.rule(P('seq', l1, P('opt', P('one', C(98)))))
            top = g.rule(P('seq', l0, P('eof')))
            roots.append(top.id)
            for r, k in ((l0, k0), (l1, k1), (l2, k2), (l3, k3)):
                if k is not None:
                    sel[r.id] = k
        g.resolve()
        g.sel = sel
        out.append((g, roots, {'kind': 'transformer-chain'}))
    return out


def chain_inputs(rng: random.Random, g: Grammar, tier: str):
    return [b'', b'a', b'ab', b'ac', b'acb', b'abc', b'b', b'aa', b'acbx']


def deep_inputs(rng: random.Random, g: Grammar, tier: str):
    base = [b'', b'a', b'aa', b'ab', b'aab', b'aaa', b'ac', b'ax', b'axb', b'acb', b'b', b'(a)', b'((a))', b'((a)', b'(a))', b'(((a)))', b'()']
    extra = corpus.sample_inputs(rng, [97, 98, 99, 120], 3, 60, 2)
    return base + extra


def run(tier: str) -> int:
    cfg = lambda g, root, tier: [Config(root, 1, 'o', 'lf_crlf', 0, 1, 0, 0), Config(root, 1, 'o', 'lf_crlf', 0, 1, 0, 1), Config(root, 1, 'o', 'lf_crlf', 0, 0, 0, 1)]
    oracles = ORACLES + [('plain', oracle_plain_factory())]
    mk = lambda name, gen, inputs, **kw: engine.Profile(name, gen, cfg, inputs, oracles, compare_filter=keep_line, known=known_c12, **kw)

    def sysgen(rng, tier):
        return corpus.systematic(rng, 'ts', lambda k, f: f != 'state', True, max_grammars=(22 if tier == 'quick' else 140),
                                 ctx_names=['top', 'sor-first', 'seq-tail', 'in-at', 'in-not_at', 'in-tcrf', 'in-opt'],
                                 actions=lambda r, g, roots: corpus.attach_actions(r, g, r.choice(['none', 'bool', 'throw'])))

    def rndgen(rng, tier):
        out = []
        for i in range(20 if tier == 'quick' else 120):
            rg = corpus.RandGen(rng, False, True, rng.randint(4, 7), switches=False)
            g, roots = rg.grammar(f"tr{i}")
            corpus.attach_actions(rng, g, rng.choice(['none', 'none', 'bool', 'throw']))
            out.append((g, roots, {'kind': 'random'}))
        return out

    ps = [
        mk('sys', with_sel(sysgen, ['all', 'some', 'mixed']), profiles.inputs_exhaustive(3, 5, cap_q=80, cap_t=500), per_tu=2),
        mk('rnd', with_sel(rndgen, ['mixed', 'some', 'all', 'mixed', 'none']), profiles.inputs_exhaustive(4, 6, cap_q=150, cap_t=900), per_tu=2),
        mk('deep', deep_grammars, deep_inputs, per_tu=2),
        mk('chain', transformer_chains, chain_inputs, per_tu=2),
    ]
    return engine.run_engine('C12', tier, ['PegtlVerif.Props.C12'], ps)


def replay(path: str) -> int:
    return engine.replay('C12', path, ORACLES)
