#!/usr/bin/env python3
"""Regenerates MANIFEST.json from the table below (kept as code so that it stays valid)."""
import json, sys
sys.path.insert(0, '/verif')

GENERAL_NOTE = ("Trusted base: Lean 4.33 kernel; axioms limited to propext / Classical.choice / Quot.sound (audited by #print axioms on every run, "
                "no native_decide, bv_decide, sorry or own axioms: source scan on every run); the Spec/ files; the hand-written model, whose agreement with "
                "/repo's current headers is re-established on every run by the differential correspondence check on generated cases (sampled, not proved); "
                "the grammar resolver vlib/gram.py, harness/vharness.hpp, g++ 12 / libstdc++.")

CHECKS = {
 'C02': dict(engine='matcher-model', design_ref='DESIGN.md §6 C02',
   text=("Proof (Lean 4): for every grammar table over the modelled rule kinds, every action attachment, input, apply mode and fuel, an invocation that fails under "
         "rewind_mode::required returns with byte, line and column restored; at/not_at never move the cursor in any outcome; no invocation ever leaves the cursor "
         "before its start; a vetoing bool action restores for every requested mode; every atom peeks before it bumps. Proved by closure of one invariant under "
         "all 25 match() bodies and the match.hpp protocol, then induction on fuel. The model is tied to /repo by a full-trace differential run (every "
         "Control<Rule>::match invocation, hidden internal rules included) and the property is also evaluated directly on the implementation's own trace; "
         "in addition every shipped grammar (json, uri, iri, http with its hand-written chunk rules, abnf, integer, raw_string, utf8/16/32, uintN, json_pointer, lua53, proto3) is parsed under a monitor control that "
         "checks the property at every invocation of every rule (local failure under rewind_mode::required: cursor unmoved; success: never backwards); the systematic family is also run over a buffer_input fed byte by byte (its own rewind marks)."),
   note=GENERAL_NOTE + " Modelled: core, convenience, state and try_catch/must rules, all one-argument ascii atoms, utf8 ranges, maximum_rule, contrib rep_one_min_max, contrib predicates (resolved to their byte sets); integer and raw_string rules are covered by their own leaf models (C15, C16); the http chunk rules only by C03's shipped-grammar run.",
   technique="Lean 4 proof by invariant closure + induction on fuel over an executable model; differential correspondence on generated C++ grammars; trace oracle"),
 'C01': dict(engine='matcher-model', design_ref='DESIGN.md §6 C01',
   text=("Proof (Lean 4): `run` (the model of Control<Rule>::match / match.hpp / every internal match() body) refines the big-step PEG formalism Sem (ordered choice, greedy "
         "repetition, predicates consume nothing): for every table meeting the stated conditions (atoms whose meaning depends on the byte offset only, void actions), every input, "
         "apply mode, rewind mode and fuel, the result and the consumed prefix are the ones Sem derives (C01_sound, by induction on fuel over closure lemmas for all rule kinds); Sem is "
         "deterministic (so 'exactly'); consequently the outcome is independent of apply mode, requested rewind mode, attached void actions, control visibility and fuel (C01_independent). "
         "Completeness: whenever Sem derives an outcome for a rule at an offset, the run from there returns for every sufficiently large fuel, in every mode, with that outcome (C01_complete, by induction on the fuel of the terminating evaluation that semEvalE_complete extracts from the derivation; no termination certificate assumed), so returning runs and derivations coincide (C01_iff) and the evaluator decides the relation (C01_evaluator_decides). Totality: for tables certified by the analysis model (problems = 0, C11) Sem derives an outcome for every rule from every state, some fuel suffices, and every returning run returns exactly that outcome (C01_total). The model is tied to /repo by the full-trace differential run; the "
         "independent oracle is the spec evaluator semEval (proved sound for Sem) against the real result."),
   note=GENERAL_NOTE + " Both directions are proved (soundness C01_sound, completeness C01_complete); what the formalism leaves open — a grammar/input without any derivation, i.e. a matcher that does not terminate — is C11's subject.",
   technique="Lean 4 refinement proof (model => PEG big-step semantics) + determinism; differential correspondence; spec-evaluator oracle"),
 'C03': dict(engine='matcher-model', design_ref='DESIGN.md §6 C03',
   text=("Proof (Lean 4), partial by nature of the property: in the model every read goes through peek_char(off) and every advance through bump*, both flagging any access outside the current window "
         "[cur, endp) (end of data, end of a rematch sub-input, or the end lowered by limit_bytes); no invocation ever sets the flag or moves the cursor past endp — for every grammar table, input, action "
         "attachment and mode (C03_no_oob, C03_in_bounds, C03_parse), per atom from its real size guard (C03_atoms). Runtime memory safety of the compiled binary cannot be proved from a model: it is "
         "observed on every run — the engine corpus and every shipped grammar (json, uri, iri, http, abnf, integer, raw_string, utf8/16/32, uintN, json_pointer, lua53, proto3) on all truncations and seeded "
         "mutations of valid documents, in exact-size heap buffers without terminator under ASan+UBSan, with a guarded hook in memory_input that also sees logical ends inside a larger buffer."),
   note=GENERAL_NOTE + " Partial: the theorem is about the model's window discipline; the binary's memory safety is exploration (ASan/UBSan/hook). memcmp-style reads (string, istring, read_uint) are modelled as guarded by their size check and are visible to ASan only at the true end of the allocation. buffer_input is covered by C07.",
   technique="Lean 4 invariant proof (window discipline of the model) + ASan/UBSan/hook exploration of the real parser on the corpus and on shipped grammars"),
 'C05': dict(engine='matcher-model', design_ref='DESIGN.md §6 C05',
   text=("Proof (Lean 4): a parse_error leaving a run blames exactly the rule the (deterministic, left-to-right) PEG formalism with labelled failures blames (C05_blame); every exception leaving any invocation was created "
         "inside it — a parse_error at a raise hook for the same rule with the same position, a foreign exception by an action call of that rule — i.e. it passed every combinator in between unchanged (C05_origin, by a "
         "trace invariant closed over all rule bodies and the match.hpp protocol); must<R> raises where R's attempt ended, not before where it began (C05_must_position); error positions are scan positions of a consumed prefix, "
         "so byte/line/column are mutually consistent (C05_position_consistent); try_catch_*_return_false / _raise_nested convert exactly the exception classes they name and restore the cursor when required (C05_catch_*). "
         "The must_if< Errors > control is modelled (the failure hook of a rule that has a message raises): such a rule never fails locally, and when its body fails or its bool action vetoes the run ends in the parse_error blaming that rule at the "
         "position where the attempt stopped, raised inside its own invocation (C05_must_if; C05_origin and C05_position_consistent apply to it)."),
   note=GENERAL_NOTE + " The what() string 'source:line:column: message' is produced by unmodelled C++ string code; the harness compares it on every observed parse_error. C05_blame (refinement to the formalism) assumes the run's control is not a must_if control (WFT.nomsgs); under must_if the blame is given by C05_must_if + C05_origin. Custom message texts are compared in the harness, not modelled.",
   technique="Lean 4 refinement (blame) + trace-invariant proof (origin, positions) + local characterisation of must/try_catch bodies; differential correspondence; trace oracles for identity, interval, conversion"),
 'C06': dict(engine='matcher-model', design_ref='DESIGN.md §6 C06',
   text=("Proof (Lean 4): a scan of the consumed prefix (what lazy inputs do) computes exactly the documented position (C06_scan_spec); from a tracked cursor, after any invocation — whatever consumed the prefix and however "
         "often the parser backtracked — the eagerly tracked cursor is again that of a scan, and every position in every event (hooks, action inputs, enter/exit, raise) is the scan position of a consumed prefix, hence identical for "
         "eager and lazy inputs (C06_tracked, C06_reported, C06_lazy_eq_eager, C06_parse): each atom's bump_in_this_line / bump_to_next_line shortcut is justified from its test_any. Scope: every eol policy except cr_crlf, "
         "for which the property is false (C06_cr_crlf_witness, known finding F11); every atom is covered (C06_scope), the UTF-8 range atom, maximum_rule's digit run and rep_one_min_max included."),
   note=GENERAL_NOTE + " Partial: eol::cr_crlf excluded (KNOWN-FINDING F11). Parse-tree node positions are the enter/exit cursors of C12's theorem.",
   technique="Lean 4 invariant proof (eager tracking = scan) over atoms and all rule bodies; differential correspondence under 5 eol policies x eager/lazy; independent Python recomputation of positions; eager/lazy pairing oracle"),
 'C08': dict(engine='matcher-model', design_ref='DESIGN.md §6 C08',
   text=("Proof (Lean 4): the trace of every invocation of the model — any grammar table, input, mode, void / vetoing / throwing / match()-wrapping actions, controls with and without unwind(), also mixed in one run through change_control / control<> (each invocation is judged with the unwind() availability of the control family that ran its start) — is accepted by the "
         "hook automaton: start is the first hook of the innermost open invocation of that rule, apply/apply0 come at most once after start and before the closing hook, there is exactly one closing hook, and it agrees "
         "with what the invocation returned (success <=> true, failure <=> false, unwind <=> exception; without unwind() the attempt ends open with the invocation) (C08_balanced, C08_parse); the exact events match() adds "
         "around the body (C08_protocol); per rule #start = #success + #failure + #unwind (C08_coverage). Proved once through a generic induction principle for trace predicates closed under concatenation."),
   note=GENERAL_NOTE + " 'raise only from a must-context or raise rule' is the theorem C08_raise_source (second trace automaton). The facilities built on the hooks are not modelled but run around the logging control, whose log must equal the model's trace of a plain parse: coverage<>() (counters must balance), a tracer hiding internal rules and one showing them with source lines (state_control<>, rotate_states_right). contrib/control_action.hpp is covered by an oracle on the implementation's log (start / success / failure / unwind of action classes on a third of the rules).",
   technique="Lean 4 proof that every model trace is accepted by a hook-protocol stack automaton (+ counting corollary); differential correspondence, also through coverage<>() and tracer<>; same automaton as independent Python oracle; control_action oracle"),
 'C09': dict(engine='matcher-model', design_ref='DESIGN.md §6 C09',
   text=("Proof (Lean 4): every hand-optimised match() body (until, rep, rep_min_max, rep_opt, if_then_else, strict, star_strict, plus, partial, star_partial, rematch, must, if_must/opt_must, "
         "try_catch_*, enable/disable) refines, in the PEG formalism with labelled failures, the documented expansion of its rule (Spec.expandKind): same accepted inputs, same consumed prefix, "
         "same blamed rule (C09_refines, C09_exact), and conversely accepts everything its expansion accepts: whenever the formalism derives an outcome for the expansion the hand-optimised body returns it (C09_complete); where the reference gives two expansions they are proved equivalent (C09_two_forms_*). Alias rules (list*, pad*, minus, rep_min, rep_max, "
         "star_must, if_must_else, keyword, identifier, shebang, ...) are the same C++ type as their expansion; the resolver expands them like the using-declarations and the differential run checks it."),
   note=GENERAL_NOTE + " expandKind is transcribed by hand from doc/Rule-Reference.md; a mismatch with the code shows up in the semEval oracle, a mismatch with the reference in the documentation tie: every '[Equivalent] to' line of the reference whose rules the resolver knows (55 of 144 entries; the rest are ICU rules, non-rule template arguments or 'equivalent, but' remarks) is instantiated with concrete rules and both sides are evaluated by the formal evaluator on every short input. string / istring / bytes / contrib rep_one_min_max equal their documented sequences (C09_string_expansion, C09_istring_expansion, C09_bytes_expansion, C09_rep_one_min_max); ranges, rep_string, separated_seq and if_then are resolved to one / string / seq / if_then_else nodes by the generator (differential run) and are not covered by a theorem of their own.",
   technique="Lean 4 refinement proof of each optimised rule body into the PEG semantics of its documented expansion; differential correspondence; spec-evaluator oracle; documentation tie (the reference's equivalences evaluated in the formal semantics)"),
 'C10': dict(engine='leaf-encodings', design_ref='DESIGN.md §6 C10',
   text=("Proof (Lean 4): peekUtf8 accepts exactly the well-formed encodings of scalar values (= Unicode Table 3-7; no overlong forms, surrogates, > U+10FFFF, truncations) with N = encoding length; "
         "the same for UTF-16 (both byte orders) and UTF-32; peekUint = endian-adjusted, masked value with N = width; one/not_one/range/not_range/ranges/any accept exactly their sets for every Peek; "
         "every ASCII/ABNF class of the table translated from ascii.hpp/abnf.hpp on every run (Gen = Expected obligation) accepts exactly its documented 256-entry set; ichar_equal folds exactly the ASCII letters; "
         "success consumes exactly the unit length, failure consumes nothing."),
   note=GENERAL_NOTE + " Tie: exhaustive over every byte per class, all 1-2 byte and (quick: lead E0..EF / thorough: all) 3-byte UTF-8 inputs, boundary 4-byte inputs, all truncations, every 16-bit unit, all uint16 values; UTF-32/uint32/uint64 boundary-structured. Only the little-endian-host branch of endian_gcc.hpp and signed char are modelled (static asserts in the harness).",
   technique="Lean 4 proof about executable models of the peek/test functions and a translated class table; exhaustive differential correspondence; Python codec oracle"),
 'C11': dict(engine='leaf-analyze', design_ref='DESIGN.md §6 C11',
   text=("Proof (Lean 4): for every well-formed node table, if the model of analyze_cycles_impl::problems() over the analyze_traits table returns 0 then every invocation of every rule terminates on every input "
         "(C11_terminates, all 23 kinds with traits; strict/star_strict have none and are reported) — the statement PEGTL's documentation calls 'conjectured, but not proven' — the 'consumes' flags are sound, and the analysis "
         "itself terminates. Tie: the real m_entries table is dumped and compared structurally with the model table and the model's work() is evaluated on the real table, on every run. Oracle: step- and depth-budgeted real "
         "parser on all inputs up to L for every certified grammar."),
   note=GENERAL_NOTE + " Loop witnesses are bounded to inputs <= 3 (quick) / 4 (thorough) while the proof covers all inputs; change_action well-foundedness is assumed (ActionsWF); raw_string is oracle-only; the integer / ICU traits are not exercised.",
   technique="Lean 4 termination proof by double induction (bytes left x DFS fuel); differential entry-table comparison; step- and depth-budgeted witness search"),
 'C15': dict(engine='leaf-integer', design_ref='DESIGN.md §6 C15',
   text=("Proof (Lean 4): for every width w >= 1, every Maximum <= 2^w-1 and every input window, the model's integer rules accept exactly [-+]?(0|[1-9][0-9]*) with maximal munch (equal to the PEG meaning of "
         "unsigned_rule_new / signed_rule_new), store exactly the mathematical value or report overflow, never compute outside the type, never read outside the window, and consume nothing on local failure."),
   note=GENERAL_NOTE + " Tie: exhaustive for 8-bit targets (<= 4 digits x tails x signs x 21 maxima) and 16-bit (<= 6 digits, default maximum), boundary neighbourhoods for 32/64-bit; relies on g++'s modular conversion to signed types. The value left in the state after a thrown overflow is unspecified and not compared.",
   technique="Lean 4 proof about an executable model of contrib/integer.hpp + differential correspondence under ASan/UBSan + Python big-integer oracle"),
 'C16': dict(engine='leaf-rawstring', design_ref='DESIGN.md §6 C16',
   text=("Proof (Lean 4): for the model of contrib/raw_string.hpp, raw_string matches iff a Lua long literal of some level starts at the cursor; it consumes through the first same-level closer; "
         "the content action gets the text between the brackets minus one leading eol; other-level brackets are ignored; a failure under required restores the cursor — for all inputs, offsets, "
         "the 5 eol policies, all Open != Marker and any Close, and for arbitrary content rules satisfying RuleOK."),
   note=GENERAL_NOTE + " Tie: exhaustive up to length 7 (quick) / 8 (thorough) over a 6-symbol alphabet for 4 bracket triples x 4 content variants x 5 eol policies, plus random. Exceptions thrown by Contents and content rules that succeed without consuming are not modelled.",
   technique="Lean 4 proof about a hand-written executable model + differential correspondence under ASan/UBSan + independent Python long-bracket scanner"),
 'C17': dict(engine='leaf-unescape', design_ref='DESIGN.md §6 C17',
   text=("Proof (Lean 4): for every natural cp, scalar => exactly the Table 3-6 UTF-8 encoding is appended, non-scalar => refused and nothing appended; the output is the unique "
         "Table 3-7 well-formed sequence; unescape_j = UTF-16 decoding (pairs combined, lone surrogates rejected) for any non-empty sequence of 4-hex-digit escapes; "
         "unhex_char/unhex_string/unescape_c/u/x exact. Correspondence exhaustive for utf8_append_utf32 on 0..0x110000, all 1-3 escape sequences over 20 boundary units, the 256-byte tables."),
   note=GENERAL_NOTE + " Theorems are about Model/Unescape.lean; the grammar matching that establishes the actions' preconditions is not modelled here. A VERIF_REPO scratch tree needs src/example/pegtl as well as include/.",
   technique="Lean 4 proof about a hand-written executable model + exhaustive differential correspondence + Python-codec oracle"),
 'C18': dict(engine='matcher-model', design_ref='DESIGN.md §6 C18',
   text=("Proof (Lean 4): after any invocation — success, local failure, exception — the depth counter and the end of the input are what they were (C18_frame, C18_parse_frame, from the invariant closed "
         "over all rule bodies and the limit wrappers); limit_depth<N> admits the rule's match() exactly when the new depth is <= N and otherwise raises blaming limit_depth (C18_depth_exact/bound); "
         "limit_bytes<N> runs the rule in the window [cur, cur+min(avail,N)) wherever cur is, so it neither consumes nor inspects beyond (C18_bytes_bound with C03), and raises exactly when the rule "
         "matched, stopped at the lowered end and the real input continues (C18_bytes_raise). "
         "Within the limit the guard is invisible (C18_twin): read limit_depth in three ways that differ only when the new depth would exceed N — raise (the model), stuck (no continuation), off (check removed); whenever the stuck run returns — i.e. no "
         "limit was reached anywhere in the run, at any nesting — the guarded and the unguarded run return that very result (outcome, cursor, full trace, surviving actions), for every grammar, action attachment, input and mode; the stuck reading stops exactly where the guard fires (C18_stuck_exact). Conversely, 'within the limit' can be read off the trace: a guarded run in whose trace no raise of a limit_depth "
         "pseudo-rule occurs — at any nesting, also one swallowed by try_catch — is the stuck run and hence the unguarded run (C18_twin_trace); an input parses differently with and without the guard only if the guard visibly fired (C18_guard_visible)."),
   note=GENERAL_NOTE + " 'Without the guard' is the off reading of limit_depth (check removed, depth still counted — nothing else reads the counter); the twin-run oracle compares with the same grammar whose guard is removed via a second action family. Depth counts attempts (a rule attempted at depth N+1 raises even if it would fail). contrib/check_bytes.hpp (which checks consumption after the fact and throws without a raise hook) is not in the model: an oracle on the implementation's trace compares the bytes between the start of the guarded rule and its success hook with the limit.",
   technique="Lean 4 invariant proof + exact characterisation of the two guards + twin-run theorems (guarded = unguarded whenever no limit is reached, and that is exactly when no limit_depth raise occurs in the trace); differential correspondence; trace oracles incl. twin run"),
 'C19': dict(engine='leaf-lines', design_ref='DESIGN.md §6 C19',
   text=("Proof (Lean 4): for all inputs, every offset k <= size, the five eol policies, eager and lazy tracking and any initial byte and line counter (as repaired by fix F19 of at()): at() = k; "
         "begin_of_line/end_of_line/line_at delimit exactly the specified line with 0 <= bol <= at <= eol <= size and no read outside the data, given "
         "initial column 1 or a position not on the first line. The property is false on the first line of an input constructed with initial column != 1 (known finding F10, witness theorem) and for eager "
         "cr_crlf positions after eol consumed CRLF (known finding F11)."),
   note=GENERAL_NOTE + " Partial with respect to the statement's 'non-default initial counters' clause: for the initial column it is refuted by F10 (KNOWN-FINDING); for the initial byte counter it held only after fix F19 and is proved for the repaired code. size_t wrap-around is not modelled.",
   technique="Lean 4 proof with Int offsets about an executable model of at/begin_of_line/end_of_line/line_at; exhaustive differential run under ASan/UBSan; Python line-splitter oracle"),
 'C04': dict(engine='matcher-model', design_ref='DESIGN.md §6 C04',
   text=("Proof (Lean 4): for every grammar table, action attachment (void / vetoing / throwing apply and apply0, disable_action / enable_action / change_action / limit bases), input, mode and fuel: "
         "the actions that take effect are exactly the transactional reading of the trace — an invocation that fails or is left by an exception contributes nothing, whatever ran inside (C04_surviving, C04_fail_drops); "
         "an invocation of a rule with an enabled action whose body matched calls it exactly once, after every inner event, with begin = cursor at entry and end = cursor after the body (C04_once_with_span); with "
         "actions disabled (at, not_at, disable, apply_mode::nothing, no enable inside) no action event occurs at all (C04_disabled); a bool action returning false makes the invocation a local failure with the cursor restored (C04_veto). "
         "The rule-level attachment is modelled too: if_apply< R, A... > calls A1..An in order after all of R's events with R's span, only when R matched with actions enabled; the first false fails the rule, and the cursor is restored whenever the result is not success (C04_if_apply, C04_runActs_shape); "
         "apply< A... > calls them with the empty span at the cursor; both are covered by the survivor, disabled-section and origin theorems."),
   note=GENERAL_NOTE + " 'Transactional' is a statement about which action calls belong to successful ancestors; PEGTL does not undo side effects of actions that ran inside a rule that later fails, and the property does not ask for it. The apply0< A... > rule (internal/apply0.hpp) is not modelled (its calls carry no position to tie to).",
   technique="Lean 4 proof by trace-predicate closure over all rule bodies (survivors = fold of the trace; once-with-span from the match.hpp protocol); differential correspondence incl. action-family and apply-mode switching; trace oracle that recomputes family/mode per invocation"),
 'C07': dict(engine='leaf-buffer', design_ref='DESIGN.md §6 C07',
   text=("Proof (Lean 4): for the model of buffer_input (allocation of maximum + Chunk bytes, reader with arbitrary short-read schedule, require loop, discard memmove, iterator save/restore): the invariant "
         "(cur <= end <= capacity, buffer bytes = stream bytes at the logical offset, nothing touched outside the allocation) holds initially and is kept by every operation used within its contract and by any legal sequence "
         "(C07_inv_init, C07_inv, C07_inv_reach); require either reports overflow exactly when cur + amount exceeds the capacity or leaves min(amount, remaining) bytes available with cursor, position and old bytes unchanged, for every schedule "
         "(C07_require); size/empty/peek/bump agree with the memory-input model at the same logical position (C07_window_eq, C07_bump_eq); discard keeps view and position and moves data exactly when cur > Chunk (C07_discard); saved iterators stay valid "
         "across require and are invalidated by a moving discard (C07_rewind, C07_discard_invalidates); every atom over the buffer (contrib rep_one_min_max and utf8::range / not_range through peek_utf8 included; maximum_rule excluded) either overflows or behaves as on memory (C07_run_sim_partial)."),
   note=GENERAL_NOTE + " Partial: the lift of the simulation through the combinator bodies is explored by the whole-run differential (memory_input vs buffer_input with ~7 capacity/Chunk/schedule triples per case, plus file/mmap/stream/argv inputs), not proved; fread/mmap/ifstream are not modelled; maximum_rule is not transcribed over the buffer; pointer sums are in Nat (no wrap-around).",
   technique="Lean 4 invariant + refinement proof about an executable model of buffer_input; exhaustive short-read-schedule differential against the real class under ASan; whole-run differential across all input classes; independent Python oracle"),
 'C14': dict(engine='translators', design_ref='DESIGN.md §6 C14',
   text=("Proof (Lean 4): for the node table translated from contrib/json.hpp on every run (Gen = Expected obligation), seq< json::text, eof > succeeds in the PEG formalism iff the input is a JSON text of RFC 8259 "
         "(C14_sound and C14_complete, both for all inputs), it can never raise (C14_no_throw), and every terminating run of the matcher model agrees (C14_run via C01)."),
   note=GENERAL_NOTE + " Also trusted: the translator vlib/translate_grammar.py (guarded by the sync obligation and the differential run), Spec/Rfc8259.lean as transcription of the RFC (cross-checked against spec/rfc8259.abnf by an ABNF interpreter and against json.loads). Termination of run is C11's subject and not part of this claim.",
   technique="Lean 4 language-equality proof over the PEG formalism of a node table translated from json.hpp; differential real-parse vs Lean model (8.6M cases quick); independent RFC 8259 recogniser cross-checked against an ABNF interpreter and json.loads"),
 'C20': dict(engine='translators', design_ref='DESIGN.md §6 C20',
   text=("Proof (Lean 4): for the node table translated from contrib/uri.hpp on every run (Gen = Expected obligation): whatever URI, URI_reference, absolute_URI, IPv4address, IPv6address (and each of 39 named rules) accept is derivable "
         "from the RFC 3986 production of the same name (C20_sound, C20_rule_sound); dec_octet accepts exactly the canonical numerals <= 255 with maximal munch (C20_dec_octet); only parse_errors blaming one of ten must-rules can escape "
         "(C20_exceptions). Completeness is refuted at host (C20_host_witness: 's://1.2.3.4x' is RFC-derivable and rejected; known finding F9) and otherwise explored by the differential oracle."),
   note=GENERAL_NOTE + " Partial: completeness (RFC-derivable => accepted) is not proved; it is false at host = sor< IP_literal, IPv4address, reg_name > (KNOWN-FINDING F9) and explored elsewhere against two independent ABNF recognisers. The RFC transcription spec/rfc3986.abnf is trusted.",
   technique="Lean 4 soundness proof over a translated node table (sync obligation each run); differential run of the real parser against the model, the PEG evaluator and two independent ABNF recognisers; F9 classifier with control input"),
 'C13': dict(engine='matcher-model', design_ref='DESIGN.md §6 C13',
   text=("Proof (Lean 4): state objects are modelled as what they are — locals of a match() frame — for the state< S, R > rule and the change_state / change_states / change_action_and_state / change_action_and_states bases. "
         "For every grammar, attachment, input, mode and fuel the trace is accepted by the state-scope automaton (C13_scopes): every object constructed inside an invocation is destroyed inside it, LIFO, also on local failure and when an "
         "exception passes; success is called at most once, only on the innermost live object, with the next outer object as outer state; every action call is given the innermost live object; nothing inside an invocation touches "
         "the objects alive at its entry (C13_deeper). Exact life cycles: state<> calls success iff the rule matched, in every apply mode, at the cursor after the match (C13_state_rule, counted over the whole trace in "
         "C13_state_rule_once); the action-based variants call it iff the rule matched and actions are enabled, and the rule's own action sees the new object (C13_change_state, C13_change_action_and_state, "
         "C13_own_action_sees_new_state). change_action / enable_action / disable_action replace family / mode for exactly the attempt of their rule (C13_change_action, C13_disable_action, C13_enable_action, C13_seq_env). "
         "Switch scoping as a trace theorem: every trace is accepted by the automaton that recomputes, from the rule table alone, apply mode, action family and control family of every invocation from its chain of enclosing invocations "
         "(C13_switch_scoped, C13_parse_switch): a rule is entered with the prescribed mode through the prescribed control, its hooks are run by the control its own frame prescribes (the new one under change_control), an action is called only "
         "for the innermost open rule and only if it has one in the prescribed family and mode; frames are popped on return, so no switch (change_action, change_action_and_state(s), change_control, enable/disable(_action), action<>, control<>) reaches anything after its rule."),
   note=GENERAL_NOTE + " The model has two control families (the run's, with or without unwind(), and the harness's second, line-marking one, which defines unwind()); the control family is recorded at enter and start only — that every other hook line "
        "of an invocation comes from the prescribed family is checked on the implementation's raw log by oracle_control_scope, not a theorem. The two spellings change_state / change_states are one constructor in the model (same behaviour); success() of the state types does not throw.",
   technique="Lean 4 proof that every model trace is accepted by a state-scope stack automaton (environment-indexed trace induction) + exact life-cycle theorems; differential correspondence with state rules and all switching bases; Lean 4 proof that every trace is accepted by the switch automaton (mode, action family, control family recomputed from the enclosing invocations); four independent trace oracles"),
 'C12': dict(engine='matcher-model', design_ref='DESIGN.md §6 C12',
   text=("Proof (Lean 4): the node builder of contrib/parse_tree.hpp (make_control::state_handler: push on start, pop + transform + attach on success, pop on failure / unwind, splice for unselected rules, no bookkeeping at all for "
         "leaf-optimised rules) is modelled as a stack machine over the enter/exit events; for every trace of the matcher model — any grammar, actions (vetoing, throwing), selector, input — the trace is the event list of one "
         "invocation tree (run_tree) and the machine returns exactly the declarative surviving derivation of that tree (C12_tree via run_specT): nodes = successful invocations of selected rules all of whose enclosing invocations "
         "succeeded (inside a succeeding at<> included), in order and nesting, begin/end = cursor at entry/return; nothing from a failed or exception-aborted invocation (C12_failed_contributes_nothing); unselected rules contracted "
         "(C12_unselected_contracted); tree iff the parse succeeds (C12_iff); store / remove_content / fold_one / discard_empty exactly as documented (C12_remove_content, C12_fold_one_*, C12_discard_empty_*). Positions: every invocation tree of the model is well-chained — below every successful invocation of a rule that does not re-read input the successful "
         "sub-invocations are ordered and lie within the invocation's span (C12_invocations_chained, induction over all rule kinds with the cursor) — and for grammars without at / not_at / rematch the returned tree is the pre-order of rose trees in which "
         "every node's children are ordered and contained in the node's span, for every selector assignment (C12_children_contained; specT_flat ties the rose-tree form to the list form the machine produces)."),
   note=GENERAL_NOTE + " The soundness of the compile-time leaf optimisation is a hypothesis of the general C12_tree (leafOKT) and is *proved* for the real classification on grammars without match()-carrying action classes "
        "(C12_tree_static, C12_leaf_optimisation_invisible: every invocation tree respects the rule table, is_leaf is sound on such trees); is_leaf is computed over the model's callee lists (subs_t plus derived hidden rules: never less conservative). The clause 'children contained in and ordered within their parent' is false below look-ahead and rematch (KNOWN-FINDING F20, witness C12_containment_fails_below_lookahead: the property itself counts matches inside a succeeding and-predicate "
        "as part of the tree); it is proved for every grammar without such rules, and the containment oracle tolerates a failure only on grammars that contain them. parse_tree_to_dot is not modelled. state<> rules cannot be combined with parse_tree::parse (the tree state is dropped from the pack; does not compile) and are excluded.",
   technique="Lean 4 proof that a stack-machine model of the parse_tree node builder computes the declarative surviving derivation on every model trace (mutual induction over invocation trees); differential real parse_tree::parse vs model (trace and tree); independent Python recomputation of the derivation from the implementation's enter/exit log; containment oracle on the returned tree"),
}

PENDING = {

 'C04': "check under construction",
 'C07': "check under construction", 'C12': "check under construction",
 'C13': "check under construction", 'C14': "check under construction",
 'C20': "check under construction",
}

def main():
    m = {
        'version': 1,
        'setup_cmd': "cd /verif/lean && lake build",
        'hooks': {'guard': 'TAO_PEGTL_VERIF', 'enable': "checks compile their harness with -DTAO_PEGTL_VERIF -I/repo/include (header-only library)",
                  'baseline_off_cmd': "cmake --build /repo/_build && ctest --test-dir /repo/_build -j8 --timeout 900",
                  'source_commits': ['d3485b7'], 'add_only': True},
        'engines': [
            {'name': 'matcher-model', 'path': 'lean/PegtlVerif/Model/Run.lean + vlib/engine.py + harness/vharness.hpp',
             'serves_properties': [k for k, v in CHECKS.items() if v['engine'] == 'matcher-model'],
             'kind_free_text': "Lean 4 executable model of match.hpp and the internal/*.hpp match() bodies with theorems; generated-C++ differential harness"},
            {'name': 'translators', 'path': 'vlib/translate_grammar.py + vlib/c20_translate.py + lean/PegtlVerif/Audit/*Sync.lean',
             'serves_properties': [k for k, v in CHECKS.items() if v['engine'] == 'translators'],
             'kind_free_text': "Grammar headers translated to Lean node tables on every run; theorems over the expected table + Gen = Expected obligation; differential drivers"},
            {'name': 'leaf-models', 'path': 'lean/PegtlVerif/Model/{Unescape,Lines,...}.lean + harness/leaf_*.cpp',
             'serves_properties': [k for k, v in CHECKS.items() if v['engine'].startswith('leaf')],
             'kind_free_text': "Lean 4 models of leaf functions with theorems; line-protocol differential drivers"}],
        'checks': [], 'not_applicable': [],
        'notes': "Every check: ./check <id> --tier quick|thorough. All 20 properties are claimed; none is considered not applicable (DESIGN.md §9).",
    }
    for pid in sorted(CHECKS):
        c = CHECKS[pid]
        m['checks'].append({'property_id': pid, 'quick_cmd': f"./check {pid} --tier quick", 'thorough_cmd': f"./check {pid} --tier thorough",
                            'evidence_file': f"/verif/evidence/{pid}.json", 'replay_cmd_template': f"./check {pid} --replay {{path}}",
                            'engine': c['engine'], 'level_claimed': {'category': 'proof', 'text': c['text'], 'design_ref': c['design_ref']},
                            'level_note': c['note'], 'technique': c['technique']})
    for pid in sorted(PENDING):
        if pid not in CHECKS:
            m['not_applicable'].append({'property_id': pid, 'reason': PENDING[pid]})
    json.dump(m, open('/verif/MANIFEST.json', 'w'), indent=1)
    try:
        import jsonschema
    except ImportError:
        print("MANIFEST written (jsonschema not available for validation in this interpreter)"); return
    jsonschema.validate(m, json.load(open('/root/.vp/MANIFEST.schema.json')))
    print("MANIFEST ok:", [c['property_id'] for c in m['checks']])

main()
