/-
  Main.lean — line-protocol driver for the executable model (native `lean_exe`, core Lean only).
  Reads a corpus file on stdin (format: /verif/vlib/protocol.md), prints one trace per case.
-/
import PegtlVerif.Model.Run
import PegtlVerif.Model.Tree
import PegtlVerif.Spec.Peg
import PegtlVerif.Lemmas.WftCheck

open Pegtl

def hexVal (c : Char) : Nat :=
  if '0' ≤ c ∧ c ≤ '9' then c.toNat - '0'.toNat
  else if 'a' ≤ c ∧ c ≤ 'f' then c.toNat - 'a'.toNat + 10
  else if 'A' ≤ c ∧ c ≤ 'F' then c.toNat - 'A'.toNat + 10
  else 0

def parseHex (s : String) : Array UInt8 :=
  if s == "-" then #[] else
  let cs := s.toList
  let rec go : List Char → Array UInt8 → Array UInt8
    | a :: b :: rest, acc => go rest (acc.push (UInt8.ofNat (hexVal a * 16 + hexVal b)))
    | _, acc => acc
  go cs #[]

def nat! (s : String) : Nat := s.toNat?.getD 0
def u8! (s : String) : UInt8 := UInt8.ofNat (nat! s)

def takeN (n : Nat) (ts : List String) : List String × List String := (ts.take n, ts.drop n)

def parseAtom : List String → Option Atom
  | ["any"] => some .any
  | "one" :: f :: n :: rest => some (.one (f == "1") ((rest.take (nat! n)).map u8!))
  | ["range", f, lo, hi] => some (.range (f == "1") (u8! lo) (u8! hi))
  | "ranges" :: n :: rest =>
    let k := nat! n
    let ps := rest.take (2 * k)
    let rec pairs : List String → List (UInt8 × UInt8)
      | a :: b :: r => (u8! a, u8! b) :: pairs r
      | _ => []
    let single := match rest.drop (2 * k) with
      | [s] => if s == "-" then none else some (u8! s)
      | _ => none
    some (.ranges (pairs ps) single)
  | "string" :: n :: rest => some (.string ((rest.take (nat! n)).map u8!))
  | "istring" :: n :: rest => some (.istring ((rest.take (nat! n)).map u8!))
  | ["bytes", n] => some (.bytes (nat! n))
  | ["eof"] => some .eof
  | ["bof"] => some .bof
  | ["bol"] => some .bol
  | ["eol"] => some .eol
  | ["eolf"] => some .eolf
  | ["success"] => some .success
  | ["failure"] => some .failure
  | ["everything"] => some .everything
  | ["require", n] => some (.require (nat! n))
  | ["utf8Range", f, lo, hi] => some (.utf8Range (f == "1") (nat! lo) (nat! hi))
  | ["maxDigits", mx] => some (.maxDigits (nat! mx))
  | ["repOne", lo, hi, c] => some (.repOne (nat! lo) (nat! hi) (u8! c))
  | _ => none

def parseCatch (s : String) : Catch :=
  if s == "any" then .any else if s == "std" then .std else .parse

/-- `n` rule-level actions, each `id isBool vetoMod throwMod throwStd` -/
def parseRuleActs : Nat → List String → List RuleAct
  | 0, _ => []
  | n + 1, k :: b :: v :: t :: s :: rest =>
    { id := nat! k, isBool := b == "1", vetoMod := nat! v, throwMod := nat! t, throwStd := s == "1" } :: parseRuleActs n rest
  | _, _ => []

def parseKind : List String → Option Kind
  | "atom" :: rest => (parseAtom rest).map .atom
  | "seq" :: n :: rest => some (.seq ((rest.take (nat! n)).map nat!))
  | "sor" :: n :: rest => some (.sor ((rest.take (nat! n)).map nat!))
  | "starPartial" :: n :: rest => some (.starPartial ((rest.take (nat! n)).map nat!))
  | "partial" :: n :: rest => some (.partialR ((rest.take (nat! n)).map nat!))
  | ["plus", c] => some (.plus (nat! c))
  | ["at", c] => some (.atR (nat! c))
  | ["notAt", c] => some (.notAt (nat! c))
  | ["until1", c] => some (.until1 (nat! c))
  | ["until2", c, b] => some (.until2 (nat! c) (nat! b))
  | ["rep", n, c] => some (.rep (nat! n) (nat! c))
  | ["repMinMax", lo, hi, c, na] => some (.repMinMax (nat! lo) (nat! hi) (nat! c) (nat! na))
  | ["repOpt", n, c] => some (.repOpt (nat! n) (nat! c))
  | ["ifThenElse", c, t, e] => some (.ifThenElse (nat! c) (nat! t) (nat! e))
  | ["strict", c, r] => some (.strict (nat! c) (nat! r))
  | ["starStrict", c, r] => some (.starStrict (nat! c) (nat! r))
  | "rematch" :: h :: n :: rest => some (.rematch (nat! h) ((rest.take (nat! n)).map nat!))
  | ["must", c] => some (.must (nat! c))
  | ["ifMust", d, c, mn] => some (.ifMust (d == "1") (nat! c) (nat! mn))
  | ["raise", t] => some (.raise (nat! t))
  | ["tcrf", ex, c] => some (.tryCatchReturnFalse (parseCatch ex) (nat! c))
  | ["tcrn", ex, c] => some (.tryCatchRaiseNested (parseCatch ex) (nat! c))
  | ["enable", c] => some (.enable (nat! c))
  | ["disable", c] => some (.disable (nat! c))
  | ["action", f, c] => some (.action (nat! f) (nat! c))
  | ["state", d, c] => some (.state (d == "1") (nat! c))
  | ["control", k, c] => some (.control (nat! k) (nat! c))
  | "ifApply" :: c :: n :: rest => some (.ifApply (nat! c) (parseRuleActs (nat! n) rest))
  | "applyR" :: n :: rest => some (.applyR (parseRuleActs (nat! n) rest))
  | _ => none

def parseWrap (w : String) : Wrap :=
  match w.splitOn ":" with
  | ["ca", f] => .changeAction (nat! f)
  | ["da"] => .disableAction
  | ["ea"] => .enableAction
  | ["ld", n] => .limitDepth (nat! n)
  | ["lb", n] => .limitBytes (nat! n)
  | ["cs", mu] => .changeState (mu == "1")
  | ["cas", f, mu] => .changeActionAndState (nat! f) (mu == "1")
  | ["cc"] => .changeControl 2
  | ["cc", k] => .changeControl (nat! k)
  | _ => .none

def parseAct : List String → ActionSpec
  | [k, b, v, t, s, w] =>
    { kind := if k == "apply" then .apply else if k == "apply0" then .apply0 else .none,
      isBool := b == "1", vetoMod := nat! v, throwMod := nat! t, throwStd := s == "1", wrap := parseWrap w }
  | _ => {}

def showCur (c : Cursor) : String := s!"{c.pos} {c.line} {c.col}"
def showA : AMode → String | .action => "1" | .nothing => "0"
def showM : RMode → String | .required => "r" | .optional => "o"

def showEv : Ev → String
  | .enter i a m c k => s!"E {i} {showA a} {showM m} {showCur c} {k}"
  | .exit i r c => s!"X {i} {r} {showCur c}"
  | .start i c k => s!"st {i} {showCur c} {k}"
  | .success i c => s!"su {i} {showCur c}"
  | .failure i c => s!"fa {i} {showCur c}"
  | .unwind i c => s!"uw {i} {showCur c}"
  | .raise i c => s!"ra {i} {showCur c}"
  | .apply i sd b e => s!"ap {i} {showCur b} {showCur e} {sd}"
  | .apply0 i sd c => s!"a0 {i} {showCur c} {sd}"
  | .sctor d => s!"sc {d}"
  | .ssucc d c o => s!"ss {d} {showCur c} {o}"
  | .sdtor d => s!"sd {d}"
  | .ruleApply k sd b e => s!"rp {k} {showCur b} {showCur e} {sd}"

def showExc : Exc → String
  | .parse i c => s!"P {i} {showCur c}"
  | .nested i c inner => s!"N {i} {showCur c} ( {showExc inner} )"
  | .foreign k s => s!"F {k} {if s then 1 else 0}"

def parseEol (s : String) : Eol :=
  if s == "lf" then .lf else if s == "cr" then .cr else if s == "crlf" then .crlf
  else if s == "cr_crlf" then .crCrlf else .lfCrlf

structure DState where
  g : Array Node := #[]
  fams : Array (Array ActionSpec) := #[]
  fuel : Nat := 3000
  sel : List (Nat × Sel) := []     -- parse-tree selector (C12); empty: no tree output
  msgs : List Nat := []            -- rules the grammar's `must_if` message table has an entry for
  treeOn : Bool := false

def parseSel (s : String) : Sel :=
  if s == "remove" then .removeContent else if s == "fold" then .foldOne else if s == "discard" then .discardEmpty else .store

def selPairs : List String → List (Nat × Sel)
  | i :: k :: rest => (nat! i, parseSel k) :: selPairs rest
  | _ => []

/-- dynamic check of the side condition of C12_tree: no selected rule is entered below a rule classified `leaf` -/
def leafSoundTrace (cls : Nat → Cls) : List Bool → List Ev → Bool
  | _, [] => true
  | stk, .enter i _ _ _ _ :: es =>
    let under := stk.any id
    match cls i with
    | .sel _ => !under && leafSoundTrace cls (false :: stk) es
    | .leaf => leafSoundTrace cls (true :: stk) es
    | .branch => leafSoundTrace cls (false :: stk) es
  | stk, .exit _ _ _ :: es => leafSoundTrace cls stk.tail es
  | stk, _ :: es => leafSoundTrace cls stk es

def showTree (ds : DState) (r : Ret) : List String :=
  if !ds.treeOn then [] else
    let selMap : Nat → Option Sel := fun i => (ds.sel.find? (·.1 == i)).map (·.2)
    let cls := clsOf ds.g selMap
    let sound := leafSoundTrace cls [] r.raw
    match buildTree cls (decide (r.res = .ok)) r.raw with
    | none => ["TREE none", s!"LS {if sound then 1 else 0}"]
    | some f => [s!"TREE {f.length}"] ++
        f.map (fun p => s!"T {p.1} {p.2.id} {showCur p.2.b} {if p.2.content then showCur p.2.e else "-"}") ++
        [s!"LS {if sound then 1 else 0}"]

def setNode (g : Array Node) (i : Nat) (nd : Node) : Array Node :=
  let g := if g.size ≤ i then g ++ Array.replicate (i + 1 - g.size) default else g
  g.set! i nd

def setFam (fs : Array (Array ActionSpec)) (f i : Nat) (a : ActionSpec) : Array (Array ActionSpec) :=
  let fs := if fs.size < f then fs ++ Array.replicate (f - fs.size) #[] else fs
  let row := fs.getD (f - 1) #[]
  let row := if row.size ≤ i then row ++ Array.replicate (i + 1 - row.size) default else row
  fs.set! (f - 1) (row.set! i a)

def runCase (ds : DState) (ts0 : List String) : List String :=
  -- an optional 13th field: 1 = the run's control is the grammar's `must_if` control
  let (ts, mi) := match ts0 with
    | [cid, root, a, m, eol, lz, uw, ib, il, ic, fam, hex, mi] => ([cid, root, a, m, eol, lz, uw, ib, il, ic, fam, hex], mi == "1")
    | _ => (ts0, false)
  match ts with
  | [cid, root, a, m, eol, lz, uw, ib, il, ic, fam, hex] =>
    let cx : Ctx := { g := ds.g, inp := parseHex hex, eol := parseEol eol, lazy := lz == "1",
                      init := ⟨nat! ib, nat! il, nat! ic⟩, unwind := uw == "1", fams := ds.fams,
                      msgs := if mi then ds.msgs else [] }
    let am := if a == "1" then AMode.action else .nothing
    let rm := if m == "r" then RMode.required else .optional
    match run cx ds.fuel (nat! root) am rm { fam := nat! fam } cx.start with
    | none => [s!"CASE {cid}", "R none", "END"]
    | some r =>
      let resLine := match r.res with
        | .ok => s!"R 1 {showCur (cx.rep r.st.cur)}"
        | .fail => s!"R 0 {showCur (cx.rep r.st.cur)}"
        | .thr e => s!"R 2 {showCur (cx.rep r.st.cur)} {showExc e}"
      [s!"CASE {cid}"] ++ r.raw.map showEv ++ [resLine, s!"O {if r.st.oob then 1 else 0} {r.st.endp} {r.st.depth}"]
        ++ r.surv.map (fun e => "S " ++ showEv e) ++ showTree ds r ++ ["END"]
  | _ => ["BAD case"]

def showBlame : Spec.Blame → String
  | .parse l => s!"P {l}"
  | .nested l b => s!"N {l} ( {showBlame b} )"

def semCase (ds : DState) (ts : List String) : List String :=
  match ts with
  | [cid, root, eol, hex] =>
    let inp := parseHex hex
    match Pegtl.Spec.semEval ds.g (parseEol eol) inp ds.fuel (.node (nat! root)) 0 with
    | none => [s!"SEM {cid} none"]
    | some (.ok q) => [s!"SEM {cid} 1 {q}"]
    | some .fail => [s!"SEM {cid} 0"]
    | some (.err l) => [s!"SEM {cid} 2 {showBlame l}"]
  | _ => ["BAD sem"]

def step (ds : DState) (line : String) : DState × List String :=
  match (line.trimAscii.toString.splitOn " ").filter (· ≠ "") with
  | ["G", _gid] => ({ ds with g := #[], fams := #[], sel := [], treeOn := false, msgs := [] }, [])
  | "MI" :: rest => ({ ds with msgs := rest.map (nat! ·) }, [])
  | "SEL" :: rest => ({ ds with sel := selPairs rest, treeOn := true }, [])
  | ["FUEL", n] => ({ ds with fuel := nat! n }, [])
  | "N" :: id :: ctl :: k :: b :: v :: t :: s :: w :: rest =>
    match parseKind rest with
    | some kind => ({ ds with g := setNode ds.g (nat! id) ⟨ctl == "1", parseAct [k, b, v, t, s, w], kind⟩ }, [])
    | none => (ds, [s!"BAD node {line}"])
  | ["F", f, id, k, b, v, t, s, w] =>
    ({ ds with fams := setFam ds.fams (nat! f) (nat! id) (parseAct [k, b, v, t, s, w]) }, [])
  | ["W", gid] =>
    let cx : Ctx := { g := ds.g, inp := #[], fams := ds.fams }
    (ds, [s!"W {gid} {if wftCheck cx then 1 else 0}"])
  | "C" :: rest => (ds, runCase ds rest)
  | "SEM" :: rest => (ds, semCase ds rest)
  | [] => (ds, [])
  | _ => (ds, [s!"BAD line {line}"])

partial def loop (h : IO.FS.Stream) (out : IO.FS.Stream) (ds : DState) : IO Unit := do
  let line ← h.getLine
  if line.isEmpty then return ()
  let (ds', outs) := step ds line
  if !outs.isEmpty then out.putStr (String.intercalate "\n" outs ++ "\n")
  loop h out ds'

def main : IO Unit := do
  let stdin ← IO.getStdin
  let stdout ← IO.getStdout
  loop stdin stdout {}
