/-
  DrvC16.lean — line-protocol driver for the raw_string model (native `lean_exe`, core Lean only).

  stdin, one case per line:   <Open> <Marker> <Close> <eol 0..4> <contents 0..3> <hex input | ->
      eol: 0 lf, 1 cr, 2 crlf, 3 lf_crlf, 4 cr_crlf
      contents: 0 none, 1 `any`, 2 `any, any`, 3 `not_one< 'x' >`
  stdout, one line per case: four observations, for (action attached?, rewind mode) in
      A1R A1O A0R A0O :   `<tag> <result> <byte> <line> <column> <span>`
      span = `<begin byte> <begin line> <begin column> <end byte>` or `-`
  followed by `S <n> <b> <e>` or `S -` : the value of the Lean *spec* function `LuaLong.scan`.
-/
import PegtlVerif.Model.RawString
import PegtlVerif.Spec.LuaLong

open Pegtl Pegtl.RawString

def hexVal (c : Char) : Nat :=
  if '0' ≤ c ∧ c ≤ '9' then c.toNat - '0'.toNat
  else if 'a' ≤ c ∧ c ≤ 'f' then c.toNat - 'a'.toNat + 10
  else if 'A' ≤ c ∧ c ≤ 'F' then c.toNat - 'A'.toNat + 10
  else 0

def parseHex (s : String) : Array UInt8 :=
  if s == "-" then #[] else
  let rec go : List Char → Array UInt8 → Array UInt8
    | a :: b :: rest, acc => go rest (acc.push (UInt8.ofNat (hexVal a * 16 + hexVal b)))
    | _, acc => acc
  go s.toList #[]

def nat! (s : String) : Nat := s.toNat?.getD 0

def eolOf : Nat → Eol
  | 0 => .lf | 1 => .cr | 2 => .crlf | 3 => .lfCrlf | _ => .crCrlf

def contentsOf (cx : Ctx) : Nat → Option (St → Bool × St)
  | 0 => none
  | 1 => some (seqAtoms cx [.any])
  | 2 => some (seqAtoms cx [.any, .any])
  | _ => some (seqAtoms cx [.one false [120]])

def showObs (tag : String) (r : Option (Bool × St × Option (Cursor × Cursor))) : String :=
  match r with
  | none => s!"{tag} fuel"
  | some (ok, st, sp) =>
    let span := match sp with
      | none => "-"
      | some (b, e) => s!"{b.pos} {b.line} {b.col} {e.pos}"
    s!"{tag} {if ok then 1 else 0} {st.cur.pos} {st.cur.line} {st.cur.col} {span}"

def runCase (line : String) : String :=
  match line.trimAscii.toString.splitOn " " with
  | [o, m, c, e, ct, hex] =>
    let inp := parseHex hex
    let k : Cfg := ⟨UInt8.ofNat (nat! o), UInt8.ofNat (nat! m), UInt8.ofNat (nat! c)⟩
    let cx := mkCtx inp (eolOf (nat! e))
    let st := cx.start
    -- with content rules the loop makes one trip per match of the rule; every rule used here
    -- consumes at least one byte, so the same fuel suffices
    let cont := contentsOf cx (nat! ct)
    let f := fuelFor st
    let obs := [("A1R", true, RMode.required), ("A1O", true, RMode.optional),
                ("A0R", false, RMode.required), ("A0O", false, RMode.optional)].map
      fun (tag, act, M) => showObs tag (rawString cx k cont act M f st)
    let sp := match LuaLong.scan k.o k.m k.c cx.eol inp 0 with
      | none => "S -"
      | some (n, b, e) => s!"S {n} {b} {e}"
    " ".intercalate obs ++ " " ++ sp
  | _ => "bad-line"

partial def loop (h out : IO.FS.Stream) : IO Unit := do
  let line ← h.getLine
  if line.isEmpty then return ()
  if line.trimAscii.toString.isEmpty then loop h out else
  out.putStrLn (runCase line)
  loop h out

def main : IO Unit := do
  loop (← IO.getStdin) (← IO.getStdout)
