/-
  DrvC15.lean — line-protocol driver evaluating the model of contrib/integer.hpp
  (Model/Integer.lean) on the same cases as harness/leaf_c15.cpp, with the same output lines.

    def <group> <W> <op> <op> ...     define the op list of a group (taken from `leaf_c15 --list`)
    <group> <hex|->                   one case  →  `<group> <hex> <op>=<result> ... ub=0`

  The model has no undefined behaviour to report: `ub=0` is what Props/C15.lean proves
  (no arithmetic outside the type's range: outcome `bad` is unreachable).
-/
import PegtlVerif.Model.Integer

open Pegtl.Integer

inductive Op
  | cu (m : Nat) | cp | cn | cs
  | ur | urn | ua | uw | uwn
  | mr (m : Nat) | ma (m : Nat) | um (m : Nat) | mw (m : Nat) | mwn (m : Nat)
  | sr | srn | sa | sw | swn
  | unknown

structure Group where
  name : String
  w : Nat
  ops : Array (String × Op)

def parseOp (s : String) : Op :=
  match s.splitOn ":" with
  | ["cp"] => .cp | ["cn"] => .cn | ["cs"] => .cs
  | ["ur"] => .ur | ["urn"] => .urn | ["ua"] => .ua | ["uw"] => .uw | ["uwn"] => .uwn
  | ["sr"] => .sr | ["srn"] => .srn | ["sa"] => .sa | ["sw"] => .sw | ["swn"] => .swn
  | ["cu", m] => .cu m.toNat!
  | ["mr", m] => .mr m.toNat!
  | ["ma", m] => .ma m.toNat!
  | ["um", m] => .um m.toNat!
  | ["mw", m] => .mw m.toNat!
  | ["mwn", m] => .mwn m.toNat!
  | _ => .unknown

def hexVal (c : Char) : Nat :=
  if '0' ≤ c ∧ c ≤ '9' then c.toNat - 48
  else if 'a' ≤ c ∧ c ≤ 'f' then c.toNat - 87
  else 0

def parseHex (s : String) : List UInt8 :=
  if s == "-" then [] else
  let rec go : List Char → List UInt8
    | a :: b :: rest => UInt8.ofNat (hexVal a * 16 + hexVal b) :: go rest
    | _ => []
  go s.toList

def showAcc : Acc → String
  | .ok r => s!"ok:{r}"
  | .overflow => "ovf"
  | .bad => "bad"

def showConv : Conv → String
  | .ok v => s!"ok:{v}"
  | .overflow => "ovf"
  | .bad => "bad"

/-- `stored`: the rule writes a state that the harness prints; `msg`: which message an
    overflow exception of this op carries. -/
def showRes (stored : Bool) (msg : String) : Res → String
  | .ok i v => if stored then s!"ok:{i.pos}:{v}" else s!"ok:{i.pos}:-"
  | .fail i => s!"fail:{i.pos}"
  | .thr i p => s!"thr:{i.pos}:{p}:{msg}"
  | .oob => "oob"
  | .bad => "bad"
  | .fuel => "fuel"

def allDigits (bs : List UInt8) : Bool := bs.all isDigit

def evalOp (w : Nat) (bs : List UInt8) : Op → String
  | .cu m => if bs.isEmpty || !allDigits bs then "na" else showAcc (convertPositive (umaxW w) m bs)
  | .cp => if bs.isEmpty || !allDigits bs then "na" else showAcc (convertPositive (smaxW w) (smaxW w) bs)
  | .cn => if bs.isEmpty || !allDigits bs then "na" else showConv (convertNegative w bs)
  | .cs =>
    let ds := match bs with
      | c :: rest => if c == 45 || c == 43 then rest else bs
      | [] => []
    if ds.isEmpty || !allDigits ds then "na" else showConv (convertSigned w bs)
  | .ur => showRes false "" (unsignedRule ⟨0, bs⟩)
  | .urn => showRes false "" (unsignedRuleNew ⟨0, bs⟩)
  | .ua => showRes true "uo" (withAction unsignedRule (unsignedAction w) ⟨0, bs⟩)
  | .uw => showRes true "io" (unsignedRuleWithAction w ⟨0, bs⟩)
  | .uwn => showRes false "" (unsignedRule ⟨0, bs⟩)
  | .mr m => showRes false "" (maximumRule w m ⟨0, bs⟩)
  | .ma m => showRes true "uo" (withAction (maximumRule w m) (maximumAction w m) ⟨0, bs⟩)
  | .um m => showRes true "uo" (withAction unsignedRule (maximumAction w m) ⟨0, bs⟩)
  | .mw m => showRes true "io" (maximumRuleWithAction w m ⟨0, bs⟩)
  | .mwn m => showRes false "io" (maximumRuleWithActionNothing w m ⟨0, bs⟩)
  | .sr => showRes false "" (signedRule ⟨0, bs⟩)
  | .srn => showRes false "" (signedRuleNew ⟨0, bs⟩)
  | .sa => showRes true "so" (withAction signedRule (signedAction w) ⟨0, bs⟩)
  | .sw => showRes true "so" (signedRuleWithAction w ⟨0, bs⟩)
  | .swn => showRes false "" (signedRule ⟨0, bs⟩)
  | .unknown => "unknown-op"

def step (gs : List Group) (line : String) : List Group × Option String :=
  match (line.trimAscii.toString.splitOn " ").filter (· ≠ "") with
  | "def" :: name :: w :: ops =>
    (⟨name, w.toNat!, (ops.map fun o => (o, parseOp o)).toArray⟩ :: gs, none)
  | [g, hex] =>
    match gs.find? (·.name == g) with
    | some grp =>
      let bs := parseHex hex
      let body := grp.ops.foldl (fun acc (nm, op) => acc ++ " " ++ nm ++ "=" ++ evalOp grp.w bs op) (g ++ " " ++ hex)
      (gs, some (body ++ " ub=0"))
    | none => (gs, some s!"BAD {line.trimAscii.toString}")
  | [] => (gs, none)
  | _ => (gs, some s!"BAD {line.trimAscii.toString}")

partial def loop (h : IO.FS.Stream) (out : IO.FS.Stream) (gs : List Group) : IO Unit := do
  let line ← h.getLine
  if line.isEmpty then return ()
  let (gs', o) := step gs line
  match o with
  | some s => out.putStrLn s
  | none => pure ()
  loop h out gs'

def main : IO Unit := do
  let stdin ← IO.getStdin
  let stdout ← IO.getStdout
  loop stdin stdout []
