/-
  DrvC14.lean — line-protocol driver for property C14 (native `lean_exe`, core Lean only).
  Evaluates, on the committed table `Expected.json` with root `top = seq< json::text, eof >`,
  both the matcher model (`run`, Model/Run.lean; apply mode `action`, rewind mode `optional` as in
  parse.hpp) and the evaluator of the PEG formalism
  (`Spec.semEval`), with the same output lines as harness/leaf_c14.cpp:

    A <hex>            set the alphabet of the sweeps
    C <hex|->          one input          →  `C <res> <pos>`      res: 1 success, 0 failure, 2 exception
    S <hex|->          one (large) input, formalism evaluator only  →  `S <res> <pos|->`  (pos on success)
    E <hex|-> <k>      all alphabet^k completions of the prefix, in alphabet order
                                           →  `E <res><res>…`      one digit per input

  `9` is printed if the model runs out of fuel, `!` if model and formalism evaluator disagree.
-/
import PegtlVerif.Model.Run
import PegtlVerif.Spec.Peg
import PegtlVerif.Expected.Json

open Pegtl

def hexVal (c : Char) : Nat :=
  if '0' ≤ c ∧ c ≤ '9' then c.toNat - 48
  else if 'a' ≤ c ∧ c ≤ 'f' then c.toNat - 87
  else if 'A' ≤ c ∧ c ≤ 'F' then c.toNat - 55
  else 0

def parseHex (s : String) : Array UInt8 :=
  if s == "-" then #[] else
  let rec go : List Char → Array UInt8 → Array UInt8
    | a :: b :: rest, acc => go rest (acc.push (UInt8.ofNat (hexVal a * 16 + hexVal b)))
    | _, acc => acc
  go s.toList #[]

def topId : Nat := Expected.JsonId.top

/-- (result code, final offset) of the matcher model. -/
def evalRun (inp : Array UInt8) : Nat × Nat :=
  let cx : Ctx := { g := Expected.json, inp := inp }
  match run cx (4 * inp.size + 200) topId .action .optional {} cx.start with
  | none => (9, 0)
  | some r => (r.res.code, r.st.cur.pos)

/-- (result code, final offset) of the evaluator of the formalism. -/
def evalSem (inp : Array UInt8) : Nat × Nat :=
  match Spec.semEval Expected.json .lfCrlf inp (4 * inp.size + 200) (.node topId) 0 with
  | none => (9, 0)
  | some (.ok q) => (1, q)
  | some .fail => (0, 0)
  | some (.err _) => (2, 0)

def evalBoth (inp : Array UInt8) : Nat × Nat × Bool :=
  let a := evalRun inp
  let b := evalSem inp
  (a.1, a.2, a.1 == b.1 && (a.1 != 1 || a.2 == b.2))

def digitOf (inp : Array UInt8) : Char :=
  let (c, _, ok) := evalBoth inp
  if !ok then '!' else Char.ofNat (48 + c)

partial def sweep (alpha : Array UInt8) (k : Nat) (cur : Array UInt8) (acc : String) : String :=
  if k == 0 then acc.push (digitOf cur)
  else alpha.foldl (fun acc c => sweep alpha (k - 1) (cur.push c) acc) acc

def step (alpha : Array UInt8) (line : String) : Array UInt8 × Option String :=
  match (line.trimAscii.toString.splitOn " ").filter (· ≠ "") with
  | ["A", h] => (parseHex h, none)
  | ["C", h] =>
    let (c, p, ok) := evalBoth (parseHex h)
    (alpha, some (if ok then s!"C {c} {p}" else s!"C ! {c} {p}"))
  | ["S", h] =>
    let (c, p) := evalSem (parseHex h)
    (alpha, some (if c == 1 then s!"S {c} {p}" else s!"S {c} -"))
  | ["E", h, k] => (alpha, some ("E " ++ sweep alpha k.toNat! (parseHex h) ""))
  | [] => (alpha, none)
  | _ => (alpha, some "BAD")

partial def loop (h : IO.FS.Stream) (out : IO.FS.Stream) (alpha : Array UInt8) : IO Unit := do
  let line ← h.getLine
  if line.isEmpty then return ()
  let (alpha', o) := step alpha line
  match o with
  | some s => out.putStrLn s
  | none => pure ()
  loop h out alpha'

def main : IO Unit := do
  let stdin ← IO.getStdin
  let stdout ← IO.getStdout
  loop stdin stdout #[]
