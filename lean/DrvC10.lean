/-
  DrvC10.lean — native line-protocol driver for the C10 model (same protocol as
  harness/leaf_c10.cpp; the object is described after " ;" on each line):

    P <id> <hex|-> ; <peek>                  Peek.peek
    W <id> <pre|-> <k> <suf|-> ; <peek>      swept over the 256^k fillings of k free bytes
    M <id> <hex|-> ; <rule>                  matchUnit / matchIstring
    V <id> <pre|-> <k> <suf|-> ; <rule>      swept
    I <C>                                    icharEqual C c for c = 0..255

  <peek> ::= char | uint8 | maskUint8 m | uint w e | maskUint w e m | utf8 | utf16 e | utf32 e
  <rule> ::= any <peek> | one f <peek> n c… | range f <peek> lo hi | ranges <peek> n c…
           | istring n b… | class <name>          (class: row of Expected.asciiTable)
-/
import PegtlVerif.Model.AsciiClasses
import PegtlVerif.Expected.AsciiTable

open Pegtl Pegtl.Utf

def hexVal (c : Char) : Nat :=
  if '0' ≤ c ∧ c ≤ '9' then c.toNat - 48
  else if 'a' ≤ c ∧ c ≤ 'f' then c.toNat - 87
  else if 'A' ≤ c ∧ c ≤ 'F' then c.toNat - 55
  else 0

def unhex (s : String) : List UInt8 :=
  if s = "-" then [] else
  let rec go : List Char → List UInt8
    | a :: b :: t => (hexVal a * 16 + hexVal b).toUInt8 :: go t
    | _ => []
  go s.toList

def parseEndian : String → Option Endian
  | "big" => some .big | "little" => some .little | _ => none

def parsePeek : List String → Option (Peek × List String)
  | "char" :: t => some (.char, t)
  | "uint8" :: t => some (.uint8, t)
  | "utf8" :: t => some (.utf8, t)
  | "maskUint8" :: m :: t => m.toNat?.map fun m => (.maskUint8 m, t)
  | "uint" :: w :: e :: t => do some (.uint (← w.toNat?) (← parseEndian e), t)
  | "maskUint" :: w :: e :: m :: t => do some (.maskUint (← w.toNat?) (← parseEndian e) (← m.toNat?), t)
  | "utf16" :: e :: t => do some (.utf16 (← parseEndian e), t)
  | "utf32" :: e :: t => do some (.utf32 (← parseEndian e), t)
  | _ => none

def parseInts (n : Nat) (t : List String) : Option (List Int) :=
  if t.length = n then t.mapM String.toInt? else none

inductive Obj
  | unit (r : UnitRule)
  | istr (cs : List UInt8)

def parseRule : List String → Option Obj
  | "any" :: t => do
    let (p, rest) ← parsePeek t
    if rest.isEmpty then some (.unit (.any p)) else none
  | "one" :: f :: t => do
    let (p, rest) ← parsePeek t
    match rest with
    | n :: cs => some (.unit (.one (f == "1") p (← parseInts (← n.toNat?) cs)))
    | _ => none
  | "range" :: f :: t => do
    let (p, rest) ← parsePeek t
    match rest with
    | [lo, hi] => some (.unit (.range (f == "1") p (← lo.toInt?) (← hi.toInt?)))
    | _ => none
  | "ranges" :: t => do
    let (p, rest) ← parsePeek t
    match rest with
    | n :: cs => some (.unit (.ranges p (← parseInts (← n.toNat?) cs)))
    | _ => none
  | "istring" :: n :: cs => do
    let vs ← parseInts (← n.toNat?) cs
    some (.istr (vs.map fun v => v.toNat.toUInt8))
  | ["class", name] => (Expected.asciiTable.lookup name).map .unit
  | _ => none

def peekToken (p : Peek) (bs : List UInt8) : String :=
  match p.peek bs with
  | none => "-"
  | some (d, s) => s!"{d}/{s}"

def ruleToken (o : Obj) (bs : List UInt8) : String :=
  let r := match o with
    | .unit r => matchUnit r bs
    | .istr cs => matchIstring cs bs
  match r with
  | none => "-"
  | some n => toString n

def sweep (f : List UInt8 → String) (pre : List UInt8) (k : Nat) (suf : List UInt8) : String :=
  let total := 256 ^ k
  let toks := (List.range total).map fun x =>
    let free := (List.range k).map fun i => (x / 256 ^ (k - 1 - i) % 256).toUInt8
    f (pre ++ free ++ suf)
  " ".intercalate toks

def icharRow (C : Nat) : String :=
  String.ofList ((List.range 256).map fun c => if icharEqual C.toUInt8 c.toUInt8 then '1' else '0')

def splitDesc (line : String) : List String × List String :=
  let ws := (line.trimAscii.toString.splitOn " ").filter (· ≠ "")
  let l := ws.takeWhile (· ≠ ";")
  let r := (ws.dropWhile (· ≠ ";")).drop 1
  (l, r)

def handle (line : String) : String :=
  let (l, d) := splitDesc line
  match l with
  | ["P", _, hex] =>
    match parsePeek d with
    | some (p, []) => peekToken p (unhex hex)
    | _ => "?"
  | ["W", _, pre, k, suf] =>
    match parsePeek d, k.toNat? with
    | some (p, []), some k => if k ≤ 2 then sweep (peekToken p) (unhex pre) k (unhex suf) else "?"
    | _, _ => "?"
  | ["M", _, hex] =>
    match parseRule d with
    | some o => ruleToken o (unhex hex)
    | none => "?"
  | ["V", _, pre, k, suf] =>
    match parseRule d, k.toNat? with
    | some o, some k => if k ≤ 2 then sweep (ruleToken o) (unhex pre) k (unhex suf) else "?"
    | _, _ => "?"
  | ["I", c] =>
    match c.toNat? with
    | some c => icharRow (c % 256)
    | none => "?"
  | _ => "?"

partial def loop (hin hout : IO.FS.Stream) : IO Unit := do
  let line ← hin.getLine
  if line.isEmpty then return
  hout.putStrLn (handle line)
  loop hin hout

def main : IO Unit := do
  let hin ← IO.getStdin
  let hout ← IO.getStdout
  loop hin hout
