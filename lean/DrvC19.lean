/-
  DrvC19.lean — line-protocol driver for the C19 model (native `lean_exe`, core Lean only).

  stdin, one case per line:   <eol> <lazy 0|1> <init byte> <init line> <init column> <hex input | ->
      eol ∈ lf cr crlf lf_crlf cr_crlf
  stdout, one line per case: space-separated records, one per obtained position,
      M:i:off:byte:line:col:at:bol:eol:lb:ll
      M = B (in.bump( i ))  |  Y (parse< bytes< i > >, i ≤ 12)  |  T (after i tokens of sor< eol, any >)
      off = true offset of the cursor, byte:line:col = the reported position,
      at / bol = at( p ) / begin_of_line( p ) as offsets from begin(),
      eol = end_of_line( p ), lb:ll = data offset and size of line_at( p ); `x` when at( p )
      lies outside [begin, end] (the C++ driver then does not call them).
  The same lines are printed by harness/leaf_c19.cpp from the real memory_input.
-/
import PegtlVerif.Model.Lines

open Pegtl Pegtl.Lines

def hexVal (c : Char) : Nat :=
  if '0' ≤ c ∧ c ≤ '9' then c.toNat - '0'.toNat
  else if 'a' ≤ c ∧ c ≤ 'f' then c.toNat - 'a'.toNat + 10
  else if 'A' ≤ c ∧ c ≤ 'F' then c.toNat - 'A'.toNat + 10
  else 0

def parseHex (s : String) : Array UInt8 :=
  if s == "-" then #[] else
  let rec go : List Char → Array UInt8 → Array UInt8
    | a :: b :: rest, acc => go rest (acc.push (UInt8.ofNat (hexVal a * 16 + hexVal b)))
    | _, acc => acc
  go s.toList #[]

def nat! (s : String) : Nat := s.toNat?.getD 0

def parseEol : String → Option Eol
  | "lf" => some .lf | "cr" => some .cr | "crlf" => some .crlf
  | "lf_crlf" => some .lfCrlf | "cr_crlf" => some .crCrlf | _ => none

def yMax : Nat := 12

/-- One record: the helpers evaluated on the reported position `p`. -/
def record (cx : Ctx) (m : String) (i off : Nat) (p : Cursor) : String :=
  let a := atOff cx p
  let b := beginOfLineOff cx p
  let tail := match endOfLineOff cx p, lineAtOff cx p with
    | some e, some (lb, ll) => s!"{e}:{lb}:{ll}"
    | _, _ => "x:x:x"
  s!"{m}:{i}:{off}:{p.pos}:{p.line}:{p.col}:{a}:{b}:{tail}"

/-- Number of tokens `sor< eol, any >` matches from the start (at most `size`). -/
def tokCount (cx : Ctx) : Nat := Id.run do
  let mut st := cx.start
  let mut n := 0
  for _ in [0:cx.inp.size] do
    let r := tokStep cx st
    if r.1 then
      st := r.2
      n := n + 1
  return n

def runCase (cx : Ctx) : String := Id.run do
  let mut out : Array String := #[]
  let size := cx.inp.size
  for k in [0:size + 1] do
    out := out.push (record cx "B" k (bump cx cx.start k).cur.pos (posBump cx k))
  for k in [0:(min size yMax) + 1] do
    -- `bytes< k >::match`: `if( in.size( k ) >= k ) { in.bump( k ); return true; }`
    let st := (atomStep cx (.bytes k) cx.start).2
    out := out.push (record cx "Y" k st.cur.pos (cx.rep st.cur))
  for n in [0:tokCount cx + 1] do
    out := out.push (record cx "T" n (tokWalk cx n cx.start).cur.pos (posTok cx n))
  -- the same walk on the inner input of `rematch< until< eof >, … >`: same bytes, same positions
  for n in [0:tokCount cx + 1] do
    out := out.push (record cx "R" n (tokWalk cx n cx.start).cur.pos (posTok cx n))
  -- behind every `a` (byte 97) and at the start: `until< one< 'a' > >` skips byte by byte with `bump()`, so the position is the scan of the prefix
  out := out.push (record cx "U" 0 0 (posBump cx 0))
  let mut j := 0
  for k in [0:size] do
    if cx.inp.getD k 0 == 97 then
      j := j + 1
      out := out.push (record cx "U" j (k + 1) (posBump cx (k + 1)))
  return " ".intercalate out.toList

def step (line : String) : String :=
  match line.trimAscii.toString.splitOn " " with
  | [e, lz, ib, il, ic, hx] =>
    match parseEol e with
    | some eol =>
      let cx : Ctx := { g := #[], inp := parseHex hx, eol := eol, lazy := lz == "1" || lz == "3",   -- 2 / 3: the same input obtained from a parse-tree node (harness only)
                        init := ⟨nat! ib, nat! il, nat! ic⟩ }
      runCase cx
    | none => s!"BAD {line}"
  | _ => s!"BAD {line}"

partial def loop (h out : IO.FS.Stream) : IO Unit := do
  let line ← h.getLine
  if line.isEmpty then return ()
  if line.trimAscii.toString.isEmpty then loop h out else
  out.putStrLn (step line)
  loop h out

def main : IO Unit := do
  let stdin ← IO.getStdin
  let stdout ← IO.getStdout
  loop stdin stdout
