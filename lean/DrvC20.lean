/-
  DrvC20.lean — line-protocol driver for C20 (native `lean_exe`, core Lean only).

  stdin:   `<X> <hex>`      X ∈ URI | URI_reference | absolute_URI | IPv4address | IPv6address
                            (`-` for the empty input)
  stdout:  `<X> <hex> run=<r> sem=<r> rfc=<0|1>`
     run = the executable model (Model/Run.lean) on the root `seq< uri::X, eof >` of `Expected.uri`:
           `1` success, `0` local failure, `2 <byte> <blamed node>` global failure, `none` out of fuel;
     sem = the PEG specification evaluator (`semEvalE`) on `seq (ref X) (atom eof)`:
           `1 <end>`, `0`, `2 <blamed node>`, `none`;
     rfc = the ABNF recogniser of Spec/Rfc3986.lean for the RFC 3986 production of the same name.
-/
import PegtlVerif.Model.Run
import PegtlVerif.Spec.Peg
import PegtlVerif.Spec.Rfc3986
import PegtlVerif.Expected.Uri

open Pegtl Pegtl.Spec

def hexVal (c : Char) : Nat :=
  if '0' ≤ c ∧ c ≤ '9' then c.toNat - '0'.toNat
  else if 'a' ≤ c ∧ c ≤ 'f' then c.toNat - 'a'.toNat + 10
  else if 'A' ≤ c ∧ c ≤ 'F' then c.toNat - 'A'.toNat + 10
  else 0

def parseHex (s : String) : Array UInt8 :=
  if s == "-" then #[] else
  let rec go : List Char → Array UInt8 → Array UInt8
    | a :: b :: rest, acc => go rest (acc.push (UInt8.ofNat (hexVal a * 16 + hexVal b)))
    | _, acc => acc
  go s.toList #[]

def showBlame : Blame → String
  | .parse l => s!"{l}"
  | .nested l b => s!"N{l}({showBlame b})"

def showExc : Exc → String
  | .parse i c => s!"{c.pos} {i}"
  | .nested i c _ => s!"{c.pos} N{i}"
  | .foreign k _ => s!"F{k}"

def evalLine (x hex : String) : String :=
  let inp := parseHex hex
  let fuel := 400 + 40 * inp.size
  match Expected.uriTops.lookup ("uri::" ++ x), Rfc3986.ruleNames.lookup (x.replace "_" "-") with
  | some root, some rn =>
    let cx : Ctx := { g := Expected.uri, inp := inp }
    let runS := match run cx fuel root .action .required {} cx.start with
      | none => "none"
      | some r => match r.res with
        | .ok => "1"
        | .fail => "0"
        | .thr e => "2 " ++ showExc e
    let inner := match Expected.uriNames.lookup ("uri::" ++ x) with
      | some i => i
      | none => 0
    let semS := match semEvalE (Gof Expected.uri) .lfCrlf inp fuel inp.size (.seq (.ref inner) (.atom .eof)) 0 with
      | none => "none"
      | some (.ok q) => s!"1 {q}"
      | some .fail => "0"
      | some (.err b) => "2 " ++ showBlame b
    let rfcS := if Abnf.recognise Rfc3986.rfc3986 fuel (.ref rn) inp.toList then "1" else "0"
    s!"{x} {hex} run={runS} sem={semS} rfc={rfcS}"
  | _, _ => s!"BAD {x} {hex}"

partial def loop (h : IO.FS.Stream) (out : IO.FS.Stream) : IO Unit := do
  let line ← h.getLine
  if line.isEmpty then return ()
  match (line.trimAscii.toString.splitOn " ").filter (· ≠ "") with
  | [x, hex] => out.putStrLn (evalLine x hex)
  | [] => pure ()
  | _ => out.putStrLn s!"BAD {line.trimAscii.toString}"
  loop h out

def main : IO Unit := do
  let stdin ← IO.getStdin
  let stdout ← IO.getStdout
  loop stdin stdout
