/-
  DrvC11.lean — line-protocol driver for the grammar-analysis model (native `lean_exe`, core Lean only).

  stdin:
    G <gid>                      start a node table
    N <id> <ctl> <act fields…> <kind> <args>      one node (same format as Main.lean; the action fields are skipped)
    AN <gid> <root>              -> `AN <gid> <root> <entries> <problems>` and one `AE` line per entry of
                                    `abstractFrom g root`:  AE <gid> <root> <key> <type> <n> <sub keys…>
    AW <gid>                     -> `AW <gid> <entries> <problems>`  (whole table, `problems (abstract g)`)
    T <idx> <type> <n> <sub idx…>   one raw entry (a table dumped from the real `analyze_cycles`)
    TP <tag>                     -> `TP <tag> <entries> <problems>` for the raw table, which is then cleared
-/
import PegtlVerif.Model.Analyze

open Pegtl Pegtl.Analyze

def nat! (s : String) : Nat := s.toNat?.getD 0
def u8! (s : String) : UInt8 := UInt8.ofNat (nat! s)

def parseAtom : List String → Option Atom
  | ["any"] => some .any
  | "one" :: f :: n :: rest => some (.one (f == "1") ((rest.take (nat! n)).map u8!))
  | ["range", f, lo, hi] => some (.range (f == "1") (u8! lo) (u8! hi))
  | "ranges" :: n :: rest =>
    let k := nat! n
    let ps := rest.take (2 * k)
    let rec pairs : List String → List (UInt8 × UInt8)
      | a :: b :: r => (u8! a, u8! b) :: pairs r
      | _ => []
    let single := match rest.drop (2 * k) with
      | [s] => if s == "-" then none else some (u8! s)
      | _ => none
    some (.ranges (pairs ps) single)
  | "string" :: n :: rest => some (.string ((rest.take (nat! n)).map u8!))
  | "istring" :: n :: rest => some (.istring ((rest.take (nat! n)).map u8!))
  | ["utf8Range", f, lo, hi] => some (.utf8Range (f == "1") (nat! lo) (nat! hi))
  | ["maxDigits", mx] => some (.maxDigits (nat! mx))
  | ["repOne", lo, hi, c] => some (.repOne (nat! lo) (nat! hi) (u8! c))
  | ["bytes", n] => some (.bytes (nat! n))
  | ["eof"] => some .eof
  | ["bof"] => some .bof
  | ["bol"] => some .bol
  | ["eol"] => some .eol
  | ["eolf"] => some .eolf
  | ["success"] => some .success
  | ["failure"] => some .failure
  | ["everything"] => some .everything
  | ["require", n] => some (.require (nat! n))
  | _ => none

def parseCatch (s : String) : Catch :=
  if s == "any" then .any else if s == "std" then .std else .parse

/-- `n` rule-level actions, each `id isBool vetoMod throwMod throwStd` -/
def parseRuleActs : Nat → List String → List RuleAct
  | 0, _ => []
  | n + 1, k :: b :: v :: t :: s :: rest =>
    { id := nat! k, isBool := b == "1", vetoMod := nat! v, throwMod := nat! t, throwStd := s == "1" } :: parseRuleActs n rest
  | _, _ => []

def parseKind : List String → Option Kind
  | "atom" :: rest => (parseAtom rest).map .atom
  | "seq" :: n :: rest => some (.seq ((rest.take (nat! n)).map nat!))
  | "sor" :: n :: rest => some (.sor ((rest.take (nat! n)).map nat!))
  | "starPartial" :: n :: rest => some (.starPartial ((rest.take (nat! n)).map nat!))
  | "partial" :: n :: rest => some (.partialR ((rest.take (nat! n)).map nat!))
  | ["plus", c] => some (.plus (nat! c))
  | ["at", c] => some (.atR (nat! c))
  | ["notAt", c] => some (.notAt (nat! c))
  | ["until1", c] => some (.until1 (nat! c))
  | ["until2", c, b] => some (.until2 (nat! c) (nat! b))
  | ["rep", n, c] => some (.rep (nat! n) (nat! c))
  | ["repMinMax", lo, hi, c, na] => some (.repMinMax (nat! lo) (nat! hi) (nat! c) (nat! na))
  | ["repOpt", n, c] => some (.repOpt (nat! n) (nat! c))
  | ["ifThenElse", c, t, e] => some (.ifThenElse (nat! c) (nat! t) (nat! e))
  | ["strict", c, r] => some (.strict (nat! c) (nat! r))
  | ["starStrict", c, r] => some (.starStrict (nat! c) (nat! r))
  | "rematch" :: h :: n :: rest => some (.rematch (nat! h) ((rest.take (nat! n)).map nat!))
  | ["must", c] => some (.must (nat! c))
  | ["ifMust", d, c, mn] => some (.ifMust (d == "1") (nat! c) (nat! mn))
  | ["raise", t] => some (.raise (nat! t))
  | ["tcrf", ex, c] => some (.tryCatchReturnFalse (parseCatch ex) (nat! c))
  | ["tcrn", ex, c] => some (.tryCatchRaiseNested (parseCatch ex) (nat! c))
  | ["enable", c] => some (.enable (nat! c))
  | ["disable", c] => some (.disable (nat! c))
  | ["action", f, c] => some (.action (nat! f) (nat! c))
  | ["state", d, c] => some (.state (d == "1") (nat! c))
  | ["control", k, c] => some (.control (nat! k) (nat! c))
  | "ifApply" :: c :: n :: rest => some (.ifApply (nat! c) (parseRuleActs (nat! n) rest))
  | "applyR" :: n :: rest => some (.applyR (parseRuleActs (nat! n) rest))
  | _ => none

def kindWords : List String :=
  ["atom", "seq", "sor", "starPartial", "partial", "plus", "at", "notAt", "until1", "until2", "rep", "repMinMax",
   "repOpt", "ifThenElse", "strict", "starStrict", "rematch", "must", "ifMust", "raise", "tcrf", "tcrn", "enable",
   "disable", "action", "state", "control", "ifApply", "applyR"]

def setNode (g : Array Node) (i : Nat) (nd : Node) : Array Node :=
  let g := if g.size ≤ i then g ++ Array.replicate (i + 1 - g.size) default else g
  g.set! i nd

def showTy : AType → String
  | .any => "any" | .opt => "opt" | .seq => "seq" | .sor => "sor"

def parseTy (s : String) : AType :=
  if s == "any" then .any else if s == "opt" then .opt else if s == "seq" then .seq else .sor

def showId : AId → String
  | .node i => s!"n{i}"
  | .aux i k => s!"x{i}.{k}"

structure DState where
  g : Array Node := #[]
  tbl : Array AEntry := #[]

def rawGrammar (tbl : Array AEntry) : AGrammar :=
  ⟨(List.range tbl.size).map .node,
   fun e => match e with
     | .node i => tbl.getD i ⟨.any, []⟩
     | .aux _ _ => ⟨.any, []⟩⟩

def setEntry (t : Array AEntry) (i : Nat) (e : AEntry) : Array AEntry :=
  let t := if t.size ≤ i then t ++ Array.replicate (i + 1 - t.size) default else t
  t.set! i e

def step (ds : DState) (line : String) : DState × List String :=
  match (line.trimAscii.toString.splitOn " ").filter (· ≠ "") with
  | ["G", _gid] => ({ ds with g := #[] }, [])
  | "N" :: id :: ctl :: actAndKind =>
    -- the action fields (their number has grown over time) precede the kind keyword
    match parseKind (actAndKind.dropWhile fun t => !kindWords.contains t) with
    | some kind => ({ ds with g := setNode ds.g (nat! id) ⟨ctl == "1", {}, kind⟩ }, [])
    | none => (ds, [s!"BAD node {line}"])
  | ["AN", gid, root] =>
    let A := abstractFrom ds.g (nat! root)
    let hdr := s!"AN {gid} {root} {A.ids.length} {problems A}"
    let es := A.ids.map fun e =>
      let en := A.ent e
      s!"AE {gid} {root} {showId e} {showTy en.ty} {en.subs.length}" ++ String.join (en.subs.map fun s => " " ++ showId s)
    (ds, hdr :: es)
  | ["AW", gid] =>
    let A := abstract ds.g
    (ds, [s!"AW {gid} {A.ids.length} {problems A}"])
  | "T" :: idx :: ty :: n :: rest =>
    ({ ds with tbl := setEntry ds.tbl (nat! idx) ⟨parseTy ty, (rest.take (nat! n)).map fun s => .node (nat! s)⟩ }, [])
  | ["TP", tag] =>
    let A := rawGrammar ds.tbl
    ({ ds with tbl := #[] }, [s!"TP {tag} {A.ids.length} {problems A}"])
  | [] => (ds, [])
  | _ => (ds, [s!"BAD line {line}"])

partial def loop (h : IO.FS.Stream) (out : IO.FS.Stream) (ds : DState) : IO Unit := do
  let line ← h.getLine
  if line.isEmpty then return ()
  let (ds', outs) := step ds line
  if !outs.isEmpty then out.putStr (String.intercalate "\n" outs ++ "\n")
  loop h out ds'

def main : IO Unit := do
  let stdin ← IO.getStdin
  let stdout ← IO.getStdout
  loop stdin stdout {}
