import PegtlVerif.Model.Basic
import PegtlVerif.Model.Input
import PegtlVerif.Model.Run
import PegtlVerif.Spec.Peg
