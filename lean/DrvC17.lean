/-
  DrvC17.lean — line-protocol driver of the C17 model (`Model/Unescape.lean`); the C++ twin is
  `/verif/harness/leaf_c17.cpp`.  stdin → stdout, one or more canonical lines per input line.

    R <start> <count>          for cp in [start, start+count):   A <cp> <0|1> <hex s>      (s = "")
    P <cp> <prefixhex|->       P <cp> <prefix> <0|1> <hex s>                               utf8_append_utf32
    HC <byte>                  HC <byte> <value|nomatch>                                   unhex_char under `xdigit`
    H <c|uc|us|u|ull> <digits|->   H <ty> <digits> <value>                                 unhex_string< I >
    C <c|j> <byte>             C <t> <byte> <replacement byte|nomatch>                     unescape_c under `one<…>`
    U <prefixhex|-> <texthex>  U <prefix> <text> <ok|err|term> <hex s>                     unescape_u  (text = uHHHH / UHHHHHHHH)
    X <prefixhex|-> <texthex>  X <prefix> <text> <ok|term> <hex s>                         unescape_x  (text = xHH)
    J <prefixhex|-> <texthex>  J <prefix> <text> <ok|err|term> <hex s>                     unescape_j  (text = \uHHHH\uHHHH…)
    L <bodyhex|->              L <body> <ok|err|nomatch> <hex s>                           example literal, all actions
-/
import PegtlVerif.Model.Unescape
open Pegtl.Unescape

def hexDigit (n : Nat) : Char :=
  if n < 10 then Char.ofNat (48 + n) else Char.ofNat (87 + n)

def hexOf (bs : List UInt8) : String :=
  if bs.isEmpty then "-" else
  String.ofList (bs.foldr (fun b acc => hexDigit (b.toNat / 16) :: hexDigit (b.toNat % 16) :: acc) [])

def nibble (c : Char) : Nat :=
  let n := c.toNat
  if 48 ≤ n ∧ n ≤ 57 then n - 48 else if 97 ≤ n ∧ n ≤ 102 then n - 87 else if 65 ≤ n ∧ n ≤ 70 then n - 55 else 0

def unhexBytes (s : String) : List UInt8 :=
  if s == "-" then [] else
  let rec go : List Char → List UInt8
    | a :: b :: rest => UInt8.ofNat (nibble a * 16 + nibble b) :: go rest
    | _ => []
  go s.toList

def tyWidth (t : String) : Nat :=
  if t == "c" ∨ t == "uc" then 8 else if t == "us" then 16 else if t == "u" then 32 else 64

def resStr : Option (Bool × List UInt8) → String
  | none => "term -"
  | some (true, s) => "ok " ++ hexOf s
  | some (false, s) => "err " ++ hexOf s

def handle (out : IO.FS.Stream) (w : List String) : IO Unit := do
  match w with
  | ["R", a, n] =>
    let a := a.toNat!
    let n := n.toNat!
    for i in [0:n] do
      let cp := a + i
      let (ok, s) := utf8AppendUtf32 [] cp
      out.putStrLn s!"A {cp} {if ok then 1 else 0} {hexOf s}"
  | ["P", cp, pre] =>
    let (ok, s) := utf8AppendUtf32 (unhexBytes pre) cp.toNat!
    out.putStrLn s!"P {cp} {pre} {if ok then 1 else 0} {hexOf s}"
  | ["HC", b] =>
    match unhexChar (UInt8.ofNat b.toNat!) with
    | some v => out.putStrLn s!"HC {b} {v}"
    | none => out.putStrLn s!"HC {b} nomatch"
  | ["H", t, ds] =>
    let bs := if ds == "-" then [] else ds.toList.map (fun c => UInt8.ofNat c.toNat)
    match unhexString (tyWidth t) bs with
    | some v => out.putStrLn s!"H {t} {ds} {v}"
    | none => out.putStrLn s!"H {t} {ds} term"
  | ["C", t, b] =>
    let (q, r) := if t == "j" then (jEscQ, jEscR) else (cEscQ, cEscR)
    match unescapeC q r [UInt8.ofNat b.toNat!] [] with
    | some [v] => out.putStrLn s!"C {t} {b} {v.toNat}"
    | _ => out.putStrLn s!"C {t} {b} nomatch"
  | ["U", pre, txt] =>
    out.putStrLn s!"U {pre} {txt} {resStr (unescapeU (unhexBytes txt) (unhexBytes pre))}"
  | ["X", pre, txt] =>
    out.putStrLn s!"X {pre} {txt} {resStr ((unescapeX (unhexBytes txt) (unhexBytes pre)).map (fun s => (true, s)))}"
  | ["J", pre, txt] =>
    -- the grammar `seq< one<'\\'>, json::unicode, eof >` hands `unescape_j` everything after the backslash
    out.putStrLn s!"J {pre} {txt} {resStr (unescapeJ ((unhexBytes txt).drop 1) (unhexBytes pre))}"
  | ["L", body] =>
    let bs := unhexBytes body
    match literalBody (bs.length + 1) bs [] with
    | none => out.putStrLn s!"L {body} nomatch -"
    | r => out.putStrLn s!"L {body} {resStr r}"
  | [] => pure ()
  | [""] => pure ()
  | _ => out.putStrLn "?"

partial def loop (inp out : IO.FS.Stream) : IO Unit := do
  let line ← inp.getLine
  if line.isEmpty then return
  handle out (line.trimAscii.toString.splitOn " ")
  loop inp out

def main : IO Unit := do
  let inp ← IO.getStdin
  let out ← IO.getStdout
  loop inp out
  out.flush
