/-
  Props/C04.lean — property C04: "Actions fire once per surviving successful match with the exact
  matched span".

  Reading of the statement in the model.  Every `Control< Rule >::match` invocation is a bracket
  `enter … exit r` in the trace, and (C08) the bracket's `r` is what the invocation returned.  "The
  action invocations belonging to matches that are part of the final derivation" are the action
  events inside no failed or aborted bracket: `survOf raw` — the transactional reading of the trace.

  * `C04_surviving`: the survivors the model computes compositionally (`r.surv`: on a match, the
    survivors of the sub-matches in completion order followed by the rule's own action; nothing on
    failure) are exactly `survOf r.raw`; and (`C04_fail_drops`) a failing invocation contributes none.
  * `C04_once_with_span`: for a rule visible to the control, `match()` calls the action exactly when
    the body matched and an action is enabled for the rule, exactly once, after all inner events,
    with the span from the cursor at which the attempt started to the current cursor.
  * `C04_disabled`: with actions disabled (`apply_mode::nothing` — inside `at`, `not_at`, `disable`) no
    action is invoked, unless an `enable` rule / `enable_action` switches them on again.
  * `C04_veto`: a `bool` action returning false turns the match into a local failure, its `failure`
    hook is reported, and the cursor is restored to the start of the match for every rewind mode.
-/
import PegtlVerif.Lemmas.Surv
import PegtlVerif.Lemmas.RawClosureA
import PegtlVerif.Props.C02
import PegtlVerif.Props.C08

namespace Pegtl.C04

/-- The surviving actions are exactly the action events of the trace outside every failed or
    aborted invocation, in order. -/
theorem C04_surviving (cx : Ctx) (n i : Nat) (a : AMode) (m : RMode) (env : Env) (st : St) (r : Ret)
    (h : run cx n i a m env st = some r) : r.surv = survOf r.raw :=
  (run_surv_eq cx n i a m env st r h).symm

/-- An invocation that fails locally or is aborted by an exception contributes no surviving action. -/
theorem C04_fail_drops (cx : Ctx) (n i : Nat) (a : AMode) (m : RMode) (env : Env) (st : St) (r : Ret)
    (h : run cx n i a m env st = some r) (hne : r.res ≠ .ok) : r.surv = [] :=
  (run_sv cx n i a m env st r h).2 hne

/-- Once, after the match, with the exact span: this is `C08_protocol` read for the action call.
    On a match of a visible rule whose action accepts, the trace of the invocation ends with the
    body's events, then the single action event `actEvent` carrying the reported start-of-match and
    current positions, then `success`; and that event is the last surviving action. -/
theorem C04_once_with_span (cx : Ctx) (n i : Nat) (nd : Node) (a : AMode) (m : RMode) (env : Env) (st : St) (r : Ret)
    (hn : cx.g[i]? = some nd) (hc : nd.ctl = true) (hw : (cx.actOf env i nd).wrap = .none)
    (h : run cx (n + 1) i a m env st = some r) (hok : r.res = .ok)
    (hact : hasAction a (cx.actOf env i nd) = true) :
    ∃ r0 : Ret, r0.res = .ok ∧
      r.raw = Ev.enter i a m (cx.rep st.cur) env.ctl :: Ev.start i (cx.rep st.cur) env.ctl :: r0.raw ++
        [actEvent cx i (cx.actOf env i nd) env.sd st.cur r0.st.cur, Ev.success i (cx.rep r0.st.cur)] ++
        [Ev.exit i 1 (cx.rep r.st.cur)] ∧
      r.surv = r0.surv ++ [actEvent cx i (cx.actOf env i nd) env.sd st.cur r0.st.cur] ∧
      r.st.cur = r0.st.cur := by
  simp only [run, nodeCall, hn, hw, nodeCore, hc, Bool.not_true, Bool.false_eq_true, if_false,
    Option.map_eq_some_iff] at h
  obtain ⟨r1, ⟨r0, h0, rfl⟩, rfl⟩ := h
  simp only [bracket_res, guardRestore_res] at hok
  refine ⟨r0, ?_⟩
  unfold afterBody at hok ⊢
  simp only [actionOutcome_withCtl, actEvent_withCtl, Ctx.withCtl_rep, Ctx.withCtl_unwind] at hok ⊢
  cases hr : r0.res with
  | thr e => simp [hr] at hok
  | fail => simp only [hr] at hok; exact absurd hok (failureHook_res_ne_ok _ _ _ _)
  | ok =>
    simp only [hr] at hok ⊢
    have hno : actionOutcome cx i a (cx.actOf env i nd) st.cur r0.st.cur ≠ .noAction := by
      unfold actionOutcome
      simp only [hact, if_true]
      (repeat' split) <;> simp
    cases ho : actionOutcome cx i a (cx.actOf env i nd) st.cur r0.st.cur with
    | noAction => exact absurd ho hno
    | throws => simp [ho] at hok
    | vetoes => simp only [ho] at hok; exact absurd hok (failureHook_res_ne_ok _ _ _ _)
    | accepts =>
      refine ⟨trivial, ?_, ?_, ?_⟩
      · simp [bracket, guardRestore, Ret.dropOnFail, hr, Res.code]
      · simp [bracket, guardRestore, Ret.dropOnFail, hr]
      · simp [bracket, guardRestore, Ret.dropOnFail, hr]

/-- No action event inside sections with actions disabled — neither of a rule's attached action nor of the action classes
    named by `apply< … >` / `if_apply< R, … >`. -/
def NoActs (l : List Ev) : Prop :=
  ∀ e ∈ l, (∀ i sd b c, e ≠ Ev.apply i sd b c) ∧ (∀ i sd c, e ≠ Ev.apply0 i sd c) ∧ (∀ i sd b c, e ≠ Ev.ruleApply i sd b c)

theorem NoActs_closed : RawClosedE (fun _ => NoActs) where
  nil := by intro _ e he; simp at he
  app := by
    intro _ a b ha hb e he
    simp only [List.mem_append] at he
    rcases he with he | he
    · exact ha e he
    · exact hb e he
  raise := by
    intro _ i c e he
    simp only [List.mem_singleton] at he; subst he; simp
  fam := id
  ctlf := id
  scope := by
    intro env l o ho h e he
    simp only [List.cons_append, List.append_assoc, List.mem_cons, List.mem_append, List.not_mem_nil, or_false] at he
    rcases he with he | he | he | he
    · subst he; simp
    · exact h e he
    · rcases ho with rfl | ⟨c, rfl⟩
      · simp at he
      · simp only [List.mem_singleton] at he; subst he; simp
    · subst he; simp

theorem NoActs.scope {l : List Ev} (h : NoActs l) (cx : Ctx) (o : Nat) (b : Bool) (r : Ret) (hl : r.raw = l) :
    NoActs (stateScope cx o b r).raw := by
  subst hl
  intro e he
  unfold stateScope at he
  simp only [List.cons_append, List.mem_cons, List.mem_append, List.append_assoc, List.not_mem_nil, or_false] at he
  rcases he with he | he | he | he
  · subst he; simp
  · exact h e he
  · split at he
    · simp only [List.mem_singleton] at he; subst he; simp
    · simp at he
  · subst he; simp

/-- The table never switches actions back on. -/
def NoEnable (cx : Ctx) : Prop :=
  (∀ (i : Nat) (nd : Node) (c : Nat), cx.g[i]? = some nd → nd.kind ≠ .enable c) ∧
  (∀ (env : Env) (i : Nat) (nd : Node), cx.g[i]? = some nd → (cx.actOf env i nd).wrap ≠ .enableAction)

theorem C04_disabled (cx : Ctx) (hne : NoEnable cx) : ∀ (n i : Nat) (m : RMode) (env : Env) (st : St) (r : Ret),
    run cx n i .nothing m env st = some r → NoActs r.raw := by
  intro n
  induction n with
  | zero => intro i m env st r h; simp [run] at h
  | succ n ih =>
    intro i m env st r h
    have hrec : QRecA NoActs (fun i a m env st => run cx n i a m env st) .nothing := fun j m env st r h => ih j m env st r h
    simp only [run, nodeCall] at h
    split at h
    · exact absurd h (by simp)
    · rename_i nd hn
      simp only [Option.map_eq_some_iff] at h
      obtain ⟨r0, h0, rfl⟩ := h
      have hcore : ∀ ee st' r1, nodeCore cx (fun i a m env st => run cx n i a m env st) n i nd .nothing m ee st' = some r1 →
          NoActs r1.raw := by
        intro ee st' r1 h1
        unfold nodeCore at h1
        have hb : ∀ mm r2, body cx (fun i a m env st => run cx n i a m env st) n nd.kind .nothing mm ee st' = some r2 →
            NoActs r2.raw := fun mm r2 h2 =>
          body_rawA NoActs_closed cx n nd.kind .nothing hrec hrec
            (fun ⟨c, hk⟩ => absurd hk (hne.1 i nd c hn)) mm ee (fun h => absurd h (by simp)) st' r2 h2
        split at h1
        · exact hb _ _ h1
        · simp only [Option.map_eq_some_iff] at h1
          obtain ⟨r2, h2, rfl⟩ := h1
          have q2 := hb _ _ h2
          intro e he
          simp only [guardRestore_raw, List.mem_cons] at he
          rcases he with he | he
          · subst he; simp
          · -- afterBody with actions disabled adds only success / failure / unwind
            unfold afterBody at he
            simp only [actionOutcome_withCtl, actEvent_withCtl, Ctx.withCtl_rep, Ctx.withCtl_unwind] at he
            split at he
            · simp only [List.mem_append] at he
              rcases he with he | he
              · exact q2 e he
              · by_cases hu : cx.unwindOf ee.ctl = true
                · simp only [hu, if_true, List.mem_singleton] at he; subst he; simp
                · simp [hu] at he
            · have key : NoActs (failureHook (cx.withCtl ee.ctl) i r2.st.cur r2).raw :=
                failureHook_raw_closed (Q := NoActs) (fun ha hb => NoActs_closed.app (env := {}) ha hb)
                  (by intro e he; simp only [List.mem_singleton] at he; subst he; simp)
                  (fun _ => by intro e he; simp only [List.mem_singleton] at he; subst he; simp) q2
              exact key e he
            · have hno : actionOutcome cx i .nothing (cx.actOf ee i nd) st'.cur r2.st.cur = .noAction := by
                simp [actionOutcome, hasAction]
              simp only [hno, List.mem_append, List.mem_singleton] at he
              rcases he with he | he
              · exact q2 e he
              · subst he; simp
      have hinner : NoActs r0.raw := by
        split at h0
        · exact hcore _ _ _ h0
        · exact ih _ _ _ _ _ h0
        · exact hcore _ _ _ h0
        · rename_i hw; exact absurd hw (hne.2 env i nd hn)
        · unfold limitDepthCall at h0
          split at h0
          · simp only [Option.some.injEq] at h0; subst h0
            intro e he; simp only [List.mem_singleton] at he; subst he; simp
          · simp only [Option.map_eq_some_iff] at h0
            obtain ⟨r1, h1, rfl⟩ := h0
            exact hcore _ _ r1 h1
        · unfold limitBytesCall at h0
          simp only [Option.map_eq_some_iff] at h0
          obtain ⟨r1, h1, rfl⟩ := h0
          have q := hcore _ _ r1 h1
          split
          · intro e he
            simp only [List.mem_append, List.mem_singleton] at he
            rcases he with he | he
            · exact q e he
            · subst he; simp
          · exact q
        · simp only [Option.map_eq_some_iff] at h0
          obtain ⟨r1, h1, rfl⟩ := h0
          exact (hcore _ _ r1 h1).scope cx _ _ r1 rfl
        · simp only [Option.map_eq_some_iff] at h0
          obtain ⟨r1, h1, rfl⟩ := h0
          exact (ih _ _ _ _ _ h1).scope cx _ _ r1 rfl
        · exact hcore _ _ _ h0
      intro e he
      simp only [bracket, dropOnFail_raw, List.mem_cons, List.mem_append, List.mem_singleton] at he
      rcases he with (he | he) | he
      · subst he; simp
      · exact hinner e he
      · rcases he with he | he
        · subst he; simp
        · simp at he

/-- **`if_apply< R, A... >`** (the rule-level way to attach actions).  With actions enabled and at least one action named:
    `R` is attempted with actions enabled; only if it matched are `A₁ … Aₙ` called, in this order, after all of `R`'s
    events, each with the span from where `if_apply` was entered to where `R` stopped; the first `false` makes the whole
    rule a local failure and an exception propagates; whenever the result is not success the cursor is back at the start
    (a `required` guard of its own, whatever mode was requested).  With actions disabled it is just `R`. -/
theorem C04_if_apply (cx : Ctx) (rec : Rec) (k : Nat) (c : Nat) (acts : List RuleAct) (a : AMode) (m : RMode) (env : Env)
    (st : St) (r : Ret) (h : body cx rec k (.ifApply c acts) a m env st = some r) :
    (a = .action ∧ acts ≠ [] →
      ∃ r0, rec c .action .optional env st = some r0 ∧
        (r0.res = .ok →
          r.raw = r0.raw ++ (runActs cx env.sd st.cur r0.st.cur acts).2 ∧ r.res = (runActs cx env.sd st.cur r0.st.cur acts).1 ∧
          (r.res = .ok → r.st = r0.st ∧ r.surv = r0.surv ++ (runActs cx env.sd st.cur r0.st.cur acts).2) ∧
          (r.res ≠ .ok → r.st.cur = st.cur ∧ r.surv = [])) ∧
        (r0.res ≠ .ok → r.raw = r0.raw ∧ r.res = r0.res ∧ r.st.cur = st.cur)) ∧
    (¬(a = .action ∧ acts ≠ []) → rec c a m env st = some r) := by
  simp only [body] at h
  refine ⟨fun hc => ?_, fun hc => ?_⟩
  · rw [if_pos hc] at h
    simp only [Option.map_eq_some_iff] at h
    obtain ⟨r0, h0, rfl⟩ := h
    refine ⟨r0, h0, fun hok => ?_, fun hnok => ?_⟩
    · simp only [hok]
      refine ⟨by simp, by simp, fun hr => ?_, fun hr => ?_⟩
      · simp only [dropOnFail_res, guardRestore_res] at hr
        simp [Ret.dropOnFail, guardRestore, hr]
      · simp only [dropOnFail_res, guardRestore_res] at hr
        simp [Ret.dropOnFail, guardRestore, hr]
    · cases hr : r0.res with
      | ok => exact absurd hr hnok
      | fail => simp [hr, Ret.dropOnFail, guardRestore]
      | thr x => simp [hr, Ret.dropOnFail, guardRestore]
  · rw [if_neg hc] at h
    exact h

/-- The calls made by `apply< A... >` / `if_apply`: one `ruleApply` event per action reached, in order; nothing after the
    first `false` or exception. -/
theorem C04_runActs_shape (cx : Ctx) (sd : Nat) (b e : Cursor) (acts : List RuleAct) :
    ∃ n, n ≤ acts.length ∧
      (runActs cx sd b e acts).2 = (acts.take n).map (fun x => Ev.ruleApply x.id sd (cx.rep b) (cx.rep e)) ∧
      ((runActs cx sd b e acts).1 = .ok → n = acts.length) := by
  induction acts with
  | nil => exact ⟨0, by simp, by simp [runActs], fun _ => rfl⟩
  | cons x xs ih =>
    obtain ⟨n, hn, hev, hok⟩ := ih
    simp only [runActs]
    split
    · exact ⟨1, by simp, by simp, fun h => by simp at h⟩
    · split
      · exact ⟨1, by simp, by simp, fun h => by simp at h⟩
      · exact ⟨n + 1, by simpa using hn, by simp [hev], fun h => by simp [hok h]⟩

/-- A vetoing `bool` action: local failure, `failure` hook, cursor back at the start of the match —
    whatever rewind mode was requested. -/
theorem C04_veto (cx : Ctx) (n i : Nat) (nd : Node) (a : AMode) (m : RMode) (env : Env) (st : St) (r : Ret)
    (hn : cx.g[i]? = some nd) (hc : nd.ctl = true) (hw : (cx.actOf env i nd).wrap = .none) (hm : i ∉ cx.msgs)
    (h : run cx (n + 1) i a m env st = some r)
    (hv : ∀ r0 : Ret, actionOutcome cx i a (cx.actOf env i nd) st.cur r0.st.cur = .vetoes ∨ r0.res ≠ .ok)
    : r.res ≠ .ok ∧ (r.res = .fail → r.st.cur = st.cur ∨ useGuard a (cx.actOf env i nd) = false) := by
  obtain ⟨r0, tail, hraw, hcase⟩ := C08.C08_protocol cx n i nd a m env st r hn hc hw hm h
  rcases hv r0 with hveto | hnok
  · cases hr : r0.res with
    | ok =>
      simp only [hr, hveto] at hcase
      refine ⟨by simp [hcase.2], fun hf => Or.inl ?_⟩
      exact C02.C02_action_guard cx (n + 1) i a m env st r nd hn hc hw (actionOutcome_vetoes _ _ _ _ _ _ hveto) h hf
    | fail => simp only [hr] at hcase; exact ⟨by simp [hcase.2], fun _ => by
        by_cases hg : useGuard a (cx.actOf env i nd) = true
        · exact Or.inl (C02.C02_action_guard cx (n + 1) i a m env st r nd hn hc hw hg h hcase.2)
        · exact Or.inr (by simpa using hg)⟩
    | thr e => simp only [hr] at hcase; exact ⟨by simp [hcase.2, hr], fun hf => by simp [hcase.2, hr] at hf⟩
  · cases hr : r0.res with
    | ok => exact absurd hr hnok
    | fail => simp only [hr] at hcase; exact ⟨by simp [hcase.2], fun _ => by
        by_cases hg : useGuard a (cx.actOf env i nd) = true
        · exact Or.inl (C02.C02_action_guard cx (n + 1) i a m env st r nd hn hc hw hg h hcase.2)
        · exact Or.inr (by simpa using hg)⟩
    | thr e => simp only [hr] at hcase; exact ⟨by simp [hcase.2, hr], fun hf => by simp [hcase.2, hr] at hf⟩

/-! ### Non-vacuity -/

/-- `S = seq< A, opt< seq< A, B > > >`, `A = one<'a'>` (apply), `B = one<'b'>` (bool apply0 vetoing at end 2),
    `L = seq< at< S >, S >`. -/
def exG : Grammar := #[
  ⟨true, { kind := .apply }, .seq [1, 2]⟩,
  ⟨true, { kind := .apply }, .atom (.one true [97])⟩,
  ⟨false, {}, .partialR [3]⟩,
  ⟨false, {}, .seq [1, 4]⟩,
  ⟨true, { kind := .apply0, isBool := true, vetoMod := 8 }, .atom (.one true [98])⟩,
  ⟨true, {}, .seq [6, 0]⟩,
  ⟨false, {}, .atR 0⟩]

/-- "aab": inside `at` nothing fires; then A(0,1), A(1,2), B(2,3), S(0,3) survive in completion order. -/
example : ∃ r, parseTop { g := exG, inp := #[97, 97, 98] } 12 5 .action .required = some r ∧ r.res = .ok ∧
    r.surv = [.apply 1 0 ⟨0, 1, 1⟩ ⟨1, 1, 2⟩, .apply 1 0 ⟨1, 1, 2⟩ ⟨2, 1, 3⟩, .apply0 4 0 ⟨3, 1, 4⟩, .apply 0 0 ⟨0, 1, 1⟩ ⟨3, 1, 4⟩] ∧
    survOf r.raw = r.surv := by decide +kernel

/-- "aac": the second `A` matched and its action fired, but `seq< A, B >` failed: only A(0,1) and S(0,1) survive. -/
example : ∃ r, parseTop { g := exG, inp := #[97, 97, 99] } 12 0 .action .required = some r ∧ r.res = .ok ∧
    r.surv = [.apply 1 0 ⟨0, 1, 1⟩ ⟨1, 1, 2⟩, .apply 0 0 ⟨0, 1, 1⟩ ⟨1, 1, 2⟩] ∧
    (r.raw.filter fun e => match e with | .apply _ _ _ _ => true | _ => false).length = 3 := by decide +kernel

end Pegtl.C04
