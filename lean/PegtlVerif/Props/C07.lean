/-
  Props/C07.lean — C07: parse results do not depend on the input class, buffering or chunking.

  "Parsing the same bytes through a memory input …, or an incremental stream/buffer input with
   any chunk size and any reader read-size pattern yields the same result, consumed length,
   action trace, positions and errors.  With a buffer too small for the look-ahead the grammar
   performs, the only permitted deviation is a std::overflow_error; it is never a different
   match result or memory corruption."

  Model: Model/Buffer.lean transcribes `buffer_input< Reader, Eol, Source, Chunk >`
  (`require`, `size`, `empty`, `end`, `peek_*`, `bump*`, `discard`, `rewind_save/restore`) over
  offsets into the allocation `mem` of `maximum + Chunk` bytes.  The reader is the stream
  `b.stream` plus an ARBITRARY schedule `b.sched : List Nat` of short reads: each call returns
  `min request (max s 1) remaining` — 1..n bytes per call, zero only at the end.  Every theorem
  below quantifies over every `Buffer` satisfying the invariant, hence over every schedule,
  every `maximum`, every `Chunk`, every stream and every reachable window position.

  The other input classes of the property (`string_input`, `read_input`, `mmap_input`,
  `file_input`, `argv_input`) ARE `memory_input`s over bytes obtained elsewhere; for them there
  is nothing to prove about the matcher, only "same bytes", which the check explores
  (vlib/c07.py part 3), as it does `fread`/`mmap`/page-boundary behaviour.

  The memory side is `Model/Input.lean`: `b.memCtx` is the `memory_input` over the whole stream
  and `b.view` its state at the same logical position (byte, line, column).

  What is proved for whole runs: `C07_run_sim_partial` — every atom's `match( in )` over the
  buffer, from any invariant state and for every schedule, either throws `overflow_error` or
  returns exactly the result and the position `atomStep` returns for the memory input, and
  re-establishes the invariant.  The lifting through the 25 combinator bodies of `Model/Run.lean`
  is NOT proved: `run` is written over the memory state `St`, not over an abstract input, so the
  lifting needs `run` to be re-stated over an input interface plus a ghost epoch for "no
  inputerator saved before a `discard` is restored after it" (`C07_discard_invalidates` is the
  fact that makes that side condition necessary).  The combinators touch the input only through
  `rewind_save`/`rewind_restore` (`C07_rewind`) and the atoms, which is why the atom theorem is
  the essential part; the whole-run claim itself is covered by the differential run.
-/
import PegtlVerif.Lemmas.Buffer

namespace Pegtl
namespace C07
open Buf

/-! ### Concrete instances used by the non-vacuity examples -/

/-- Stream `"ab\ncdefgh"`, `maximum = 3`, `Chunk = 2` (capacity 5), reader returning 1, 2, 1, 1, … bytes. -/
def exB : Buffer := Buffer.init #[97, 98, 10, 99, 100, 101, 102, 103, 104] [1, 2, 1, 1, 1, 1, 1, 1, 1] 3 2

/-- `exB` after `require( 4 )`, `bump( 3 )`: window `mem[0..4) = "ab\nc"`, cursor at data 3, line 2. -/
def exB3 : Buffer := ((exB.require 4).2).bump 3

example : (exB.require 4).1 = .done ∧ (exB.require 4).2.endb = 4 ∧ (exB.require 4).2.sched = [1, 1, 1, 1, 1, 1] := by decide
example : exB3.cur = ⟨3, 3, 2, 1⟩ ∧ exB3.occupied = 1 ∧ exB3.logicalPos = 3 := by decide

/-! ### The invariant -/

/-- A freshly constructed `buffer_input` satisfies the invariant. -/
theorem C07_inv_init (stream : Array UInt8) (sched : List Nat) (maximum chunk : Nat) (eol : Eol) :
    Inv (Buffer.init stream sched maximum chunk eol) :=
  init_inv stream sched maximum chunk eol

/-- Every operation of the input interface, used within its contract (`bump*` only over bytes made
    available before, `rewind_restore` only with an inputerator not invalidated by a `discard`),
    keeps the invariant: `m_current.data ≤ m_end ≤ m_buffer + m_maximum`, `buffer[k] = stream[base+k]`
    for every `k` below `m_end`, the window ends exactly where the reader stands, the byte counter
    is the logical position, and nothing was ever written (or `memmove`d) outside the allocation. -/
theorem C07_inv (b : Buffer) (op : Op) (h : Inv b) (hl : op.Legal b) : Inv (b.step op).2 :=
  step_inv b op h hl

example : Inv exB := C07_inv_init _ _ _ _ _
example : Inv (exB.step (.require 4)).2 := C07_inv _ _ (C07_inv_init _ _ _ _ _) trivial
example : (Op.bump 3).Legal (exB.step (.require 4)).2 := by decide
example : Inv exB3 := (bump_spec _ 3 (C07_inv exB (.require 4) (C07_inv_init _ _ _ _ _) trivial) (by decide)).1

/-- Hence every state reachable from a fresh input by calls within their contracts satisfies it. -/
theorem C07_inv_reach (b : Buffer) (h : Inv b) (ops : List Op) (b' : Buffer) (hr : b.runOps ops = some b') : Inv b' := by
  induction ops generalizing b with
  | nil => simp only [Buffer.runOps] at hr; cases hr; exact h
  | cons op ops ih =>
    simp only [Buffer.runOps] at hr
    by_cases hl : op.Legal b
    · rw [if_pos hl] at hr; exact ih (b.step op).2 (C07_inv b op h hl) hr
    · rw [if_neg hl] at hr; cases hr

example : (exB.runOps [.require 4, .bump 3, .discard, .size 3, .peek 2, .bump 3, .empty]).map (·.logicalPos) = some 6 := by decide

/-! ### `require` for every short-read schedule -/

/-- `require( amount )`, for EVERY schedule of short reads the reader may follow:
    either `std::overflow_error` — exactly when `m_current.data + amount` exceeds the buffer, and
    then nothing at all has changed —, or afterwards the invariant holds, the cursor (hence the
    logical position, line and column), the window origin and the stream are unchanged, every
    byte that was in the window is still there, and `min( amount, remaining )` bytes are
    available (never more than remain in the stream). -/
theorem C07_require (b : Buffer) (sched : List Nat) (amount : Nat) (h : Inv b) :
    let b0 := { b with sched := sched }
    let r := b0.require amount
    (r.1 = .overflow ∧ b.cur.data + amount > b.maxb ∧ r.2 = b0) ∨
    (r.1 = .done ∧ b.cur.data + amount ≤ b.maxb ∧ Inv r.2 ∧
      r.2.cur = b.cur ∧ r.2.logicalPos = b.logicalPos ∧ r.2.base = b.base ∧ r.2.stream = b.stream ∧
      r.2.occupied ≥ min amount b.remaining ∧ r.2.occupied ≤ b.remaining ∧
      (∀ k, k < b.occupied → r.2.peek k = b.peek k)) := by
  intro b0 r
  have h0 : Inv b0 := ⟨h.alloc, h.cur_le, h.end_le, h.fed_eq, h.fed_le, h.content, h.byte_eq, h.tame⟩
  rcases require_spec b0 amount h0 with hov | ⟨hd, hle, _, _, _⟩
  · exact Or.inl hov
  · have hr : b0.require amount = (.done, r.2) := by
      show b0.require amount = (.done, (b0.require amount).2)
      rw [← hd]
    obtain ⟨hi, hs, hmin, hmax, _⟩ := require_done h0 hr
    exact Or.inr ⟨hd, hle, hi, hs.cur, hs.logicalPos, hs.base, hs.stream, hmin, hmax,
      fun k hk => hs.peek_eq h0 hi k hk⟩

example : (exB.require 4).1 = .done ∧ (exB.require 4).2.occupied = 4 ∧ (exB.require 4).2.fed = 4 := by decide
/-- capacity 5: `require( 6 )` is the overflow case -/
example : (exB.require 6).1 = .overflow ∧ exB.cur.data + 6 > exB.maxb := by decide
/-- at data offset 3 with capacity 5, `require( 3 )` overflows although 6 stream bytes remain -/
example : (exB3.require 3).1 = .overflow ∧ exB3.remaining = 6 := by decide
/-- end of stream: only `remaining` bytes become available -/
example : ((Buffer.init #[1, 2] [1, 1] 8 3).require 5).2.occupied = 2 ∧ (Buffer.init #[1, 2] [1, 1] 8 3).remaining = 2 := by decide

/-! ### The window view equals the memory_input view -/

/-- `size( n )` that does not overflow answers "at least `n` bytes?" exactly like
    `memory_input::size` at the same logical position, never reports more than remain, reports 0
    only at the end of the stream, and leaves the position alone; every `peek` at an offset
    below the returned size reads the byte the memory input reads there, inside its data. -/
theorem C07_window_eq (b b' : Buffer) (n sz : Nat) (h : Inv b) (hs : b.size n = (.done, sz, b')) :
    Inv b' ∧ b'.view = b.view ∧ b'.memCtx = b.memCtx ∧
    (sz ≥ n ↔ b.view.avail ≥ n) ∧ sz ≤ b.view.avail ∧ (0 < n → (sz = 0 ↔ b.view.avail = 0)) ∧
    (∀ off, off < sz → rd b.memCtx b.view off = (b'.peek off, b.view)) := by
  obtain ⟨hi, hsame, hocc, hiff, hle, hz⟩ := size_done h hs
  refine ⟨hi, hsame.view, hsame.memCtx, hiff, hle, hz, fun off ho => ?_⟩
  rw [← hsame.view, ← hsame.memCtx]
  exact peek_view hi (by omega)

/-- `empty()` that does not overflow is `memory_input::empty()`; if it says "not empty" one byte is buffered. -/
theorem C07_window_empty (b b' : Buffer) (e : Bool) (h : Inv b) (he : b.empty = (.done, e, b')) :
    Inv b' ∧ b'.view = b.view ∧ e = b.view.empty ∧ (e = false → 1 ≤ b'.occupied) := by
  obtain ⟨hi, hsame, h1, h2⟩ := empty_done h he
  exact ⟨hi, hsame.view, h1, h2⟩

/-- The three `bump` functions over available bytes are the `memory_input` ones (byte, line and
    column included: the end-of-line scan of `bump` reads window bytes only). -/
theorem C07_bump_eq (b : Buffer) (n : Nat) (h : Inv b) (hn : n ≤ b.occupied) :
    (Inv (b.bump n) ∧ (b.bump n).view = Pegtl.bump b.memCtx b.view n) ∧
    (Inv (b.bumpInThisLine n) ∧ (b.bumpInThisLine n).view = Pegtl.bumpInThisLine b.view n) ∧
    (Inv (b.bumpToNextLine n) ∧ (b.bumpToNextLine n).view = Pegtl.bumpToNextLine b.view n) :=
  ⟨⟨(bump_spec b n h hn).1, (bump_spec b n h hn).2.1⟩, bumpInThisLine_spec b n h hn, bumpToNextLine_spec b n h hn⟩

example : exB3.size 1 = (.done, 1, exB3) ∧ exB3.view.avail = 6 ∧ exB3.peek 0 = 99 := by decide
example : rd exB3.memCtx exB3.view 0 = (99, exB3.view) :=
  (C07_window_eq exB3 exB3 1 1 (bump_spec _ 3 (C07_inv exB (.require 4) (C07_inv_init _ _ _ _ _) trivial) (by decide)).1 (by decide)).2.2.2.2.2.2 0 (by decide)
example : exB3.view = Pegtl.bump exB.memCtx exB.view 3 ∧ exB3.view.cur = ⟨3, 2, 1⟩ := by decide
example : (exB.empty).2.1 = false ∧ ((Buffer.init #[] [] 1 1).empty).2.1 = true := by decide

/-! ### `discard` -/

/-- `discard()` keeps the invariant, the logical position with line and column, the reader, the
    number of available bytes and every unconsumed byte; when it acts (`m_current.data` beyond
    `Chunk`) the consumed prefix becomes free space after the end, otherwise it does nothing. -/
theorem C07_discard (b : Buffer) (h : Inv b) :
    Inv b.discard ∧ b.discard.view = b.view ∧ b.discard.logicalPos = b.logicalPos ∧
    b.discard.occupied = b.occupied ∧ (∀ k, k < b.occupied → b.discard.peek k = b.peek k) ∧
    b.discard.fed = b.fed ∧ b.discard.sched = b.sched ∧
    (b.cur.data > b.chunk → b.discard.cur.data = 0 ∧ b.discard.freeAfterEnd = b.freeAfterEnd + b.cur.data) ∧
    (b.cur.data ≤ b.chunk → b.discard = b) := by
  obtain ⟨a1, a2, _, a4, a5, a6, a7, a8, _, a10, a11⟩ := discard_spec b h
  exact ⟨a1, a2, a4, a5, a6, a7, a8, a10, a11⟩

example : exB3.cur.data > exB3.chunk ∧ exB3.discard.cur = ⟨0, 3, 2, 1⟩ ∧ exB3.discard.endb = 1 ∧
    exB3.discard.base = 3 ∧ exB3.discard.peek 0 = 99 ∧ exB3.discard.freeAfterEnd = 4 := by decide
/-- after the discard the `require( 3 )` that overflowed before succeeds -/
example : (exB3.discard.require 3).1 = .done ∧ (exB3.discard.require 3).2.occupied = 3 := by decide

/-! ### rewind -/

/-- `rewind_save` yields a valid inputerator; topping the window up keeps it valid; restoring a
    valid one keeps the invariant and returns to its logical position. -/
theorem C07_rewind (b : Buffer) (h : Inv b) :
    b.Valid b.save ∧
    (∀ n b', b.require n = (.done, b') → b'.Valid b.save) ∧
    (∀ it, b.Valid it → Inv (b.restore it) ∧ (b.restore it).logicalPos = it.byte) :=
  ⟨save_valid b h, fun _ _ hr => (require_done h hr).2.1.valid (save_valid b h), fun it hv => restore_spec b it h hv⟩

/-- Why `discard` is documented as unsafe where backtracking may follow: a discard that moves
    the window invalidates every inputerator saved before it. -/
theorem C07_discard_invalidates (b : Buffer) (it : It) (hv : b.Valid it) (hc : b.cur.data > b.chunk) :
    ¬ b.discard.Valid it :=
  discard_invalidates b it hv hc

example : exB3.Valid exB3.save ∧ (exB.require 4).2.Valid exB.save ∧ ¬ exB3.discard.Valid exB3.save := by decide

/-! ### Whole runs: the part that is proved (atoms) -/

/-- `C07_run_sim`, restricted to the rules that touch the input (`_partial`: see the header).
    For every atom — `any`, `one`/`not_one`, `range`/`not_range`, `ranges`, `string`, `istring`, `bytes`,
    `eof`, `bof`, `bol`, `eol` and `eolf` under each of the five end-of-line policies, `success`, `failure`,
    `everything`, `require`, contrib's `rep_one_min_max` (its counting loop over `in.size( Max + 1 )` bytes, which on a
    buffer may be MORE than `Max + 1`), `utf8::range` / `utf8::not_range` (through `peek_utf8`: `empty()`, then the one
    `in.size( 2 | 3 | 4 )` call that the first byte selects, either of which may throw), i.e. every atom of the matcher model
    except contrib's `integer::maximum_rule` (`Atom.overBuffer`) — its `match( in )` over a buffer input in ANY invariant state (any
    maximum, Chunk, window position, reader schedule) either ends in `std::overflow_error` (the
    invariant still holds: no corruption), or returns exactly the result that the same atom returns
    over the memory input holding the whole stream at the same logical position, leaves the input at
    exactly the position (byte, line, column) the memory input is left at, the memory run reads
    nothing outside its data (`oob` stays false), and the invariant holds again — so the next rule
    starts from a state to which this theorem applies anew. -/
theorem C07_run_sim_partial (a : Atom) (b : Buffer) (h : Inv b) (ha : a.overBuffer = true) :
    match atomStepBuf a b with
    | (.overflow, _, b') => Inv b'
    | (.done, r, b') => Inv b' ∧ b'.memCtx = b.memCtx ∧ atomStep b.memCtx a b.view = (r, b'.view) :=
  atom_sim a b h ha

example : (Atom.string [99, 100, 101]).overBuffer = true ∧ Atom.everything.overBuffer = true ∧ Atom.eol.overBuffer = true ∧
    (Atom.repOne 1 3 100).overBuffer = true ∧ (Atom.utf8Range true 128 2047).overBuffer = true := by decide
/-- `rep_one_min_max` on "aaaba" with 5 bytes already buffered: `in.size( 3 )` answers 5, not 3 — `< 1, 2, 'a' >` counts 3 > Max and
    fails where the memory input (which looks at 3 bytes) counts 3 > Max and fails too; `< 1, 3, 'a' >` matches and leaves both at 3. -/
def exA : Buffer := ((Buffer.init #[97, 97, 97, 98, 97] [] 8 8).require 5).2
example : exA.occupied = 5 ∧ (atomStepBuf (.repOne 1 2 97) exA).2.1 = false ∧ (atomStep exA.memCtx (.repOne 1 2 97) exA.view).1 = false ∧
    (atomStepBuf (.repOne 1 3 97) exA).2.1 = true ∧ (atomStepBuf (.repOne 1 3 97) exA).2.2.cur.byte = 3 ∧
    (atomStep exA.memCtx (.repOne 1 3 97) exA.view).2.cur.pos = 3 := by decide
/-- `utf8::range< 0x80, 0x7FF >` on "ä€" (c3 a4 e2 82 ac) fed byte by byte into a buffer of 2 + 1 bytes: matches the two bytes of "ä" (the
    reader is called twice), then fails on the three-byte "€" as on memory; `utf8::range< 0, 0x10FFFF >` there needs 3 bytes behind data
    offset 2 of a 3-byte allocation: `std::overflow_error`. -/
def exU : Buffer := Buffer.init #[0xc3, 0xa4, 0xe2, 0x82, 0xac] [1, 1, 1, 1, 1] 2 1
example : (atomStepBuf (.utf8Range true 0x80 0x7FF) exU).1 = .done ∧ (atomStepBuf (.utf8Range true 0x80 0x7FF) exU).2.1 = true ∧
    (atomStepBuf (.utf8Range true 0x80 0x7FF) exU).2.2.cur.byte = 2 ∧ (atomStepBuf (.utf8Range true 0x80 0x7FF) exU).2.2.fed = 2 ∧
    (atomStep exU.memCtx (.utf8Range true 0x80 0x7FF) exU.view).2.cur.pos = 2 ∧
    (atomStepBuf (.utf8Range true 0 0x10FFFF) (atomStepBuf (.utf8Range true 0x80 0x7FF) exU).2.2).1 = .overflow := by decide
/-- `string< 'c', 'd', 'e' >` at logical position 3 of `exB` after the discard: matches, the reader
    (1 byte per call) is called as often as needed, the position advances to 6 on both sides. -/
example : (atomStepBuf (.string [99, 100, 101]) exB3.discard).1 = .done ∧
    (atomStepBuf (.string [99, 100, 101]) exB3.discard).2.1 = true ∧
    (atomStepBuf (.string [99, 100, 101]) exB3.discard).2.2.view.cur = ⟨6, 2, 4⟩ ∧
    atomStep exB3.memCtx (.string [99, 100, 101]) exB3.view = (true, (atomStepBuf (.string [99, 100, 101]) exB3.discard).2.2.view) := by decide
/-- without the discard the same rule overflows (capacity 5, cursor at data offset 3) -/
example : (atomStepBuf (.string [99, 100, 101]) exB3).1 = .overflow := by decide
/-- `everything` on a stream that fits: consumes all 9 bytes through 1- and 2-byte reads -/
example : (atomStepBuf .everything (Buffer.init exB.stream exB.sched 16 2)).1 = .done ∧
    (atomStepBuf .everything (Buffer.init exB.stream exB.sched 16 2)).2.2.view.cur = ⟨9, 2, 7⟩ := by decide
/-- `eol` (policy lf_crlf) at the LF of `exB` -/
example : (atomStepBuf .eol ((exB.require 2).2.bump 2)).2.1 = true ∧
    (atomStepBuf .eol ((exB.require 2).2.bump 2)).2.2.view.cur = ⟨3, 2, 1⟩ := by decide

end C07
end Pegtl
