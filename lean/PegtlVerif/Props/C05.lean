/-
  Props/C05.lean — property C05: "Global failure: identity, position, propagation and conversion
  of exceptions".

  * identity — `C05_blame`: a parse_error leaving a run blames exactly the rule the PEG formalism
    with labelled failures blames, i.e. (the formalism being deterministic and evaluating left to
    right) the first `must`/`raise` reached in evaluation order.
  * propagation — `C05_origin`: an exception leaving any invocation was created inside that
    invocation — a parse_error at a `raise` event for the same rule *with the same position*, a
    foreign exception by an action call of that rule — so it passed every combinator in between
    unchanged.  `C05_catch_false` / `C05_catch_nested`: the `try_catch` family converts exactly the
    exception classes it names.
  * position — `C05_must_position`: `must< R >` raises at the point where `R`'s attempt ended, which is
    not before where it began (and is the position of that attempt's own exit observation);
    `C05_position_consistent`: byte, line and column of the error are mutually consistent — they are
    the scan position of a consumed prefix.
  The `what()` string (`source:line:column: message`) is assembled by C++ string code that is not
  modelled; the harness compares it on every observed parse_error.
-/
import PegtlVerif.Lemmas.SemRun
import PegtlVerif.Lemmas.SemDet
import PegtlVerif.Lemmas.TraceInv
import PegtlVerif.Lemmas.WftCheck

namespace Pegtl.C05
open Pegtl.Spec

/-- The blamed rule is the one the formalism blames. -/
theorem C05_blame (cx : Ctx) (wf : WFT cx) (n i : Nat) (a : AMode) (m : RMode) (env : Env) (st : St) (r : Ret)
    (x : Exc) (hv : Valid cx st) (h : run cx n i a m env st = some r) (hx : r.res = .thr x) :
    ∃ b, blameOf x = some b ∧ SemC cx st.endp (.ref i) st.cur.pos (.err b) ∧
      ∀ o, SemC cx st.endp (.ref i) st.cur.pos o → o = .err b := by
  obtain ⟨o, ho, s⟩ := run_sem cx wf n i a m env st r hv h
  obtain ⟨b, rfl, hb⟩ := err_of ho hx
  exact ⟨b, hb, s, fun o' ho' => Sem.det ho' s⟩

/-- Every exception that leaves an invocation originates inside it, with the identity and the
    position it still has. -/
theorem C05_origin (cx : Ctx) (n i : Nat) (a : AMode) (m : RMode) (env : Env) (st : St) (r : Ret) (x : Exc)
    (h : run cx n i a m env st = some r) (hx : r.res = .thr x) : Origin x r.raw :=
  (run_t cx n i a m env st r h).org x hx

/-- Spelled out for a plain parse_error: a `raise` hook for exactly that rule at exactly that position. -/
theorem C05_parse_error_raised (cx : Ctx) (n i : Nat) (a : AMode) (m : RMode) (env : Env) (st : St) (r : Ret)
    (j : Nat) (p : Cursor) (h : run cx n i a m env st = some r) (hx : r.res = .thr (.parse j p)) :
    Ev.raise j p ∈ r.raw := C05_origin cx n i a m env st r _ h hx

/-- …and for a foreign exception thrown by the action of rule `k`. -/
theorem C05_foreign (cx : Ctx) (n i : Nat) (a : AMode) (m : RMode) (env : Env) (st : St) (r : Ret)
    (k : Nat) (s : Bool) (h : run cx n i a m env st = some r) (hx : r.res = .thr (.foreign k s)) :
    ∃ e ∈ r.raw, (∃ sd b c, e = Ev.apply k sd b c) ∨ (∃ sd c, e = Ev.apply0 k sd c) ∨ (∃ sd b c, e = Ev.ruleApply k sd b c) := C05_origin cx n i a m env st r _ h hx

/-- Byte, line and column of a parse_error are mutually consistent: together they are the
    position a scan of some consumed prefix yields. -/
theorem C05_position_consistent (cx : Ctx) (fuel i : Nat) (a : AMode) (m : RMode) (r : Ret) (j : Nat) (p : Cursor)
    (h : parseTop cx fuel i a m = some r) (hx : r.res = .thr (.parse j p)) : RepTracked cx p := by
  unfold parseTop at h
  have t := run_t cx fuel i a m {} cx.start r h
  exact t.evs (tracked_start cx) _ (t.org _ hx)

/-- `must< R >`: raises exactly when `R` failed locally, blaming `R`, at the position where `R`'s
    attempt left the input — not before where the attempt began. -/
theorem C05_must_position {rec : Rec} (hrec : GoodRec rec) (cx : Ctx) (k c : Nat) (a : AMode) (m : RMode) (env : Env)
    (st : St) (r : Ret) (h : body cx rec k (.must c) a m env st = some r) :
    ∃ r1, rec c a .optional env st = some r1 ∧
      ((r1.res = .fail ∧ r.res = .thr (.parse c (cx.rep r1.st.cur)) ∧ st.cur.pos ≤ r1.st.cur.pos) ∨
       (r1.res ≠ .fail ∧ r = r1)) := by
  simp only [body] at h
  split at h
  · exact absurd h (by simp)
  · rename_i r1 h1
    refine ⟨r1, h1, ?_⟩
    split at h
    · rename_i hf
      simp only [Option.some.injEq] at h; subst h
      exact Or.inl ⟨hf, rfl, (hrec _ _ _ _ _ _ h1).le⟩
    · rename_i hnf
      simp only [Option.some.injEq] at h; subst h
      exact Or.inr ⟨fun hf => hnf hf, rfl⟩

/-- `try_catch_*_return_false< E >`: an exception of a class named by `E` becomes a local failure
    (cursor restored when rewinding is required); any other exception passes unchanged. -/
theorem C05_catch_false {rec : Rec} (cx : Ctx) (k c : Nat) (ex : Catch) (a : AMode) (m : RMode) (env : Env)
    (st : St) (r : Ret) (h : body cx rec k (.tryCatchReturnFalse ex c) a m env st = some r) :
    ∃ r1, rec c a .optional env st = some r1 ∧
      (∀ e, r1.res = .thr e → ex.catches e = true → r.res = .fail ∧ (m = .required → r.st.cur = st.cur)) ∧
      (∀ e, r1.res = .thr e → ex.catches e = false → r.res = .thr e) ∧
      ((∀ e, r1.res ≠ .thr e) → r.res = r1.res) := by
  simp only [body, Option.map_eq_some_iff] at h
  obtain ⟨r1, h1, rfl⟩ := h
  refine ⟨r1, h1, ?_, ?_, ?_⟩
  · intro e he hc
    simp only [he, hc, if_true, dropOnFail_res, guardRestore_res, dropOnFail_st, true_and]
    intro hm; subst hm
    exact guardRestore_req_cur (by simp)
  · intro e he hc
    simp [he, hc]
  · intro hne
    cases hr : r1.res with
    | thr e => exact absurd hr (hne e)
    | ok => simp [hr]
    | fail => simp [hr]

/-- `try_catch_*_raise_nested< E >`: an exception of a class named by `E` is wrapped into a nested
    parse_error blaming the guarded rule at the position where the attempt began. -/
theorem C05_catch_nested {rec : Rec} (cx : Ctx) (k c : Nat) (ex : Catch) (a : AMode) (m : RMode) (env : Env)
    (st : St) (r : Ret) (h : body cx rec k (.tryCatchRaiseNested ex c) a m env st = some r) :
    ∃ r1, rec c a .optional env st = some r1 ∧
      (∀ e, r1.res = .thr e → ex.catches e = true → r.res = .thr (.nested c (cx.rep st.cur) e)) ∧
      (∀ e, r1.res = .thr e → ex.catches e = false → r.res = .thr e) := by
  simp only [body, Option.map_eq_some_iff] at h
  obtain ⟨r1, h1, rfl⟩ := h
  refine ⟨r1, h1, ?_, ?_⟩
  · intro e he hc; simp [he, hc]
  · intro e he hc; simp [he, hc]

/-- **`must_if< Errors >::control`.**  For a rule `i` that `Errors` has a message for, invoked through the run's control:
    the invocation never fails locally; when its body fails locally (or its `bool` action vetoes) the result is the
    parse_error blaming `i` itself at the position where the attempt stopped — a `raise` for `i` at that position follows
    the `failure` hook in the trace — and that position is not before the start of the attempt (`C05_origin`,
    `C05_position_consistent` apply to it like to any other parse_error). -/
theorem C05_must_if (cx : Ctx) (n i : Nat) (nd : Node) (a : AMode) (m : RMode) (env : Env) (st : St) (r : Ret)
    (hn : cx.g[i]? = some nd) (hc : nd.ctl = true) (hw : (cx.actOf env i nd).wrap = .none) (hk : env.ctl = 0) (hm : i ∈ cx.msgs)
    (h : run cx (n + 1) i a m env st = some r) :
    r.res ≠ .fail ∧
    ∃ r0 : Ret, body cx (run cx n) n nd.kind a (if useGuard a (cx.actOf env i nd) then .optional else m) env st = some r0 ∧
      ((r0.res = .fail ∨ (r0.res = .ok ∧ actionOutcome cx i a (cx.actOf env i nd) st.cur r0.st.cur = .vetoes)) →
        r.res = .thr (.parse i (cx.rep r0.st.cur)) ∧ Ev.raise i (cx.rep r0.st.cur) ∈ r.raw) := by
  have h' := h
  simp only [run, nodeCall, hn, hw, nodeCore, hc, Bool.not_true, Bool.false_eq_true, if_false,
    Option.map_eq_some_iff] at h
  obtain ⟨r1, ⟨r0, h0, rfl⟩, rfl⟩ := h
  have key : (r0.res = .fail ∨ (r0.res = .ok ∧ actionOutcome cx i a (cx.actOf env i nd) st.cur r0.st.cur = .vetoes)) →
      (afterBody cx i a (cx.actOf env i nd) env.sd st.cur r0).res = .thr (.parse i (cx.rep r0.st.cur)) := by
    intro hcase
    unfold afterBody failureHook
    simp only [hm, if_true]
    rcases hcase with hf | ⟨hok, hv⟩
    · simp only [hf]
    · simp only [hok, hv]
  have hz : cx.withCtl env.ctl = cx := by rw [hk]; exact Ctx.withCtl_zero cx
  refine ⟨?_, r0, h0, ?_⟩
  · simp only [bracket_res, guardRestore_res, hz]
    unfold afterBody failureHook
    simp only [hm, if_true]
    cases hr : r0.res with
    | thr e => simp
    | fail => simp
    | ok =>
      simp only
      cases actionOutcome cx i a (cx.actOf env i nd) st.cur r0.st.cur <;> simp [hr]
  · intro hcase
    have hres := key hcase
    have hres' : (bracket cx i a m env.ctl st (guardRestore (if useGuard a (cx.actOf env i nd) = true then RMode.required else RMode.optional) st.cur
        { res := (afterBody (cx.withCtl env.ctl) i a (cx.actOf env i nd) env.sd st.cur r0).res,
          st := (afterBody (cx.withCtl env.ctl) i a (cx.actOf env i nd) env.sd st.cur r0).st,
          raw := Ev.start i (cx.rep st.cur) env.ctl :: (afterBody (cx.withCtl env.ctl) i a (cx.actOf env i nd) env.sd st.cur r0).raw,
          surv := (afterBody (cx.withCtl env.ctl) i a (cx.actOf env i nd) env.sd st.cur r0).surv })).res =
        .thr (.parse i (cx.rep r0.st.cur)) := by
      simpa only [bracket_res, guardRestore_res, hz] using hres
    exact ⟨hres', C05_parse_error_raised cx (n + 1) i a m env st _ i _ h' hres'⟩

/-- Which classes the three families name: `parse_error` ⊂ `std::exception` ⊂ anything. -/
theorem C05_catch_classes :
    (∀ e, Catch.any.catches e = true) ∧
    (∀ i p, Catch.parse.catches (.parse i p) = true) ∧ (∀ i p e, Catch.parse.catches (.nested i p e) = true) ∧
    (∀ k s, Catch.parse.catches (.foreign k s) = false) ∧
    (∀ k, Catch.std.catches (.foreign k true) = true) ∧ (∀ k, Catch.std.catches (.foreign k false) = false) ∧
    (∀ i p, Catch.std.catches (.parse i p) = true) := by
  refine ⟨fun e => ?_, fun _ _ => rfl, fun _ _ _ => rfl, fun _ _ => rfl, fun _ => rfl, fun _ => rfl, fun _ _ => rfl⟩
  cases e <;> rfl

/-! ### Non-vacuity -/

/-- `T = sor< try_catch_return_false< M >, try_catch_std_raise_nested< M >, any >` hmm: a must that fails. -/
def exG : Grammar := #[
  ⟨true, {}, .seq [1, 2]⟩,
  ⟨true, {}, .atom (.one true [97])⟩,
  ⟨true, {}, .must 3⟩,
  ⟨true, {}, .seq [4, 4]⟩,
  ⟨true, {}, .atom (.one true [98])⟩,
  ⟨true, {}, .tryCatchRaiseNested .parse 0⟩]

/-- "abx": `must< seq< b, b > >` after `a` fails at byte 2 (where the attempt ended), blaming node 3 -/
example : ∃ r, parseTop { g := exG, inp := #[97, 98, 120] } 9 0 .action .required = some r ∧
    r.res = .thr (.parse 3 ⟨2, 1, 3⟩) ∧ Ev.raise 3 ⟨2, 1, 3⟩ ∈ r.raw := by decide +kernel

/-- the same under `try_catch_raise_nested`: nested, blaming the guarded rule at byte 0 -/
example : ∃ r, parseTop { g := exG, inp := #[97, 98, 120] } 9 5 .action .required = some r ∧
    r.res = .thr (.nested 0 ⟨0, 1, 1⟩ (.parse 3 ⟨2, 1, 3⟩)) := by decide +kernel

end Pegtl.C05
