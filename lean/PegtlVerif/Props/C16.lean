/-
  Props/C16.lean — property C16: `raw_string` implements Lua long-bracket literals.

  "The raw string rule matches exactly an opening long bracket of some level n, then the shortest
   following text that ends with the first closing long bracket of the same level n, consuming
   through that closing bracket; the content presented to the action is the text between the
   brackets without a single line ending that immediately follows the opening bracket; brackets
   of other levels inside the content are ignored; without a matching close the rule fails locally
   without consuming."

  Model:  `RawString.rawString cx k cont act M fuel st`  (Model/RawString.lean, a transcription of
          contrib/raw_string.hpp) returns `some (matched, input', span given to the content action)`;
          `k = ⟨Open, Marker, Close⟩`, `cont = none` is `raw_string< Open, Marker, Close >`,
          `cont = some R` is `raw_string< Open, Marker, Close, Contents... >`, `act` says whether an
          action is bound to `raw_string<…>::content`, `M` is the rewind mode of the call.
  Spec:   `LuaLong.Long o m c eol s p n b e`  (Spec/LuaLong.lean): at offset `p` of `s` starts a long
          literal of level `n` with content `s[b, e)`; it ends at `e + n + 2`.

  All theorems hold for every byte array, every start offset (`WF`: the input window is the tail of
  the array), every end-of-line policy `cx.eol`, every `Open ≠ Marker` (equal characters do not
  compile in C++) and *any* `Close` — also `Close = Open`, `Close = Marker`, or a line-ending byte.
-/
import PegtlVerif.Lemmas.RawString

namespace Pegtl.C16
open Pegtl Pegtl.RawString Pegtl.LuaLong

/-! ### Concrete instances used by the non-vacuity examples -/

/-- `[`, `=`, `]`. -/
def lua : Cfg := ⟨91, 61, 93⟩

/-- `[=[` LF `a]]b]==]c` `]=]` `zz` : level 1, the line ending is skipped, the content `a]]b]==]c`
    contains closing brackets of levels 0 and 2. -/
def inp1 : Array UInt8 := #[91, 61, 91, 10, 97, 93, 93, 98, 93, 61, 61, 93, 99, 93, 61, 93, 122, 122]

/-- `[==[abc]=]` : opening bracket of level 2, never closed at level 2. -/
def inp2 : Array UInt8 := #[91, 61, 61, 91, 97, 98, 99, 93, 61, 93]

/-- `[[x]]]]` : with pieces of two bytes the closing bracket at offset 3 is stepped over. -/
def inp3 : Array UInt8 := #[91, 91, 120, 93, 93, 93, 93]

/-- What the model returns on `inp1`: input left at offset 16 (line 2, column 13), content span `[4, 13)`. -/
def res1 : St × Option (Cursor × Cursor) := ({ cur := ⟨16, 2, 13⟩, endp := 18 }, some (⟨4, 2, 1⟩, ⟨13, 2, 10⟩))

def cx1 : Ctx := mkCtx inp1 .lfCrlf
def cx2 : Ctx := mkCtx inp2 .lfCrlf
def cx3 : Ctx := mkCtx inp3 .lf

/-! ### The theorems -/

/-- The rule-less `raw_string` terminates on every input: with the fuel `fuelFor st` the model never
    runs dry, the result is "matched" or "failed". -/
theorem C16_total (cx : Ctx) (k : Cfg) (st : St) (hom : k.o ≠ k.m) (h : WF cx st) (act : Bool) (M : RMode) :
    ∃ r st' sp, rawString cx k none act M (fuelFor st) st = some (r, st', sp) := by
  rcases rawString_plain cx k st hom h act M with ⟨_, _, _, st', sp, _, e, _⟩ | ⟨_, st', e, _⟩
  · exact ⟨true, st', sp, e⟩
  · exact ⟨false, st', none, e⟩

example : ∃ r st' sp, rawString cx1 lua none true .required (fuelFor cx1.start) cx1.start = some (r, st', sp) :=
  C16_total cx1 lua cx1.start (by decide) (WF_start cx1) true .required

/-- **C16_match.**  `raw_string< Open, Marker, Close >` matches and leaves the cursor at offset `q`
    exactly when a long literal starts at the cursor and ends at `q`: opening bracket of some level
    `n`, then the shortest text followed by a closing bracket of level `n` (`Long.first`: no closing
    bracket of level `n` starts earlier), consumed through that closing bracket. -/
theorem C16_match (cx : Ctx) (k : Cfg) (st : St) (hom : k.o ≠ k.m) (h : WF cx st) (act : Bool) (M : RMode)
    (q : Nat) :
    (∃ st' sp, rawString cx k none act M (fuelFor st) st = some (true, st', sp) ∧ st'.cur.pos = q)
      ↔ ∃ n b e, Long k.o k.m k.c cx.eol cx.inp st.cur.pos n b e ∧ q = e + n + 2 := by
  constructor
  · rintro ⟨st', sp, hr, hq⟩
    rcases rawString_plain cx k st hom h act M with ⟨n, b, e, st2, sp2, hl, e2, hp, _⟩ | ⟨_, st2, e2, _⟩
    · rw [hr] at e2
      injection e2 with e2; injection e2 with _ e2; injection e2 with e2 _
      subst e2
      exact ⟨n, b, e, hl, by omega⟩
    · rw [hr] at e2; injection e2 with e2; injection e2 with e2 _; cases e2
  · rintro ⟨n, b, e, hl, hq⟩
    rcases rawString_plain cx k st hom h act M with ⟨n2, b2, e2, st2, sp2, hl2, er, hp, _⟩ | ⟨no, _⟩
    · obtain ⟨rfl, rfl, rfl⟩ := Long_unique hom hl hl2
      exact ⟨st2, sp2, er, by omega⟩
    · exact absurd hl (no n b e)

example : ∃ st' sp, rawString cx1 lua none true .required (fuelFor cx1.start) cx1.start = some (true, st', sp)
    ∧ st'.cur.pos = 16 := ⟨res1.1, res1.2, by decide, rfl⟩

/-- The literal found above, from the theorem: level, content and end are forced. -/
example : ∃ n b e, Long 91 61 93 .lfCrlf inp1 0 n b e ∧ 16 = e + n + 2 :=
  (C16_match cx1 lua cx1.start (by decide) (WF_start cx1) true .required 16).1 ⟨res1.1, res1.2, by decide, rfl⟩

/-- The same statement against the executable scanner of the spec (`LuaLong.scan_iff`: `scan`
    computes `Long`). -/
theorem C16_match_scan (cx : Ctx) (k : Cfg) (st : St) (hom : k.o ≠ k.m) (h : WF cx st) (act : Bool) (M : RMode)
    (q : Nat) :
    (∃ st' sp, rawString cx k none act M (fuelFor st) st = some (true, st', sp) ∧ st'.cur.pos = q)
      ↔ ∃ n b e, scan k.o k.m k.c cx.eol cx.inp st.cur.pos = some (n, b, e) ∧ q = stop n e := by
  rw [C16_match cx k st hom h act M q]
  constructor
  · rintro ⟨n, b, e, hl, hq⟩; exact ⟨n, b, e, (scan_iff _ _ _ _ _ _ _ _ _ hom).2 hl, hq⟩
  · rintro ⟨n, b, e, hs, hq⟩; exact ⟨n, b, e, (scan_iff _ _ _ _ _ _ _ _ _ hom).1 hs, hq⟩

example : scan 91 61 93 .lfCrlf inp1 0 = some (1, 4, 13) := by decide

/-- A long literal is unique: "exactly". -/
theorem C16_unique {o m c : UInt8} {eol : Eol} {s : Array UInt8} {p n b e n' b' e' : Nat} (hom : o ≠ m)
    (h : Long o m c eol s p n b e) (h' : Long o m c eol s p n' b' e') : n = n' ∧ b = b' ∧ e = e' :=
  Long_unique hom h h'

example : Long 91 61 93 .lfCrlf inp1 0 1 4 13 := (scan_iff _ _ _ _ _ _ _ _ _ (by decide)).1 (by decide)

/-- **C16_content.**  When the rule matches and an action is bound to `raw_string<…>::content`, the
    action receives the span `[b, e)` of the literal: `b` is just behind the opening bracket and
    behind one line ending of the input's policy if one follows there (`Long.skip`:
    `b = p + n + 2 + eolLen …`, skipped once), `e` is where the closing bracket starts.  Without an
    action (`apply_mode::nothing`) nothing is called. -/
theorem C16_content (cx : Ctx) (k : Cfg) (st : St) (hom : k.o ≠ k.m) (h : WF cx st) (act : Bool) (M : RMode)
    (st' : St) (sp : Option (Cursor × Cursor))
    (hr : rawString cx k none act M (fuelFor st) st = some (true, st', sp)) :
    ∃ n b e, Long k.o k.m k.c cx.eol cx.inp st.cur.pos n b e
      ∧ b = st.cur.pos + n + 2 + eolLen cx.eol cx.inp (st.cur.pos + n + 2)
      ∧ (act = true → ∃ cb ce, sp = some (cb, ce) ∧ cb.pos = b ∧ ce.pos = e)
      ∧ (act = false → sp = none) := by
  rcases rawString_plain cx k st hom h act M with ⟨n, b, e, st2, sp2, hl, e2, _, _, ha, hn⟩ | ⟨_, st2, e2, _⟩
  · rw [hr] at e2
    injection e2 with e2; injection e2 with _ e2; injection e2 with _ e3
    subst e3
    exact ⟨n, b, e, hl, hl.skip, ha, hn⟩
  · rw [hr] at e2; injection e2 with e2; injection e2 with e2 _; cases e2

/-- `[=[` LF `a]]b]==]c]=]zz`: the action sees `[4, 13)` = `a]]b]==]c`, without the LF at offset 3. -/
example : rawString cx1 lua none true .required (fuelFor cx1.start) cx1.start
    = some (true, { cur := ⟨16, 2, 13⟩, endp := 18 }, some (⟨4, 2, 1⟩, ⟨13, 2, 10⟩)) := by decide

/-- **C16_levels.**  Inside the content handed to the action every closing long bracket has a level
    different from the literal's: such brackets do not end the literal, and the bracket that does
    end it is the first one of the literal's own level at or behind the content start. -/
theorem C16_levels (cx : Ctx) (k : Cfg) (st : St) (hom : k.o ≠ k.m) (h : WF cx st) (M : RMode)
    (st' : St) (cb ce : Cursor)
    (hr : rawString cx k none true M (fuelFor st) st = some (true, st', some (cb, ce))) :
    ∃ n, OpenAt k.o k.m cx.inp st.cur.pos n
      ∧ CloseAt k.m k.c cx.inp ce.pos n
      ∧ (∀ q n', cb.pos ≤ q → q < ce.pos → CloseAt k.m k.c cx.inp q n' → n' ≠ n)
      ∧ (∀ q, cb.pos ≤ q → CloseAt k.m k.c cx.inp q n → ce.pos ≤ q) := by
  obtain ⟨n, b, e, hl, _, ha, _⟩ := C16_content cx k st hom h true M st' _ hr
  obtain ⟨cb', ce', hs, hb, he⟩ := ha rfl
  injection hs with hs; injection hs with h1 h2
  subst h1 h2
  refine ⟨n, hl.opener, he ▸ hl.close, ?_, ?_⟩
  · intro q n' a b' hc hn
    subst hn
    exact hl.first q (by omega) (by omega) hc
  · intro q a hc
    rcases Nat.lt_or_ge q ce.pos with lt | ge
    · exact absurd hc (hl.first q (by omega) (by omega))
    · exact ge

/-- In `inp1` the content `[4, 13)` really contains closing brackets of other levels: level 0 at
    offset 5 and level 2 at offset 8; they were ignored. -/
example : CloseAt 61 93 inp1 5 0 ∧ CloseAt 61 93 inp1 8 2 ∧ 4 ≤ 5 ∧ 8 < 13 := by decide

/-- **C16_fail.**  The rule fails exactly when no long literal starts at the cursor — in particular
    when the opening bracket has no closing bracket of the same level behind it … -/
theorem C16_fail (cx : Ctx) (k : Cfg) (st : St) (hom : k.o ≠ k.m) (h : WF cx st) (act : Bool) (M : RMode) :
    (∃ st' sp, rawString cx k none act M (fuelFor st) st = some (false, st', sp))
      ↔ ∀ n b e, ¬ Long k.o k.m k.c cx.eol cx.inp st.cur.pos n b e := by
  constructor
  · rintro ⟨st', sp, hr⟩
    rcases rawString_plain cx k st hom h act M with ⟨_, _, _, _, _, _, e2, _⟩ | ⟨no, _⟩
    · rw [hr] at e2; injection e2 with e2; injection e2 with e2 _; cases e2
    · exact no
  · intro no
    rcases rawString_plain cx k st hom h act M with ⟨n, b, e, _, _, hl, _⟩ | ⟨_, st', e2, _⟩
    · exact absurd hl (no n b e)
    · exact ⟨st', none, e2⟩

/-- … and a failure in `rewind_mode::required` is local: the cursor (offset, line and column) is
    where it was, and no action was called.  (This is the theorem that was false before the `fix:`
    commit that added the rewind guard to `raw_string::match`.) -/
theorem C16_fail_rewind (cx : Ctx) (k : Cfg) (st : St) (hom : k.o ≠ k.m) (h : WF cx st) (act : Bool)
    (st' : St) (sp : Option (Cursor × Cursor))
    (hr : rawString cx k none act .required (fuelFor st) st = some (false, st', sp)) :
    st'.cur = st.cur ∧ sp = none := by
  rcases rawString_plain cx k st hom h act .required with ⟨_, _, _, _, _, _, e2, _⟩ | ⟨_, st2, e2, hc⟩
  · rw [hr] at e2; injection e2 with e2; injection e2 with e2 _; cases e2
  · rw [hr] at e2
    injection e2 with e2; injection e2 with _ e2; injection e2 with e2 e3
    subst e2
    exact ⟨hc rfl, e3⟩

/-- `[==[abc]=]` has an opening bracket of level 2 and only a closing bracket of level 1: the rule
    fails and the cursor is back at offset 0 (the scan had moved it to the end, offset 10) … -/
example : rawString cx2 lua none true .required (fuelFor cx2.start) cx2.start
    = some (false, { cur := ⟨0, 1, 1⟩, endp := 10 }, none) := by decide

/-- … whereas in `rewind_mode::optional` without an action it stays where the scan ended. -/
example : rawString cx2 lua none false .optional (fuelFor cx2.start) cx2.start
    = some (false, { cur := ⟨10, 1, 11⟩, endp := 10 }, none) := by decide

example : ∀ n b e, ¬ Long 91 61 93 .lfCrlf inp2 0 n b e :=
  (C16_fail cx2 lua cx2.start (by decide) (WF_start cx2) true .required).1
    ⟨{ cur := ⟨0, 1, 1⟩, endp := 10 }, none, by decide⟩

/-- **C16_contents.**  `raw_string< Open, Marker, Close, Contents... >`, for every content rule `R`
    whose verdict is a function `step` of the offset and which consumes when it succeeds (`RuleOK`):
    the rule matches up to `q` exactly when an opening bracket of level `n` (and one line ending) is
    followed by consecutive matches of the content rule, none of them starting at a closing bracket
    of level `n`, the last one ending at such a bracket (`LongWith`, `Pieces`), and `q` is just
    behind that bracket. -/
theorem C16_contents (cx : Ctx) (k : Cfg) (st : St) (hom : k.o ≠ k.m) (h : WF cx st) (act : Bool) (M : RMode)
    (R : St → Bool × St) (step : Nat → Option Nat) (hR : RuleOK cx R step) (q : Nat) :
    (∃ st' sp, rawString cx k (some R) act M (fuelFor st) st = some (true, st', sp) ∧ st'.cur.pos = q)
      ↔ ∃ n b e, LongWith k.o k.m k.c cx.eol cx.inp step st.cur.pos n b e ∧ q = e + n + 2 := by
  constructor
  · rintro ⟨st', sp, hr, hq⟩
    rcases rawString_contents cx k st hom h act M R step hR with ⟨n, b, e, st2, sp2, hl, e2, hp, _⟩ | ⟨_, st2, e2, _⟩
    · rw [hr] at e2
      injection e2 with e2; injection e2 with _ e2; injection e2 with e2 _
      subst e2
      exact ⟨n, b, e, hl, by omega⟩
    · rw [hr] at e2; injection e2 with e2; injection e2 with e2 _; cases e2
  · rintro ⟨n, b, e, hl, hq⟩
    rcases rawString_contents cx k st hom h act M R step hR with ⟨n2, b2, e2, st2, sp2, hl2, er, hp, _⟩ | ⟨no, _⟩
    · obtain ⟨rfl, rfl, rfl⟩ := LongWith_unique hom hl hl2
      exact ⟨st2, sp2, er, by omega⟩
    · exact absurd hl (no n b e)

/-- `Contents = any, any` on `[[x]]]]`: the content is `x]` (the closing bracket at offset 3 does not
    start at a piece boundary), the rule consumes all 7 bytes. -/
example : rawString cx3 lua (some (seqAtoms cx3 [.any, .any])) true .required (fuelFor cx3.start) cx3.start
    = some (true, { cur := ⟨6, 1, 7⟩, endp := 7 }, some (⟨2, 1, 3⟩, ⟨4, 1, 5⟩)) := by decide

/-- With content rules the action receives the pieces `[b, e)`; a failure in
    `rewind_mode::required` restores the cursor; the rule always terminates. -/
theorem C16_contents_content (cx : Ctx) (k : Cfg) (st : St) (hom : k.o ≠ k.m) (h : WF cx st) (act : Bool)
    (M : RMode) (R : St → Bool × St) (step : Nat → Option Nat) (hR : RuleOK cx R step) :
    ∃ r st' sp, rawString cx k (some R) act M (fuelFor st) st = some (r, st', sp)
      ∧ (r = true → ∃ n b e, LongWith k.o k.m k.c cx.eol cx.inp step st.cur.pos n b e
            ∧ (act = true → ∃ cb ce, sp = some (cb, ce) ∧ cb.pos = b ∧ ce.pos = e)
            ∧ (act = false → sp = none))
      ∧ (r = false → sp = none ∧ (M = .required → st'.cur = st.cur)
            ∧ ∀ n b e, ¬ LongWith k.o k.m k.c cx.eol cx.inp step st.cur.pos n b e) := by
  rcases rawString_contents cx k st hom h act M R step hR with ⟨n, b, e, st2, sp2, hl, e2, _, ha, hn⟩ | ⟨no, st2, e2, hc⟩
  · refine ⟨true, st2, sp2, e2, fun _ => ⟨n, b, e, hl, ha, hn⟩, ?_⟩
    intro x; cases x
  · refine ⟨false, st2, none, e2, ?_, fun _ => ⟨rfl, hc, no⟩⟩
    intro x; cases x

/-- `Contents = any` satisfies the assumption `RuleOK` … -/
example : RuleOK cx1 (seqAtoms cx1 [.any]) (anyStep cx1.inp) := ruleOK_any cx1

/-- … and gives exactly the literals of the rule-less `raw_string`: cut into single bytes, the
    content condition says that the closing bracket is the first of its level. -/
theorem C16_contents_any (cx : Ctx) (k : Cfg) (st : St) (hom : k.o ≠ k.m) (h : WF cx st) (act : Bool) (M : RMode)
    (q : Nat) :
    (∃ st' sp, rawString cx k (some (seqAtoms cx [.any])) act M (fuelFor st) st = some (true, st', sp) ∧ st'.cur.pos = q)
      ↔ (∃ st' sp, rawString cx k none act M (fuelFor st) st = some (true, st', sp) ∧ st'.cur.pos = q) := by
  rw [C16_contents cx k st hom h act M _ _ (ruleOK_any cx) q, C16_match cx k st hom h act M q]
  constructor
  · rintro ⟨n, b, e, ⟨ho, hs, hp⟩, hq⟩
    obtain ⟨le, cl, fst⟩ := (pieces_any_iff _ _ _ _ _ _).1 hp
    exact ⟨n, b, e, ⟨ho, hs, le, cl, fst⟩, hq⟩
  · rintro ⟨n, b, e, ⟨ho, hs, le, cl, fst⟩, hq⟩
    exact ⟨n, b, e, ⟨ho, hs, (pieces_any_iff _ _ _ _ _ _).2 ⟨le, cl, fst⟩⟩, hq⟩

example : rawString cx1 lua (some (seqAtoms cx1 [.any])) true .required (fuelFor cx1.start) cx1.start
    = rawString cx1 lua none true .required (fuelFor cx1.start) cx1.start := by decide

end Pegtl.C16
