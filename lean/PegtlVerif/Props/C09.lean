/-
  Props/C09.lean — property C09: "Convenience and contrib rules equal their documented expansions".

  `Spec.expandKind` is the table of documented expansions (doc/Rule-Reference.md, "Equivalent to";
  prose for `partial`, `star_partial`, `star_strict`, `rematch`).  The hand-optimised `match()` bodies
  (`until`, `rep`, `rep_min_max`, `rep_opt`, `if_then_else`, `strict`, `star_strict`, `plus`,
  `partial`, `star_partial`, `rematch`, `if_must`, `must`, `try_catch_*`, …) are transcribed in
  Model/Run.lean; `C09_refines` says that whatever such a body returns — success and consumed prefix,
  local failure, or a global failure and the rule it blames — is what the PEG formalism derives for
  the expansion.  Alias rules (`list`, `list_must`, `list_tail`, `pad`, `pad_opt`, `minus`, `rep_min`,
  `rep_max`, `star_must`, `if_must_else`, `opt_must`, `keyword`, `identifier`, `shebang`, `two`, `three`, …)
  are *the same C++ type* as their expansion; the grammar resolver (vlib/gram.py) expands them as
  the `using` declarations of internal/*.hpp do, and the differential run checks that resolution.
-/
import PegtlVerif.Lemmas.SemRun
import PegtlVerif.Lemmas.SemDet
import PegtlVerif.Lemmas.WftCheck
import PegtlVerif.Lemmas.AtomExpand
import PegtlVerif.Lemmas.Complete

namespace Pegtl.C09
open Pegtl.Spec

/-- Every rule invocation refines the documented expansion of its kind. -/
theorem C09_refines (cx : Ctx) (wf : WFT cx) (n i : Nat) (nd : Node) (hn : cx.g[i]? = some nd)
    (a : AMode) (m : RMode) (env : Env) (st : St) (r : Ret)
    (hv : Valid cx st) (h : run cx n i a m env st = some r) :
    ∃ o, absO r = some o ∧ SemC cx st.endp (expandKind nd.kind) st.cur.pos o := by
  obtain ⟨o, ho, s⟩ := run_sem cx wf n i a m env st r hv h
  refine ⟨o, ho, ?_⟩
  cases s with
  | ref hG hS => rw [Gof_of hn] at hG; cases hG; exact hS

/-- …and the outcome is the only one the formalism allows for that expansion: same accepted
    inputs, same consumed prefix, same blamed rule. -/
theorem C09_exact (cx : Ctx) (wf : WFT cx) (n i : Nat) (nd : Node) (hn : cx.g[i]? = some nd)
    (a : AMode) (m : RMode) (env : Env) (st : St) (r : Ret) (o : Outcome)
    (hv : Valid cx st) (h : run cx n i a m env st = some r)
    (hs : SemC cx st.endp (expandKind nd.kind) st.cur.pos o) : absO r = some o := by
  obtain ⟨o', ho', s'⟩ := C09_refines cx wf n i nd hn a m env st r hv h
  rw [Sem.det hs s']; exact ho'

/-- Conversely, whenever the formalism derives an outcome for the documented expansion of rule `i`'s kind, the
    hand-optimised `match()` returns (with enough fuel, in every mode) and returns that outcome: the rule accepts
    *all* the inputs its expansion accepts, not only a subset. -/
theorem C09_complete (cx : Ctx) (wf : WFT cx) (i : Nat) (nd : Node) (hn : cx.g[i]? = some nd)
    (st : St) (hv : Valid cx st) (o : Outcome)
    (hs : SemC cx st.endp (expandKind nd.kind) st.cur.pos o) (a : AMode) (m : RMode) (env : Env) :
    ∃ n r, (∀ n', n ≤ n' → run cx n' i a m env st = some r) ∧ absO r = some o :=
  Complete.run_complete cx wf i st hv o (.ref (Gof_of hn) hs) a m env

/-! #### The expansions, spelled out for the hand-optimised rules -/

/-- `until< R, S... >` ≡ `seq< star< not_at< R >, S... >, R >`. -/
theorem C09_until (c b : Nat) :
    expandKind (.until2 c b) = .seq (.star (.seq (.not_ (.ref c)) (.ref b))) (.ref c) := rfl

/-- `until< R >` ≡ `until< R, any >`. -/
theorem C09_until1 (c : Nat) :
    expandKind (.until1 c) = .seq (.star (.seq (.not_ (.ref c)) (.atom .any))) (.ref c) := rfl

/-- `rep_min_max< Min, Max, R >` ≡ `seq< rep< Min, R >, rep_opt< Max - Min, R >, not_at< R > >`. -/
theorem C09_rep_min_max (lo hi c na : Nat) :
    expandKind (.repMinMax lo hi c na) =
      .seq (repE lo (.ref c)) (.seq (repOptE (hi - lo) (.ref c)) (.not_ (.ref c))) := rfl

/-- `if_then_else< R, S, T >` ≡ `sor< seq< R, S >, seq< not_at< R >, T > >`. -/
theorem C09_if_then_else (c t e : Nat) :
    expandKind (.ifThenElse c t e) = .alt (.seq (.ref c) (.ref t)) (.seq (.not_ (.ref c)) (.ref e)) := rfl

/-- `strict< R, S... >` ≡ `sor< not_at< R >, seq< R, S... > >`. -/
theorem C09_strict (c rest : Nat) :
    expandKind (.strict c rest) = .alt (.not_ (.ref c)) (.seq (.ref c) (.ref rest)) := rfl

/-- `must< R >` ≡ `sor< R, raise< R > >`. -/
theorem C09_must (c : Nat) : expandKind (.must c) = .alt (.ref c) (.raise c) := rfl

/-- `if_must< R, S... >` ≡ `seq< R, must< S... > >`; `opt_must< R, S... >` ≡ `opt< if_must< R, S... > >`. -/
theorem C09_if_must (c mn : Nat) :
    expandKind (.ifMust false c mn) = .seq (.ref c) (.ref mn) ∧
    expandKind (.ifMust true c mn) = (PExp.seq (.ref c) (.ref mn)).opt := ⟨rfl, rfl⟩

/-! #### Where the reference gives two expansions, they agree -/

/-- `seq< R, M >` ≡ `if_then_else< R, M, failure >` (second documented form of `if_must`). -/
theorem C09_two_forms_if_must {G eol inp endp} (R M : PExp) (p : Nat) (o : Outcome) :
    Sem G eol inp endp (.seq R M) p o ↔
    Sem G eol inp endp (.alt (.seq R M) (.seq (.not_ R) .failE)) p o := by
  constructor
  · intro h
    cases h with
    | seqOk h1 h2 =>
      cases o with
      | ok q => exact .altOk (.seqOk h1 h2)
      | fail => exact .altFail (.seqOk h1 h2) (.seqFail (.notOk h1))
      | err b => exact .altErr (.seqOk h1 h2)
    | seqFail h1 => exact .altFail (.seqFail h1) (.seqOk (.notFail h1) .failE)
    | seqErr h1 => exact .altErr (.seqErr h1)
  · intro h
    cases h with
    | altOk h1 => exact h1
    | altErr h1 => exact h1
    | altFail h1 h2 =>
      cases h2 with
      | seqOk a b => cases b; exact h1
      | seqFail a => exact h1
      | seqErr a =>
        -- `not_at< R >` raised: then `R` raised, so `seq< R, M >` cannot have failed locally
        cases a with
        | notErr a' =>
          cases h1 with
          | seqOk x y => cases Sem.det a' x
          | seqFail x => cases Sem.det a' x

/-- `opt< seq< R, M > >` ≡ `if_then_else< R, M, success >` (second documented form of `opt_must`),
    provided `M` cannot fail locally (it is a `must`). -/
theorem C09_two_forms_opt_must {G eol inp endp} (R M : PExp) (p : Nat) (o : Outcome)
    (hM : ∀ q, ¬ Sem G eol inp endp M q .fail) :
    Sem G eol inp endp (PExp.seq R M).opt p o ↔
    Sem G eol inp endp (.alt (.seq R M) (.seq (.not_ R) .eps)) p o := by
  constructor
  · intro h
    cases h with
    | altOk h1 => exact .altOk h1
    | altErr h1 => exact .altErr h1
    | altFail h1 h2 =>
      cases h2
      cases h1 with
      | seqOk x y => exact absurd y (hM _)
      | seqFail x => exact .altFail (.seqFail x) (.seqOk (.notFail x) .eps)
  · intro h
    cases h with
    | altOk h1 => exact .altOk h1
    | altErr h1 => exact .altErr h1
    | altFail h1 h2 =>
      cases h1 with
      | seqOk x y => exact absurd y (hM _)
      | seqFail x =>
        cases h2 with
        | seqOk a b => cases a with
          | notFail _ => cases b; exact .altFail (.seqFail x) .eps
        | seqFail a => cases a with
          | notOk a' => cases Sem.det x a'
        | seqErr a => cases a with
          | notErr a' => cases Sem.det x a'

/-! ### Non-vacuity -/

/-- `until< one<'b'>, one<'a'> >`, `rep_min_max< 1, 2, one<'a'> >`, `opt_must< one<'a'>, one<'b'> >`. -/
def exG : Grammar := #[
  ⟨true, {}, .atom (.one true [97])⟩,
  ⟨true, {}, .atom (.one true [98])⟩,
  ⟨true, {}, .until2 1 0⟩,
  ⟨true, {}, .repMinMax 1 2 0 4⟩,
  ⟨false, {}, .notAt 0⟩,
  ⟨true, {}, .ifMust true 0 6⟩,
  ⟨false, {}, .must 1⟩]

def exCx (inp : Array UInt8) : Ctx := { g := exG, inp := inp }

theorem exCx_wf (inp : Array UInt8) : WFT (exCx inp) :=
  wftCheck_sound (show wftCheck (exCx #[]) = true by decide)

/-- "aab": `until` consumes through the `b` -/
example : (run (exCx #[97, 97, 98]) 8 2 .action .required {} (exCx #[97, 97, 98]).start).map absO =
    some (some (.ok 3)) := by decide +kernel

/-- "aaa": `rep_min_max< 1, 2 >` fails because a third `a` follows -/
example : (run (exCx #[97, 97, 97]) 8 3 .action .required {} (exCx #[97, 97, 97]).start).map absO =
    some (some .fail) := by decide +kernel

/-- "ax": `opt_must< a, b >` raises, blaming `b` (node 1) -/
example : (run (exCx #[97, 120]) 8 5 .action .required {} (exCx #[97, 120]).start).map absO =
    some (some (.err (.parse 1))) := by decide +kernel

/-! ### multi-byte atoms equal the sequences the rule reference documents -/

/-- `string< c₁, …, cₙ >` ≡ `seq< one< c₁ >, …, one< cₙ > >`: same outcome (success, consumed prefix, or local failure)
    at every position inside the input, for every input. -/
theorem C09_string_expansion {G : Nat → Option PExp} {eol : Eol} {inp : Array UInt8} (endp : Nat) (cs : List UInt8) (p : Nat)
    (hp : p ≤ endp) (o : Outcome) :
    Sem G eol inp endp (.atom (.string cs)) p o ↔ Sem G eol inp endp (seqL (cs.map oneOf)) p o := by
  refine sem_iff_of_outcome ?_ (sem_seq_ones endp cs p hp) o
  rw [← atomOutcome_string (eol := eol)]
  exact sem_atom_outcome endp _ p

/-- `bytes< N >` ≡ `rep< N, any >`. -/
theorem C09_bytes_expansion {G : Nat → Option PExp} {eol : Eol} {inp : Array UInt8} (endp n p : Nat) (hp : p ≤ endp) (o : Outcome) :
    Sem G eol inp endp (.atom (.bytes n)) p o ↔ Sem G eol inp endp (repE n (.atom .any)) p o := by
  refine sem_iff_of_outcome ?_ (sem_rep_any endp n p hp) o
  rw [← atomOutcome_bytes (eol := eol) (inp := inp)]
  exact sem_atom_outcome endp _ p

/-- `istring< c₁, …, cₙ >` ≡ the sequence of per-character tests in which an ASCII letter matches itself and its other case
    (`ichar_equal`) and every other byte only itself. -/
theorem C09_istring_expansion {G : Nat → Option PExp} {eol : Eol} {inp : Array UInt8} (endp : Nat) (cs : List UInt8) (p : Nat)
    (hp : p ≤ endp) (o : Outcome) :
    Sem G eol inp endp (.atom (.istring cs)) p o ↔ Sem G eol inp endp (seqL (cs.map ioneOf)) p o := by
  refine sem_iff_of_outcome ?_ (sem_seq_iones endp cs p hp) o
  rw [← atomOutcome_istring (eol := eol)]
  exact sem_atom_outcome endp _ p

/-- **contrib `rep_one_min_max< lo, hi, c >`** (a hand-written loop over `peek_char`) ≡ the documented
    `rep_min_max< lo, hi, one< c > >` = `seq< rep< lo, one< c > >, rep_opt< hi - lo, one< c > >, not_at< one< c > > >`:
    same outcome at every position of every input — it matches between `lo` and `hi` copies of `c` and fails if a further
    `c` follows; the model's `atomStep` for it refines this meaning (`atomStep_sem`), and the tie to the header is the
    differential run. -/
theorem C09_rep_one_min_max {G : Nat → Option PExp} {eol : Eol} {inp : Array UInt8} (endp lo hi : Nat) (c : UInt8) (p : Nat)
    (hp : p ≤ endp) (hsz : endp ≤ inp.size) (hlh : lo ≤ hi) (o : Outcome) :
    Sem G eol inp endp (.atom (.repOne lo hi c)) p o ↔ Sem G eol inp endp (repOneExpansion lo hi c) p o := by
  refine sem_iff_of_outcome ?_ (sem_repOneExpansion endp lo hi c p hlh) o
  rw [← atomOutcome_repOne (eol := eol) endp lo hi c p hp hsz hlh]
  exact sem_atom_outcome endp _ p

example : Sem (fun _ => none) .lfCrlf #[97, 98, 99] 3 (seqL ([97, 98].map oneOf)) 0 (.ok 2) :=
  (C09_string_expansion 3 [97, 98] 0 (by decide) _).mp (.atomOk (by decide))

end Pegtl.C09
